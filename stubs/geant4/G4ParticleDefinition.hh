#pragma once
#include "globals.hh"
class G4ParticleDefinition {};
