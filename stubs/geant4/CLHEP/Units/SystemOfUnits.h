#include "G4SystemOfUnits.hh"
