#pragma once
class G4Event {};
