#pragma once
#include "G4ParticleDefinition.hh"
#include "G4ParticleMomentum.hh"
#include "G4Event.hh"
class G4ParticleGun { public: G4ParticleGun(); G4ParticleGun(G4int); G4ParticleGun(G4ParticleDefinition*, G4int n=1); virtual ~G4ParticleGun();
 virtual void GeneratePrimaryVertex(G4Event*); void SetParticleDefinition(G4ParticleDefinition*); void SetParticleTime(G4double); void SetParticleMomentum(G4ParticleMomentum); void SetParticleMomentum(G4double); void SetParticlePosition(G4ThreeVector); void SetParticleEnergy(G4double); void SetParticleMomentumDirection(G4ParticleMomentum);
 protected: G4int NumberOfParticlesToBeGenerated; G4ParticleDefinition* particle_definition; G4ParticleMomentum particle_momentum_direction; G4double particle_energy; G4double particle_momentum; G4ThreeVector particle_position; G4double particle_time; G4ThreeVector particle_polarization; G4double particle_charge; };
