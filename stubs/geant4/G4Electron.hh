#pragma once
#include "G4ParticleDefinition.hh"
class G4Electron : public G4ParticleDefinition { public: static G4Electron* ElectronDefinition(); static G4Electron* Definition(); };
