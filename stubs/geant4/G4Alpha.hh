#pragma once
#include "G4ParticleDefinition.hh"
class G4Alpha : public G4ParticleDefinition { public: static G4Alpha* AlphaDefinition(); static G4Alpha* Definition(); };
