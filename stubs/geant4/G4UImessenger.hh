#pragma once
#include "globals.hh"
class G4UIcommand; class G4UIdirectory;
class G4UImessenger { public: G4UImessenger(); virtual ~G4UImessenger(); virtual void SetNewValue(G4UIcommand*, G4String); virtual G4String GetCurrentValue(G4UIcommand*); };
