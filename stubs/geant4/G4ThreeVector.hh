#pragma once
#include "globals.hh"
class G4ThreeVector { public: G4ThreeVector(double x=0,double y=0,double z=0); double x() const; double y() const; double z() const; void set(double,double,double); };
