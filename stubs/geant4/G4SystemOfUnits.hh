#pragma once
namespace CLHEP { static constexpr double MeV=1.; static constexpr double second=1.e9; static constexpr double keV=1e-3; static constexpr double mm=1.; static constexpr double degree=0.017453292519943295; }
using CLHEP::MeV; using CLHEP::second; using CLHEP::mm;
