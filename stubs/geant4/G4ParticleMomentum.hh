#pragma once
#include "G4ThreeVector.hh"
typedef G4ThreeVector G4ParticleMomentum;
