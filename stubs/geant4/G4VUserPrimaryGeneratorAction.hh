#pragma once
#include "G4Event.hh"
class G4VUserPrimaryGeneratorAction { public: G4VUserPrimaryGeneratorAction(); virtual ~G4VUserPrimaryGeneratorAction(); virtual void GeneratePrimaries(G4Event*)=0; };
