#pragma once
#include "G4ParticleDefinition.hh"
class G4Positron : public G4ParticleDefinition { public: static G4Positron* PositronDefinition(); static G4Positron* Definition(); };
