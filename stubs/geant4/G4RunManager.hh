#pragma once
#include "globals.hh"
class G4RunManager { public: static G4RunManager* GetRunManager(); void AbortRun(bool soft=false); };
