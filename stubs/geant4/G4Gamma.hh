#pragma once
#include "G4ParticleDefinition.hh"
class G4Gamma : public G4ParticleDefinition { public: static G4Gamma* GammaDefinition(); static G4Gamma* Definition(); };
