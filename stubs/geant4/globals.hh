#pragma once
#include <string>
#include <iostream>
typedef double G4double; typedef int G4int; typedef bool G4bool; typedef std::string G4String;
#define G4cout std::cout
#define G4cerr std::cerr
#define G4endl std::endl
enum G4ExceptionSeverity { FatalException, FatalErrorInArgument, RunMustBeAborted, EventMustBeAborted, JustWarning };
void G4Exception(const char*, const char*, G4ExceptionSeverity, const char*);
