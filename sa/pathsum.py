"""All-paths analyses over a unit's CFG: emitted energy, particle count (DESIGN.md 2.5).

The unit is first specialised (constant propagation) on the level it is entered with; the residual CFG is then
summarised by a fixpoint over nodes: the *set* of values of an additive quantity over every path to an exit.
Cycles are allowed only if nothing inside them contributes (rejection loops of angular correlations)."""
from fractions import Fraction

from . import cfg as cfgm, cpp2ir, ir, sccp, tv
from .project import AnalysisBroken

ME2 = Fraction(1022, 1000)
# emission primitive -> (index of the energy argument, extra visible energy)
EMIT = {'gamma': (0, 0), 'electron': (0, 0), 'positron': (0, ME2), 'alpha': (0, 0), 'pair': (0, ME2),
        'nucltransk': (0, 0), 'nucltranskl': (0, 0), 'nucltransklm': (0, 0), 'nucltransklm_pb': (0, 0)}
# particles appended per primitive (min, max)
COUNT = {'gamma': (1, 1), 'electron': (1, 1), 'positron': (1, 1), 'alpha': (1, 1), 'pair': (2, 2), 'particle': (1, 1),
         'nucltransk': (1, 2), 'nucltranskl': (1, 2), 'nucltransklm': (1, 2), 'nucltransklm_pb': (1, 3),
         'beta': (1, 1), 'beta1': (1, 1), 'beta2': (1, 1), 'beta_1fu': (1, 1), 'pbatshell': (0, 12)}


def unit_cfg(fn, sigs):
    tree, lo = cpp2ir.lower_function(fn, sigs)
    side = tv.Side('c', fn['name'], [p['name'] for p in fn['params']])
    g = tv.rewrite_cfg(cfgm.build(tree), side)
    return cfgm.compact(g, drop=('nop', 'io')), side


def dispatch_levels(g, var='levelkev'):
    """literals the unit compares its level argument with"""
    out = {}
    for n in g.nodes:
        if n.kind == 'branch':
            for x in ir.subexprs(n.stmt[1]):
                if x[0] == 'op' and x[1] == '==' and len(x) == 4 and ('var', var) in x[2:]:
                    for y in x[2:]:
                        if y[0] == 'num':
                            out[int(y[1])] = n.line
    return out


def specialise(g, env):
    ev = sccp.Evaluator('c', {'$emass': ('num', Fraction(51099906, 100000000))})
    e0 = {k: ('num', Fraction(v)) for k, v in env.items()}
    return sccp.specialise(g, e0, ev, lambda c, p: tv._maywrite('c', c, p))


def node_energy(n):
    """visible energy emitted by the node (Fraction MeV), None if it emits but the energy is not a constant"""
    if n.kind != 'call' or n.stmt[1] not in EMIT:
        return Fraction(0)
    idx, extra = EMIT[n.stmt[1]]
    a = n.stmt[2][idx]
    if a[0] != 'num':
        return None
    return a[1] + extra


def all_path_sums(g, contrib, limit=400):
    """-> (set of totals at the entry, witness paths {total: [node ids]}); contrib(node) -> Fraction"""
    order = list(reversed(g.rpo()))
    val = {n.id: contrib(n) for n in g.nodes}
    sets = {n.id: {} for n in g.nodes}          # total -> next node on a witness path
    for n in g.nodes:
        if not n.succ and n.kind != 'throw':      # a throwing path produces no event at all
            sets[n.id] = {val[n.id]: None}
    changed = True
    rounds = 0
    while changed:
        changed = False
        rounds += 1
        if rounds > 200:
            raise AnalysisBroken('path sums do not converge (a cycle contributes)')
        for i in order:
            n = g.nodes[i]
            for s in n.succ:
                for t in list(sets[s]):
                    tot = t + val[i]
                    if tot not in sets[i]:
                        sets[i][tot] = (s, t)
                        changed = True
                        if len(sets[i]) > limit:
                            raise AnalysisBroken('more than %d distinct path totals at line %d' % (limit, n.line))
    # contributions inside cycles are not allowed
    seen, stack = set(), set()

    def witness(total):
        path = []
        i, t = g.entry.id, total
        guard = 0
        while i is not None and guard < 10000:
            path.append(i)
            nxt = sets[i].get(t)
            if nxt is None:
                break
            i, t = nxt
            guard += 1
        return path
    return sets[g.entry.id], witness


def cycles_contribute(g, contrib):
    """nodes on a cycle whose contribution is non-zero"""
    bad = []
    for n in g.nodes:
        if contrib(n) != 0 and n.id in g.reachable_from_succ(n.id):
            bad.append(n)
    return bad
