"""TV: structural translation validation, Fortran reference unit vs C++ port (DESIGN.md 2.4).

Both sides are lowered to the neutral tree, normalised *symmetrically*, turned into
CFGs and compared by a bisimulation that discovers label and local-variable
correspondences.  Nothing is executed.
"""
import math
from fractions import Fraction

from . import cfg as cfgm
from . import ir

PI = Fraction(math.pi)
SYM_PI = ('var', '$pi')
SYM_EMASS = ('var', '$emass')
COMMUT = ('+', '*', 'and', 'or', 'max', 'min', '==', '!=')
NEG = {'<': '>=', '<=': '>', '>': '<=', '>=': '<', '==': '!=', '!=': '=='}
FLIP = {'<': '>', '<=': '>=', '>': '<', '>=': '<=', '==': '==', '!=': '!='}


def N(v):
    return ('num', Fraction(v))


# the port moved the body of the reference's `particle` into `randomize_particle` (decay0_particle forwards)
CALLEE_ALIAS = {'randomize_particle': 'particle', 'fermi_func_orig': 'fermi'}


# ------------------------------------------------------------------ expression normal form
def simp(e):
    """local algebraic canonicalisation (exact; no numeric evaluation beyond literal folding of +,-,* on integers)"""
    if not isinstance(e, tuple):
        return e
    k = e[0]
    if k == 'num':
        v = e[1]
        if v > 3 and abs(v - PI) < Fraction(1, 10 ** 6):
            return SYM_PI
        if v > 6 and abs(v - 2 * PI) < Fraction(2, 10 ** 6):
            return ('op', '*', N(2), SYM_PI)
        return ('num', v)
    if k != 'op':
        return e
    op = e[1]
    a = e[2:]
    if op == '?:' and len(a) == 3 and a[0][0] == 'num':
        return simp(a[1] if a[0][1] != 0 else a[2])
    if op == 'neg':
        x = a[0]
        if x[0] == 'num':
            return ('num', -x[1])
        if x[0] == 'op' and x[1] == '/':
            return simp(('op', '/', simp(('op', 'neg', x[2])), x[3]))
        if x[0] == 'op' and x[1] == 'neg':
            return x[2]
        return simp(('op', '*', N(-1), x))
    if op == 'not':
        x = a[0]
        if x[0] == 'num':
            return N(0 if x[1] != 0 else 1)
        if x[0] == 'op' and x[1] in NEG:
            return simp(('op', NEG[x[1]], x[2], x[3]))
        if x[0] == 'op' and x[1] == 'not':
            return x[2]
        if x[0] == 'op' and x[1] in ('and', 'or'):
            return simp(('op', 'or' if x[1] == 'and' else 'and') + tuple(simp(('op', 'not', y)) for y in x[2:]))
        return e
    if op == 'real':
        return a[0]
    if op == 'int' and a[0][0] == 'op' and a[0][1] in ('nint', 'int'):
        return a[0]
    if op == '-' and len(a) == 2:
        # a - c  ->  a + (-c) for literal c so that index arithmetic folds
        if a[1][0] == 'num':
            return simp(('op', '+', a[0], ('num', -a[1][1])))
        return e
    if op in ('+', '*', 'and', 'or'):
        flat = []
        for x in a:
            if x[0] == 'op' and x[1] == op:
                flat.extend(x[2:])
            else:
                flat.append(x)
        if op in ('and', 'or'):
            absorbing = 0 if op == 'and' else 1
            lits = [x for x in flat if x[0] == 'num']
            if any((x[1] != 0) == bool(absorbing) for x in lits):
                return N(absorbing)
            flat = [x for x in flat if x[0] != 'num']
            if not flat:
                return N(1 - absorbing)
            if len(flat) == 1:
                return flat[0]
        if op in ('+', '*'):
            nums = [x for x in flat if x[0] == 'num' and x[1].denominator == 1]
            rest = [x for x in flat if not (x[0] == 'num' and x[1].denominator == 1)]
            if op == '+' and len(nums) > 1 or (op == '+' and nums and sum(n[1] for n in nums) == 0):
                s = sum(n[1] for n in nums)
                flat = rest + ([('num', s)] if s != 0 else [])
            elif op == '*' and len(nums) > 1:
                p = Fraction(1)
                for n in nums:
                    p *= n[1]
                flat = rest + [('num', p)]
            if op == '*' and N(-1) in flat:
                # a sign factor merges into any literal factor: (-1)*2.5*x == -2.5*x
                lits = [x for x in flat if x[0] == 'num' and x != N(-1)]
                if lits:
                    flat.remove(N(-1))
                    flat.remove(lits[0])
                    flat.append(('num', -lits[0][1]))
            if op == '*' and N(1) in flat and len(flat) > 1:
                flat.remove(N(1))
            if not flat:
                return N(0 if op == '+' else 1)
            if len(flat) == 1:
                return flat[0]
        if op == '*':
            # collect integer powers of identical factors: x*x -> x**2, x**2*x**2 -> x**4
            powers = []
            for x in flat:
                base, ex = x, 1
                if x[0] == 'op' and x[1] == '**' and x[3][0] == 'num' and x[3][1].denominator == 1 and x[3][1] > 0:
                    base, ex = x[2], int(x[3][1])
                for i, (b0, e0) in enumerate(powers):
                    if b0 == base and base[0] != 'num' and ir.count_draws(base) == 0:
                        powers[i] = (b0, e0 + ex)
                        break
                else:
                    powers.append((base, ex))
            flat = [b0 if e0 == 1 else ('op', '**', b0, N(e0)) for b0, e0 in powers]
            if len(flat) == 1:
                return flat[0]
        flat.sort(key=repr)
        return ('op', op) + tuple(flat)
    if op in ('==', '!=', '<', '<=') and len(a) == 2 and a[0][0] == 'num' and a[1][0] == 'num':
        x, y = a[0][1], a[1][1]
        return N(1 if {'==': x == y, '!=': x != y, '<': x < y, '<=': x <= y}[op] else 0)
    if op in ('==', '!=') and len(a) == 2 and a[0][0] == 'str' and a[1][0] == 'str':
        return N(1 if (a[0][1].rstrip() == a[1][1].rstrip()) == (op == '==') else 0)
    if op in ('==', '!=') and len(a) == 2 and a[0] == a[1] and ir.count_draws(a[0]) == 0:
        return N(1 if op == '==' else 0)        # `x != x` is the port's NaN-poison test
    if op in ('max', 'min', '==', '!='):
        return ('op', op) + tuple(sorted(a, key=repr))
    if op in ('>', '>='):
        return ('op', FLIP[op], a[1], a[0])
    if op == '**' and a[1][0] == 'num' and a[1][1] == 1:
        return a[0]
    if op == '**' and a[0][0] == 'op' and a[0][1] == '*' and a[1][0] == 'num' and a[1][1].denominator == 1 \
            and a[1][1] > 0:
        return simp(('op', '*') + tuple(simp(('op', '**', x, a[1])) for x in a[0][2:]))
    if op == '**' and a[0][0] == 'op' and a[0][1] == '**' and a[1][0] == 'num' and a[0][3][0] == 'num' \
            and a[1][1].denominator == 1 and a[0][3][1].denominator == 1 and a[1][1] > 0 and a[0][3][1] > 0:
        return ('op', '**', a[0][2], N(a[1][1] * a[0][3][1]))
    return e


def canon(e):
    return ir.map_expr(simp, e)


class Side:
    """per-side rewriting of raw IR into the common vocabulary"""

    def __init__(self, lang, unit_name, params, arrays=(), common_vars=(), fresult=None, lower=None):
        self.lang = lang
        self.unit = unit_name
        self.params = params
        self.arrays = set(arrays)
        self.common = set(common_vars)
        self.fresult = fresult
        self.fld_vars = set()

    def var(self, name):
        n = name.lower()
        if self.lang == 'c' and name not in getattr(self, 'keep_underscore', ()):
            n = n.rstrip('_') or n
        if self.lang == 'f' and n in ('pi',) and n in self.common:
            return SYM_PI
        if self.lang == 'f' and n == 'emass' and n in self.common:
            return SYM_EMASS
        if self.fresult and n == self.fresult:
            return ('var', '$result')
        return ('var', n)

    def callee(self, name):
        if name.startswith('indirect:'):
            return '@' + name[9:].lower().rstrip('_')
        if self.lang == 'f' and name.lower() in [p.lower() for p in self.params]:
            return '@' + name.lower()
        n = name.lower().split('::')[-1] if self.lang == 'c' and not name.startswith(('event::', 'particle::')) \
            else name.lower()
        if n.startswith('decay0_'):
            n = n[7:]
        return CALLEE_ALIAS.get(n, n)

    def rw(self, e):
        def f(x):
            k = x[0]
            if k == 'num':
                return ('num', x[1])
            if k == 'var':
                return self.var(x[1])
            if k == 'fld':
                b = x[1]
                if b[0] == 'var' and b[1] not in ('this',) or (b[0] == 'op' and b[1] == 'deref'):
                    r = ('var', '.' + x[2].lower())
                    self.fld_vars.add(r[1])
                    return r
                return ('fld', b, x[2].lower())
            if k == 'idx':
                name = x[1].lower().rstrip('_') if self.lang == 'c' else x[1].lower()
                if name.startswith('.'):
                    self.fld_vars.add(name)
                idx = x[2:]
                if self.lang == 'c':
                    idx = tuple(canon(('op', '+', i, N(1))) for i in idx)
                return ('idx', name) + idx
            if k == 'call':
                name = self.callee(x[1])
                args = x[2:]
                if self.lang == 'c' and '::' not in name:
                    args = _drop_ctx(args)
                    if name == 'emass' and not args:
                        return SYM_EMASS
                    if name == 'is_trace':
                        return N(0)          # tracing is I/O only
                return ('call', name) + tuple(args)
            if k == 'op':
                if x[1] == 'int' and x[2][0] == 'num':
                    return x[2]
                if x[1] in ('log10',):
                    return x
            return x
        return canon(ir.map_expr(f, e))

    def rw_stmt(self, s):
        k = s[0]
        if k == 'assign':
            return ('assign', self.rw(s[1]), self.rw(s[2]), s[3])
        if k == 'call':
            name = self.callee(s[1])
            args = tuple(self.rw(a) for a in s[2])
            if self.lang == 'c' and '::' not in name:
                args = _drop_ctx(args)
            return ('call', name, args, s[3])
        if k == 'branch':
            return ('branch', self.rw(s[1]), s[2])
        if k == 'return':
            return ('return', self.rw(s[1]) if s[1] is not None else None, s[2])
        if k == 'eval':
            return ('eval', self.rw(s[1]), s[2])
        return s


def _drop_ctx(args):
    """drop the (prng, event) context arguments the port threads through every primitive, and the
    parameter-struct pointer that replaces the reference's COMMON blocks"""
    out = list(args)
    while out and out[0][0] == 'var' and out[0][1] in ('prng', 'event'):
        out.pop(0)
    out = [a for a in out if not (a == ('var', 'params') or a == ('var', 'pars') or (a[0] == 'op' and a[1] == 'addr'
           and a[2][0] == 'var' and a[2][1] in ('pars', 'params', 'bb_params')))]
    return tuple(out)


# ------------------------------------------------------------------ CFG normalisation
def uses_in(e, acc):
    for x in ir.subexprs(e):
        if x[0] == 'var':
            acc.add(x[1])
        elif x[0] == 'idx':
            acc.add(x[1])


def node_uses(n):
    acc = set()
    s = n.stmt
    if n.kind == 'assign':
        uses_in(s[2], acc)
        if s[1][0] != 'var':          # a[i] = ..: index expressions are uses; array is not "read"
            for x in s[1][2:]:
                if isinstance(x, tuple):
                    uses_in(x, acc)
    elif n.kind == 'call':
        for a in s[2]:
            uses_in(a, acc)
    elif n.kind in ('branch', 'eval'):
        uses_in(s[1], acc)
    elif n.kind == 'return' and s[1] is not None:
        uses_in(s[1], acc)
    return acc


def node_def(n):
    if n.kind == 'assign':
        l = n.stmt[1]
        if l[0] == 'var':
            return l[1]
        if l[0] == 'idx':
            return l[1]
    return None


def is_const_expr(e):
    for x in ir.subexprs(e):
        if x[0] in ('draw', 'call', 'idx', 'fld'):
            return False
        if x[0] == 'var' and not x[1].startswith('$'):
            return False
    return True


def subst(e, name, val):
    return canon(ir.map_expr(lambda x: val if x == ('var', name) else x, e))


def _stmt_exprs(n):
    """expressions read by the node (not the assignment target itself)"""
    s = n.stmt
    if n.kind == 'assign':
        out = [s[2]]
        if s[1][0] == 'idx':
            out += [x for x in s[1][2:] if isinstance(x, tuple)]
        return out
    if n.kind == 'call':
        return list(s[2])
    if n.kind in ('branch', 'eval'):
        return [s[1]]
    if n.kind == 'return' and s[1] is not None:
        return [s[1]]
    return []


def _rewrite_node(n, f):
    s = n.stmt
    if n.kind == 'assign':
        l = s[1]
        if l[0] == 'idx':
            l = ('idx', l[1]) + tuple(f(i) for i in l[2:])
        n.stmt = ('assign', l, f(s[2]), s[3])
    elif n.kind == 'call':
        n.stmt = ('call', s[1], tuple(f(a) for a in s[2]), s[3])
    elif n.kind in ('branch', 'eval'):
        n.stmt = (s[0], f(s[1]), s[2])
    elif n.kind == 'return' and s[1] is not None:
        n.stmt = ('return', f(s[1]), s[2])


import re as _re
PURE_CALL = _re.compile(r'(^|::)(get_\w+|is_\w+|has_\w+|empty|size|back|front|mass|fermi|cgamma|quiet_nan|dbd_mode_from_legacy_modebb|dbd_mode_description)$')


def _pure(e):
    return ir.count_draws(e) == 0 and not any(x[0] == 'call' and not PURE_CALL.search(x[1])
                                              for x in ir.subexprs(e))


EXTERNAL_MOD = {'gauss': set(), 'dgmlt1': {5}, 'dgmlt2': {5}, 'divdif': set(), 'cgamma': set(), 'ranlux': {0}}
MODINFO = {'f': {}, 'c': {}}     # lang -> callee name -> set of argument positions the callee may write
PUREOUT = {'f': {}, 'c': {}}     # lang -> callee name -> positions the callee assigns on every path before reading them


def _maywrite(lang, callee, pos):
    m = MODINFO.get(lang, {}).get(callee)
    if m is None:
        return True
    return pos in m


def _byref_vars(g, lang=None):
    """variables passed to calls at positions the callee may write"""
    passed = set()
    if lang is not None:
        def scan(name, args):
            for i, a in enumerate(args):
                if a[0] in ('var', 'idx') and _maywrite(lang, name, i):
                    passed.add(a[1])
        for n in g.nodes:
            for e in _stmt_exprs(n):
                for x in ir.subexprs(e):
                    if x[0] == 'call':
                        scan(x[1], x[2:])
            if n.kind == 'call':
                scan(n.stmt[1], n.stmt[2])
        return passed
    for n in g.nodes:
        for e in _stmt_exprs(n) if n.kind != 'call' else ():
            for x in ir.subexprs(e):
                if x[0] == 'call':
                    for a in x[2:]:
                        if a[0] == 'var':
                            passed.add(a[1])
                        if a[0] == 'idx':
                            passed.add(a[1])
        if n.kind == 'call':
            for a in n.stmt[2]:
                if a[0] == 'var':
                    passed.add(a[1])
                if a[0] == 'idx':
                    passed.add(a[1])
                for x in ir.subexprs(a):
                    if x[0] == 'call':
                        for b in x[2:]:
                            if b[0] == 'var':
                                passed.add(b[1])
    return passed


def liveness(g, outputs):
    """backward may-liveness of scalar variables; -> dict node id -> live-out set"""
    use, deff = {}, {}
    for n in g.nodes:
        use[n.id] = node_uses(n)
        d = node_def(n)
        deff[n.id] = {d} if (d is not None and n.kind == 'assign' and n.stmt[1][0] == 'var') else set()
    live_in = {n.id: set() for n in g.nodes}
    live_out = {n.id: set() for n in g.nodes}
    changed = True
    order = list(reversed(g.rpo()))
    while changed:
        changed = False
        for i in order:
            n = g.nodes[i]
            out = set(outputs) if not n.succ else set()
            for s in n.succ:
                out |= live_in[s]
            inn = use[i] | (out - deff[i])
            if out != live_out[i] or inn != live_in[i]:
                live_out[i], live_in[i] = out, inn
                changed = True
    return live_out


def sort_exclusive_guards(g):
    """a run of diamonds  if (v == k1) S1; if (v == k2) S2; ...  with distinct literals k_i on one variable v that no
    S_i writes fires at most one S_i: the order of the diamonds is immaterial; sort them by literal"""
    g = cfgm.compact(g, drop=('nop', 'io'))
    preds = g.preds()

    def diamond(b):
        """branch b: true arm is a straight chain of assign/call nodes re-joining the false arm target"""
        if b.kind != 'branch':
            return None
        c = b.stmt[1]
        if not (c[0] == 'op' and c[1] == '==' and len(c) == 4 and c[2][0] == 'num' and c[3][0] == 'var'):
            return None
        join = b.succ[1]
        body = []
        i = b.succ[0]
        while i != join:
            n = g.nodes[i]
            if n.kind not in ('assign', 'call') or len(n.succ) != 1 or len(preds[i]) != 1 or len(body) > 6:
                return None
            body.append(n)
            i = n.succ[0]
        if not body:
            return None
        return (c[3][1], c[2][1], body, join)
    seen = set()
    for b in g.nodes:
        if b.id in seen or b.kind != 'branch':
            continue
        chain = []
        x = b
        while True:
            d = diamond(x)
            if d is None or (chain and (d[0] != chain[0][1][0] or len(preds[x.id]) != 1 + len(chain[-1][1][2][-1:]))):
                break
            chain.append((x, d))
            seen.add(x.id)
            x = g.nodes[d[3]]
            if x.kind != 'branch':
                break
        if len(chain) < 2:
            continue
        v = chain[0][1][0]
        lits = [d[1] for _, d in chain]
        if len(set(lits)) != len(lits):
            continue
        if any(node_def(s) == v for _, d in chain for s in d[2]):
            continue
        # every interior branch must be entered only from the previous diamond (its branch and its body end)
        ok = True
        for k in range(1, len(chain)):
            bk = chain[k][0]
            want = {chain[k - 1][0].id, chain[k - 1][1][2][-1].id}
            if set(preds[bk.id]) != want:
                ok = False
        if not ok:
            continue
        order = sorted(range(len(chain)), key=lambda k: lits[k])
        if order == list(range(len(chain))):
            continue
        # permute the payloads (condition + body) over the fixed skeleton of branch nodes
        payload = [(chain[k][0].stmt, chain[k][0].line, [(s.kind, s.stmt, s.line) for s in chain[k][1][2]])
                   for k in order]
        exit_join = chain[-1][1][3]
        heads = [chain[k][0] for k in range(len(chain))]
        # rebuild: head_k -> new body nodes -> next head / exit
        for k, (stmt, line, body) in enumerate(payload):
            h = heads[k]
            h.stmt, h.line = stmt, line
            nxt = heads[k + 1].id if k + 1 < len(heads) else exit_join
            prev = None
            first = None
            for kind, st, ln in body:
                nn = g.new(kind, st, ln)
                if prev is not None:
                    prev.succ = [nn.id]
                else:
                    first = nn
                prev = nn
            prev.succ = [nxt]
            h.succ = [first.id, nxt]
    return cfgm.compact(g, drop=('nop', 'io'))


def sort_dispatch_chains(g):
    """if (v == k1) goto T1; else if (v == k2) goto T2; ... else E  with distinct literals on one variable: exactly one arm is taken
    whatever the order of the tests (pure, mutually exclusive); sort the (literal, target) pairs over the fixed skeleton of
    branch nodes.  Interior branches must be entered only from the previous test."""
    preds = g.preds()
    seen = set()
    for b in g.nodes:
        if b.id in seen or b.kind != 'branch':
            continue
        e = _eq_lit(b.stmt[1])
        if e is None or b.succ[0] == b.succ[1]:
            continue
        # walk back to the head of the chain
        chain = [b]
        x = b
        while True:
            nx = g.nodes[x.succ[1]]
            e2 = _eq_lit(nx.stmt[1]) if nx.kind == 'branch' else None
            if e2 is None or e2[0] != e[0] or preds[nx.id] != [x.id] or nx.succ[0] == nx.succ[1] or nx.id in seen or nx in chain:
                break
            chain.append(nx)
            x = nx
        for c in chain:
            seen.add(c.id)
        if len(chain) < 2:
            continue
        lits = [_eq_lit(c.stmt[1])[1] for c in chain]
        if len(set(lits)) != len(lits):
            continue
        # final else that leaves the unit within a few straight-line statements: leave the chain alone
        x, steps, leaves = g.nodes[chain[-1].succ[1]], 0, False
        while steps < 6:
            if x.kind in ('throw', 'return'):
                leaves = True
                break
            if x.kind in ('assign', 'call', 'eval') and len(x.succ) == 1:
                x = g.nodes[x.succ[0]]
                steps += 1
                continue
            break
        if leaves:
            continue
        order = sorted(range(len(chain)), key=lambda k: lits[k])
        if order == list(range(len(chain))):
            continue
        payload = [(chain[k].stmt, chain[k].line, chain[k].succ[0]) for k in order]
        for c, (st, ln, tgt) in zip(chain, payload):
            c.stmt, c.line = st, ln
            c.succ = [tgt, c.succ[1]]
    return g


def drop_defensive_throws(g, record):
    """port-only argument checks of the form `if (cond) throw ...` (one arm of the branch reaches a throw
    without doing anything else): the branch is removed and the site recorded as an admissible difference"""
    g = cfgm.compact(g, drop=('nop', 'io'))
    for n in g.nodes:
        if n.kind == 'branch' and _pure(n.stmt[1]):
            for arm in (0, 1):
                t = g.nodes[n.succ[arm]]
                if t.kind == 'throw':
                    record.append(('defensive-throw', n.line, desc(n)))
                    n.kind = 'nop'
                    n.succ = [n.succ[1 - arm]]
                    break
    return cfgm.compact(g, drop=('nop', 'io'))


def split_webs(g, outputs, lang, record=None, inputs=()):
    """rename every scalar local into its def-use webs (v -> v~k): two unrelated reuses of one name become two
    variables, so that the normal form does not depend on how a language scopes or recycles its temporaries.
    Reference side: a use reached only by 'no definition' of a local reads 0 (static storage) - recorded."""
    defs_of, uses_of, weak = {}, {}, {}
    for n in g.nodes:
        d = set()
        w = set()
        if n.kind == 'assign' and n.stmt[1][0] == 'var':
            d.add(n.stmt[1][1])
        calls = []
        for e in _stmt_exprs(n):
            for x in ir.subexprs(e):
                if x[0] == 'call':
                    calls.append((x[1], x[2:]))
        if n.kind == 'call':
            calls.append((n.stmt[1], n.stmt[2]))
        for name, args in calls:
            for i, a in enumerate(args):
                if a[0] == 'var' and _maywrite(lang, name, i):
                    w.add(a[1])
        defs_of[n.id] = d
        weak[n.id] = w
        uses_of[n.id] = set(node_uses(n))
    allvars = set()
    for n in g.nodes:
        allvars |= defs_of[n.id] | weak[n.id] | uses_of[n.id]
    allvars = {v for v in allvars if not v.startswith('$') and not v.startswith('@')}
    ENTRY = -1
    IN = {n.id: set() for n in g.nodes}
    OUT = {n.id: set() for n in g.nodes}
    preds = g.preds()
    order = g.rpo()
    init = {(v, ENTRY) for v in allvars}
    changed = True
    while changed:
        changed = False
        for i in order:
            n = g.nodes[i]
            inn = set(init) if n is g.entry else set()
            for p in preds[i]:
                inn |= OUT[p]
            out = {(v, d) for (v, d) in inn if v not in defs_of[i]}
            out |= {(v, i) for v in defs_of[i]} | {(v, i) for v in weak[i]}
            if inn != IN[i] or out != OUT[i]:
                IN[i], OUT[i] = inn, out
                changed = True
    parent = {}

    def find(x):
        while parent.setdefault(x, x) != x:
            parent[x] = parent[parent[x]]
            x = parent[x]
        return x

    def union(a, b):
        parent[find(a)] = find(b)
    for i in order:
        for v in (uses_of[i] | weak[i]) & allvars:
            ds = [(v, d) for (vv, d) in IN[i] if vv == v]
            for a in ds[1:]:
                union(ds[0], a)
            if v in weak[i]:
                for a in ds:
                    union(a, (v, i))
    for n in g.nodes:
        if not n.succ:
            for (v, d) in OUT[n.id]:
                if v in outputs:
                    union((v, d), (v, ENTRY))
    names = {}
    count = {}
    for i in order:
        for v in defs_of[i] | weak[i]:
            if v not in allvars:
                continue
            r = find((v, i))
            if r == find((v, ENTRY)) or v in outputs:
                names[(v, i)] = v
            else:
                if r not in names:
                    count[v] = count.get(v, 0) + 1
                    names[r] = '%s~%d' % (v, count[v])
                names[(v, i)] = names[r]
    zero_uses = []

    def use_name(i, v):
        ds = [d for (vv, d) in IN[i] if vv == v]
        if lang == 'f' and record is not None and ds == [ENTRY] and v not in outputs and v not in inputs \
                and v not in weak[i]:
            zero_uses.append((v, g.nodes[i].line))
            return None
        for d in ds:
            if d == ENTRY:
                continue
            return names.get((v, d), v)
        return v
    for i in order:
        n = g.nodes[i]
        if n.stmt is None or n.kind not in ('assign', 'call', 'branch', 'eval', 'return'):
            continue
        ren = {v: use_name(i, v) for v in (uses_of[i] | weak[i]) & allvars}
        ren = {k: v for k, v in ren.items() if k != v}

        def f(e, ren=ren):
            if not ren:
                return e
            return canon(ir.map_expr(lambda x: (('var', ren[x[1]]) if ren[x[1]] is not None else ('num', Fraction(0)))
                                     if x[0] == 'var' and x[1] in ren else x, e))
        s = n.stmt
        if n.kind == 'assign':
            l = s[1]
            if l[0] == 'var':
                l = ('var', names.get((l[1], i), l[1]))
            else:
                l = ('idx', l[1]) + tuple(f(x) for x in l[2:])
            n.stmt = ('assign', l, f(s[2]), s[3])
        elif n.kind == 'call':
            args = []
            for k, a in enumerate(s[2]):
                if a[0] == 'var' and a[1] in weak[i] and _maywrite(lang, s[1], k):
                    args.append(('var', names.get((a[1], i), a[1])))
                else:
                    args.append(f(a))
            n.stmt = ('call', s[1], tuple(args), s[3])
        elif n.kind in ('branch', 'eval'):
            n.stmt = (s[0], f(s[1]), s[2])
        elif n.kind == 'return' and s[1] is not None:
            n.stmt = ('return', f(s[1]), s[2])
    if record is not None:
        for v, line in sorted(set(zero_uses)):
            record.append(('reference-reads-unassigned-local', line, v))
    return g


def uninit_zero_stores(g, outputs, lang='c'):
    """port side: stores `v = 0` to a non-shared variable that no real definition reaches (only 'no definition'
    or other such zero stores): they replace an indeterminate value, like a zero-initialising declaration"""
    ENTRY = -1
    defs = {}
    for n in g.nodes:
        if n.kind == 'assign' and n.stmt[1][0] == 'var':
            defs[n.id] = n.stmt[1][1]
    cand = {n.id for n in g.nodes if n.id in defs and n.stmt[2] == ('num', Fraction(0))
            and defs[n.id] not in outputs}
    weak = {}
    for n in g.nodes:
        w = set()
        calls = []
        for e in _stmt_exprs(n):
            for x in ir.subexprs(e):
                if x[0] == 'call':
                    calls.append((x[1], x[2:]))
        if n.kind == 'call':
            calls.append((n.stmt[1], n.stmt[2]))
        for name, args in calls:
            for i, a in enumerate(args):
                if a[0] == 'var' and _maywrite(lang, name, i):
                    w.add(a[1])
        weak[n.id] = w
    IN = {n.id: set() for n in g.nodes}
    OUT = {n.id: set() for n in g.nodes}
    preds = g.preds()
    order = g.rpo()
    vars_ = set(defs.values())
    changed = True
    while changed:
        changed = False
        for i in order:
            inn = {(v, ENTRY) for v in vars_} if g.nodes[i] is g.entry else set()
            for p in preds[i]:
                inn |= OUT[p]
            out = set(inn)
            if i in defs:
                out = {(v, d) for (v, d) in out if v != defs[i]} | {(defs[i], i)}
            out |= {(v, i) for v in weak[i] if v in vars_}
            if inn != IN[i] or out != OUT[i]:
                IN[i], OUT[i] = inn, out
                changed = True
    ok = set(cand)
    again = True
    while again:
        again = False
        for i in list(ok):
            v = defs[i]
            for (vv, d) in IN[i]:
                if vv == v and d != ENTRY and d not in ok:
                    ok.discard(i)
                    again = True
                    break
    return {(defs[i], g.nodes[i].line) for i in ok}


def unassigned_locals_to_zero(g, outputs, record):
    """reference side only: a local that is never assigned anywhere in the unit and never passed to a callee
    that may write it is read as 0 (static storage); recorded as an admissible difference"""
    defs = set()
    for n in g.nodes:
        d = node_def(n)
        if d is not None:
            defs.add(d)
    passed = _byref_vars(g, 'f')
    used = set()
    for n in g.nodes:
        for e in _stmt_exprs(n):
            for x in ir.subexprs(e):
                if x[0] == 'var':
                    used.add(x[1])
    zero = {v for v in used if v not in defs and v not in passed and v not in outputs and not v.startswith('$')
            and not v.startswith('@')}
    if zero:
        for n in g.nodes:
            if n.stmt is not None and n.kind in ('assign', 'call', 'branch', 'eval', 'return'):
                _rewrite_node(n, lambda e: canon(ir.map_expr(
                    lambda x: ('num', Fraction(0)) if x[0] == 'var' and x[1] in zero else x, e)))
        for v in sorted(zero):
            record.append(('reference-reads-unassigned-local', 0, v))
    return g


def _never_killed(g, d, val, defs, passed):
    after = g.reachable(d.succ[0])
    for x in ir.subexprs(val):
        if x[0] == 'var' and not x[1].startswith('$'):
            if x[1] in passed:
                return False
            for dn in defs.get(x[1], ()):
                if dn.id in after:
                    return False
    return True


def assigned_before_read(g, var):
    """on every path from the entry, `var` is assigned (plain assignment) before any statement reads it or passes it on"""
    order = g.rpo()
    preds = g.preds()
    IN = {i: None for i in order}
    IN[g.entry.id] = False
    OUT = {}
    changed = True
    while changed:
        changed = False
        for i in order:
            n = g.nodes[i]
            if i != g.entry.id:
                ps = [OUT[p] for p in preds[i] if p in OUT]
                if not ps:
                    continue
                inn = all(ps)
            else:
                inn = False
            d = node_def(n)
            out = inn or (d == var and n.kind == 'assign' and n.stmt[1] == ('var', var))
            if IN[i] != inn or OUT.get(i) != out:
                IN[i], OUT[i] = inn, out
                changed = True
    for i in order:
        n = g.nodes[i]
        if IN[i] is None or IN[i]:
            continue
        uses = set(node_uses(n))
        if n.kind == 'call':
            for a in n.stmt[2]:
                uses |= ir.vars_of(a)
        if n.kind == 'assign' and n.stmt[1] == ('var', var):
            uses = ir.vars_of(n.stmt[2])
        if var in uses:
            return False
    return True


def _cond_key(c):
    """(key, polarity): `a != b` is the negation of `a == b`, `not x` of x"""
    if c[0] == 'op' and c[1] == '!=' and len(c) == 4:
        return ('op', '==') + c[2:], False
    if c[0] == 'op' and c[1] == 'not' and len(c) == 3:
        k, p = _cond_key(c[2])
        return k, not p
    return c, True


def _thread_correlated_branches(g, outputs, lang):
    """A branch re-tests a condition over variables that nothing in the unit can write (not assigned, not passed to a callee that
    may write them, not an output/COMMON): on an incoming edge along which the outcome of that very condition is already
    known on every path, the edge is redirected to the known successor (correlated-branch elimination).  Must-facts by forward
    dataflow over edges; returns True when an edge was redirected."""
    # like the constant/copy propagation of (c), callee effects are those declared in MODINFO: a variable is writable here only when
    # a statement of the unit defines it or passes it at a position the callee may write
    written = set()
    for n in g.nodes:
        d = node_def(n)
        if d is not None:
            written.add(d)
    written |= _byref_vars(g, lang)
    cand = {}
    for n in g.nodes:
        if n.kind == 'branch' and n.succ[0] != n.succ[1] and _pure(n.stmt[1]) and not (ir.vars_of(n.stmt[1]) & written) \
                and ir.vars_of(n.stmt[1]):
            cand[n.id] = _cond_key(n.stmt[1])
    if not cand:
        return False
    keys = {k for k, p in cand.values()}
    if len([1 for b in cand if True]) < 2 and len(keys) == len(cand):
        return False
    TOP = None
    preds = g.preds()
    order = g.rpo()
    IN = {i: TOP for i in order}
    IN[g.entry.id] = frozenset()

    def edge_out(i, slot):
        base = IN[i]
        if base is TOP:
            return TOP
        if i in cand:
            k, pol = cand[i]
            truth = (slot == 0) == pol
            return base | {(k, truth)}
        return base
    changed = True
    while changed:
        changed = False
        for i in order:
            if i == g.entry.id:
                continue
            acc = TOP
            for p in preds[i]:
                if p not in IN:
                    continue
                for slot, s_ in enumerate(g.nodes[p].succ):
                    if s_ == i:
                        o = edge_out(p, slot)
                        if o is TOP:
                            continue
                        acc = o if acc is TOP else (acc & o)
            if acc is not TOP and acc != IN[i]:
                IN[i] = acc
                changed = True
    did = False
    for b, (k, pol) in cand.items():
        for p in preds[b]:
            if p not in IN:
                continue
            pn = g.nodes[p]
            for slot, s_ in enumerate(pn.succ):
                if s_ != b:
                    continue
                o = edge_out(p, slot)
                if o is TOP:
                    continue
                known = None
                if (k, True) in o:
                    known = True
                elif (k, False) in o:
                    known = False
                else:
                    e2 = _eq_lit(k)
                    if e2 is not None:
                        for (k1, t1) in o:
                            e1 = _eq_lit(k1)
                            if t1 and e1 is not None and e1[0] == e2[0] and e1[1] != e2[1]:
                                known = False      # v == k1 holds, so v == k2 does not
                                break
                if known is not None and p != b:
                    tgt = g.nodes[b].succ[0 if known == pol else 1]
                    if pn.succ[slot] != tgt:
                        pn.succ[slot] = tgt
                        did = True
    return did


def _eq_lit(c):
    """(variable, literal) of a pure test `v == k` / `k == v`"""
    if c[0] == 'op' and c[1] == '==' and len(c) == 4:
        a, b = c[2], c[3]
        if a[0] == 'num' and b[0] == 'var':
            return (b[1], a[1])
        if b[0] == 'num' and a[0] == 'var':
            return (a[1], b[1])
    return None


def normalise_cfg(g, outputs, notes, keep_vars=(), lang=None):
    """returns a new compacted CFG after (a) dropping io/nop, (b) dropping branches whose arms coincide,
       (c) propagating single dominating constant / copy assignments, (d) removing dead stores (liveness)."""
    for it in range(400):
        changed = False
        g = cfgm.compact(g, drop=('nop', 'io'))
        # (b) degenerate branches
        for n in g.nodes:
            if n.kind == 'branch' and n.succ[0] != n.succ[1] and _pure(n.stmt[1]):
                a, b2 = g.nodes[n.succ[0]], g.nodes[n.succ[1]]
                if a.kind == 'return' and b2.kind == 'return' and a.stmt[1] == b2.stmt[1]:
                    n.succ = [n.succ[0], n.succ[0]]      # both arms are the same plain return
            if n.kind == 'branch' and n.succ[0] == n.succ[1] and _pure(n.stmt[1]):
                n.kind = 'nop'
                n.succ = [n.succ[0]]
                changed = True
            if n.kind == 'branch' and n.stmt[1][0] == 'op' and n.stmt[1][1] == '!=' and len(n.stmt[1]) == 4:
                t = g.nodes[n.succ[0]]
                if t.kind == 'assign' and t.succ == [n.succ[1]] and {t.stmt[1], t.stmt[2]} == set(n.stmt[1][2:]):
                    n.kind = 'nop'          # if (x != y) x = y  ==  x = y
                    n.succ = [t.id]
                    changed = True
            if n.kind == 'branch' and n.stmt[1][0] == 'num':
                n.kind = 'nop'
                n.succ = [n.succ[0] if n.stmt[1][1] != 0 else n.succ[1]]
                changed = True
            if n.kind == 'branch' and n.stmt[1][0] == 'op' and n.stmt[1][1] == '?:' and len(n.stmt[1]) == 5 and _pure(n.stmt[1]):
                # if (c ? a : b)  ==  if (c) { if (a) ... } else { if (b) ... }
                c_, a_, b_ = n.stmt[1][2:]
                na = g.new('branch', ('branch', a_) + tuple(n.stmt[2:]), n.line)
                nb_ = g.new('branch', ('branch', b_) + tuple(n.stmt[2:]), n.line)
                na.succ = list(n.succ)
                nb_.succ = list(n.succ)
                n.stmt = ('branch', c_) + tuple(n.stmt[2:])
                n.succ = [na.id, nb_.id]
                changed = True
            if n.kind == 'branch' and n.succ[0] != n.succ[1]:
                # if (v == k1) goto X; if (v == k2) goto Y; goto X   ==   if (v == k2) goto Y; goto X   (k1 != k2)
                e1 = _eq_lit(n.stmt[1])
                m = g.nodes[n.succ[1]]
                if e1 is not None and m.kind == 'branch' and m.id != n.id and m.succ[1] == n.succ[0] and m.succ[0] != m.succ[1]:
                    e2 = _eq_lit(m.stmt[1])
                    if e2 is not None and e1[0] == e2[0] and e1[1] != e2[1]:
                        n.kind = 'nop'
                        n.succ = [m.id]
                        changed = True
        if not changed:
            # jump threading: b := e; if (b) ...  ==  b := e; if (e) ...   (e pure; the assignment is the branch's direct predecessor)
            preds_ = g.preds()
            for n in list(g.nodes):
                if n.kind != 'branch':
                    continue
                c = n.stmt[1]
                neg = False
                if c[0] == 'op' and c[1] == 'not' and len(c) == 3 and c[2][0] == 'var':
                    c, neg = c[2], True
                if c[0] != 'var':
                    continue
                for pi in preds_[n.id]:
                    pn = g.nodes[pi]
                    if pn.kind == 'assign' and pn.stmt[1] == c and pn.succ == [n.id] and _pure(pn.stmt[2]) and \
                            pn.stmt[2][0] == 'op' and pn.stmt[2][1] in ('<', '<=', '>', '>=', '==', '!=', 'and', 'or', 'not') and \
                            c not in set(ir.subexprs(pn.stmt[2])):
                        cond = pn.stmt[2] if not neg else ('op', 'not', pn.stmt[2])
                        nb = g.new('branch', ('branch', cond, n.stmt[2] if len(n.stmt) > 2 else n.line), n.line)
                        nb.succ = list(n.succ)
                        pn.succ = [nb.id]
                        changed = True
        if not changed and _thread_correlated_branches(g, outputs, lang):
            changed = True
        if changed:
            continue
        # (c) constants and copies
        defs = {}
        for n in g.nodes:
            d = node_def(n)
            if d is not None:
                defs.setdefault(d, []).append(n)
        passed = _byref_vars(g, lang)
        dom = None
        for v, ds in defs.items():
            if len(ds) != 1 or v in passed or v in keep_vars or v.startswith('$'):
                continue
            d = ds[0]
            if d.stmt[1][0] != 'var':
                continue
            val = d.stmt[2]
            if is_const_expr(val):
                pass
            elif _pure(val) and not any(x[0] in ('idx', 'fld') for x in ir.subexprs(val)) and all(
                    (x[1] not in defs and x[1] not in passed) or x[1].startswith('$')
                    for x in ir.subexprs(val) if x[0] == 'var'):
                pass                    # pure expression over never-written variables (parameters)
            elif _pure(val) and not any(x[0] in ('idx', 'fld') for x in ir.subexprs(val)) and v not in outputs \
                    and len(d.succ) == 1 and _never_killed(g, d, val, defs, passed):
                pass                    # pure expression none of whose operands can be redefined after this point
            else:
                continue
            if v in outputs and not is_const_expr(val):
                pass
            if dom is None:
                dom = g.dominators()
            users = [n for n in g.nodes if v in node_uses(n)]
            if not users and v in outputs:
                continue
            if all(d.id in dom.get(u.id, ()) and u.id != d.id for u in users):
                for u in users:
                    _rewrite_node(u, lambda e: subst(e, v, val))
                if v not in outputs:
                    d.kind = 'nop'
                    changed = True
                elif users:
                    changed = True
                dom = None
                if changed:
                    break
        if changed:
            continue
        # (c') a temporary defined once and used only by the immediately following statement
        preds = g.preds()
        for v, ds in defs.items():
            if len(ds) != 1 or v in passed or v in outputs or v.startswith('$'):
                continue
            d = ds[0]
            if d.stmt[1][0] != 'var' or len(d.succ) != 1:
                continue
            u = g.nodes[d.succ[0]]
            if len(preds[u.id]) != 1 or u.kind not in ('assign', 'branch', 'call', 'return'):
                continue
            users = [n for n in g.nodes if v in node_uses(n)]
            if users != [u] or node_def(u) == v:
                continue
            val = d.stmt[2]
            if not _pure(val):
                # impure (a deviate): only into a statement that has no other deviate or call, used once
                occ = sum(1 for e in _stmt_exprs(u) for x in ir.subexprs(e) if x == ('var', v))
                if occ != 1 or any(not _pure(e) for e in _stmt_exprs(u)) or any(
                        x[0] == 'call' for x in ir.subexprs(val)):
                    continue
                if u.kind == 'call':
                    continue
            _rewrite_node(u, lambda e: subst(e, v, val))
            d.kind = 'nop'
            changed = True
            preds = g.preds()
        if changed:
            continue
        # (d) dead stores
        lo = liveness(g, outputs)
        for n in g.nodes:
            if n.kind == 'assign' and n.stmt[1][0] == 'var' and n.stmt[1][1] not in lo[n.id] \
                    and n.stmt[1][1] not in outputs and _pure(n.stmt[2]):
                n.kind = 'nop'
                changed = True
        # arrays never read and not outputs
        used = set()
        for n in g.nodes:
            used |= node_uses(n)
        for n in g.nodes:
            if n.kind == 'assign' and n.stmt[1][0] == 'idx' and n.stmt[1][1] not in used \
                    and n.stmt[1][1] not in outputs and _pure(n.stmt[2]):
                n.kind = 'nop'
                changed = True
        if not changed:
            break
    # dispatch chains whose final else leaves the unit (wrong-level exit: `return` in the reference, `throw` in the port) are not
    # sorted: the defensive-throw treatment assumes the *last* test of such a chain holds, which is order dependent (DESIGN.md 10.4)
    return sort_dispatch_chains(sort_exclusive_guards(cfgm.compact(g, drop=('nop', 'io'))))


# ------------------------------------------------------------------ event-record idioms (normal-form rule 4)
HANDLE = ('var', '$handle')
NOHANDLE = ('var', '$nohandle')


def _is_handle_capture(e, lang):
    if lang == 'f':
        return e == ('var', 'npfull')
    if e[0] == 'op' and e[1] == 'addr' and e[2][0] == 'call' and e[2][1] == 'event::grab_last_particle':
        return True
    if e[0] == 'op' and e[1] == '+' and len(e) == 4:
        a, b = e[2], e[3]
        if b[0] == 'call':
            a, b = b, a
        if a[0] == 'call' and a[1] == 'size' and len(a) == 3 and a[2][0] == 'call' \
                and a[2][1] == 'event::get_particles' and b == ('num', Fraction(-1)):
            return True
    return False


def _particle_of(x, handles):
    """the handle variable a particle expression denotes, or None"""
    if x[0] == 'var' and x[1] in handles:
        return x
    if x[0] == 'op' and x[1] == 'deref' and x[2][0] == 'var' and x[2][1] in handles:
        return x[2]
    if x[0] == 'op' and x[1] == '[]' and x[2][0] == 'call' and x[2][1] == 'event::grab_particles' \
            and x[3][0] == 'var' and x[3][1] in handles:
        return x[3]
    return None


def event_idioms(g, lang):
    """rewrite the 'remember a particle, later fix its direction' idiom of both languages to one form:
       v = $handle / v = $nohandle / isset(v) / pmag(v) / call setmom(v, px, py, pz)"""
    handles = set()
    for n in g.nodes:
        if n.kind == 'assign' and n.stmt[1][0] == 'var' and _is_handle_capture(n.stmt[2], lang):
            handles.add(n.stmt[1][1])
    if not handles:
        return g, handles
    grew = True
    while grew:
        grew = False
        for n in g.nodes:
            if n.kind == 'assign' and n.stmt[1][0] == 'var' and n.stmt[2][0] == 'var' \
                    and n.stmt[2][1] in handles and n.stmt[1][1] not in handles:
                handles.add(n.stmt[1][1])
                grew = True

    def rw(e):
        def f(x):
            if x[0] == 'op' and x[1] in ('!=', '<=', '<') and len(x) == 4:
                a, b = x[2], x[3]
                if a[0] == 'num' and b[0] == 'var' and b[1] in handles:
                    if (x[1] == '!=' and a[1] == 0) or (x[1] == '<=' and a[1] == 0 and lang == 'c') \
                            or (x[1] == '<' and a[1] == 0 and lang == 'f') or (x[1] == '<' and a[1] == -1):
                        return ('op', 'isset', b)
            if lang == 'f' and x[0] == 'op' and x[1] == 'sqrt' and x[2][0] == 'op' and x[2][1] == '+' \
                    and len(x[2]) == 5:
                hs = set()
                ks = set()
                for t in x[2][2:]:
                    if t[0] == 'op' and t[1] == '**' and t[3] == ('num', Fraction(2)) and t[2][0] == 'idx' \
                            and t[2][1] == 'pmoment' and len(t[2]) == 4 and t[2][2][0] == 'num':
                        ks.add(t[2][2][1])
                        hs.add(t[2][3])
                if ks == {1, 2, 3} and len(hs) == 1 and list(hs)[0][0] == 'var' and list(hs)[0][1] in handles:
                    return ('op', 'pmag', list(hs)[0])
            if lang == 'c' and x[0] == 'call' and x[1] == 'particle::get_p' and len(x) == 3:
                h = _particle_of(x[2], handles)
                if h is not None:
                    return ('op', 'pmag', h)
            return x
        return ir.map_expr(f, e)

    for n in g.nodes:
        if n.kind == 'assign' and n.stmt[1][0] == 'var' and n.stmt[1][1] in handles:
            r = n.stmt[2]
            if _is_handle_capture(r, lang):
                n.stmt = ('assign', n.stmt[1], HANDLE, n.stmt[3])
                continue
            if r == ('num', Fraction(0)) or (lang == 'c' and r == ('num', Fraction(-1))):
                n.stmt = ('assign', n.stmt[1], NOHANDLE, n.stmt[3])
                continue
        if n.stmt is not None and n.kind in ('assign', 'call', 'branch', 'eval', 'return'):
            _rewrite_node(n, rw)
    # momentum write-back: three component stores -> one setmom node
    preds = g.preds()
    for n in g.nodes:
        trip = [n]
        x = n
        while len(trip) < 3 and len(x.succ) == 1 and len(preds[x.succ[0]]) == 1:
            x = g.nodes[x.succ[0]]
            trip.append(x)
        if len(trip) != 3:
            continue
        comps = []
        hs = set()
        for k, t in enumerate(trip, 1):
            if lang == 'f' and t.kind == 'assign' and t.stmt[1][0] == 'idx' and t.stmt[1][1] == 'pmoment' \
                    and len(t.stmt[1]) == 4 and t.stmt[1][2] == ('num', Fraction(k)) and t.stmt[1][3][0] == 'var' \
                    and t.stmt[1][3][1] in handles:
                comps.append(t.stmt[2])
                hs.add(t.stmt[1][3])
            elif lang == 'c' and t.kind == 'call' and t.stmt[1] == 'particle::set_p' + 'xyz'[k - 1] \
                    and len(t.stmt[2]) == 2 and _particle_of(t.stmt[2][0], handles) is not None:
                comps.append(t.stmt[2][1])
                hs.add(_particle_of(t.stmt[2][0], handles))
        if len(comps) == 3 and len(hs) == 1:
            h = list(hs)[0]
            trip[0].kind = 'call'
            trip[0].stmt = ('call', 'setmom', (h,) + tuple(comps), trip[0].line)
            trip[0].succ = list(trip[2].succ)
            trip[1].kind = trip[2].kind = 'nop'
    for n in g.nodes:
        if lang == 'c' and n.kind == 'call' and n.stmt[1] == 'particle::set_momentum' and len(n.stmt[2]) == 4:
            h = _particle_of(n.stmt[2][0], handles)
            if h is not None:
                n.stmt = ('call', 'setmom', (h,) + tuple(n.stmt[2][1:]), n.stmt[3])
    return g, handles


# ------------------------------------------------------------------ bisimulation
class Mismatch:
    def __init__(self, kind, fnode, cnode, msg):
        self.kind = kind
        self.f = fnode
        self.c = cnode
        self.msg = msg

    fline = cline = None

    def lines(self):
        return (self.f.line if self.f else self.fline, self.c.line if self.c else self.cline)


class Bisim:
    def __init__(self, gf, gc, fparams, cparams):
        self.gf, self.gc = gf, gc
        self.f2c, self.c2f = {}, {}
        for a, b in zip(fparams, cparams):
            self.bind(a, b)
        self.mism = []
        self.pairs = set()
        self.nodes_compared = 0
        self.admissible_zero_init = set()
        self.admissible_used = []
        self.fout = self.cout = ()
        self.admissible_mirror = set()
        self.admissible_port_calls = set()
        self.suffix_summaries = 0
        self.seed_names()

    def seed_names(self):
        """like-named variables are tried first (x ~ x, x ~ .x); only a search heuristic: every pairing the
        comparison relies on is still checked for consistency"""
        def names(g):
            out = set()
            for n in g.nodes:
                out |= node_uses(n)
                d = node_def(n)
                if d:
                    out.add(d)
            return out
        fn, cn = names(self.gf), names(self.gc)
        for v in sorted(fn):
            if v in self.f2c or '~' in v:
                continue
            for cand in (v, '.' + v):
                if cand in cn and cand not in self.c2f:
                    self.bind(v, cand)
                    break

    def bind(self, fv, cv):
        if fv.startswith('$') or cv.startswith('$'):
            return fv == cv
        if fv in self.f2c:
            return self.f2c[fv] == cv
        if cv in self.c2f:
            return self.c2f[cv] == fv
        self.f2c[fv] = cv
        self.c2f[cv] = fv
        return True

    def eq(self, a, b):
        """structural equality of expressions up to the variable bijection; binds tentatively"""
        if a is None or b is None:
            return a is None and b is None
        if a[0] != b[0]:
            return False
        k = a[0]
        if k == 'num':
            return a[1] == b[1]
        if k == 'str':
            return a[1] == b[1]
        if k == 'var':
            return self.bind(a[1], b[1])
        if k == 'draw':
            return True
        if k in ('op', 'call'):
            if a[1] != b[1] or len(a) != len(b):
                return False
            if k == 'op' and a[1] in COMMUT and len(a) > 3:
                return self.eq_multiset(list(a[2:]), list(b[2:]))
            if k == 'op' and a[1] in COMMUT and len(a) == 4:
                snap = (dict(self.f2c), dict(self.c2f))
                if self.eq(a[2], b[2]) and self.eq(a[3], b[3]):
                    return True
                self.f2c, self.c2f = snap
                snap = (dict(self.f2c), dict(self.c2f))
                if self.eq(a[2], b[3]) and self.eq(a[3], b[2]):
                    return True
                self.f2c, self.c2f = snap
                return False
            return all(self.eq(x, y) for x, y in zip(a[2:], b[2:]))
        if k == 'idx':
            return len(a) == len(b) and self.bind(a[1], b[1]) and all(self.eq(x, y) for x, y in zip(a[2:], b[2:]))
        if k == 'fld':
            return a[2] == b[2] and self.eq(a[1], b[1])
        return a == b

    def eq_multiset(self, xs, ys):
        if not xs:
            return not ys
        x = xs[0]
        for j, y in enumerate(ys):
            snap = (dict(self.f2c), dict(self.c2f))
            if self.eq(x, y) and self.eq_multiset(xs[1:], ys[:j] + ys[j + 1:]):
                return True
            self.f2c, self.c2f = snap
        return False

    def eq_try(self, a, b):
        snap = (dict(self.f2c), dict(self.c2f))
        if self.eq(a, b):
            return True
        self.f2c, self.c2f = snap
        return False

    def node_eq(self, f, c):
        if f.kind != c.kind:
            return 'different statement kinds: reference %s vs port %s' % (desc(f), desc(c))
        k = f.kind
        if k == 'assign':
            if not (self.eq_try(f.stmt[2], c.stmt[2])):
                if len(ir.fmt(f.stmt[2])) > 120:
                    snap = (dict(self.f2c), dict(self.c2f))
                    ds = min_diff(self, f.stmt[2], c.stmt[2])
                    self.f2c, self.c2f = snap
                    return 'assigned values differ in `%s =` (reference line %s, port line %s): %s' % (
                        ir.fmt(f.stmt[1]), f.line, c.line, '; '.join(ds[:4]))
                return 'assigned values differ: reference %s vs port %s' % (desc(f), desc(c))
            if not self.eq_try(f.stmt[1], c.stmt[1]):
                return 'assignment targets differ: reference %s vs port %s' % (desc(f), desc(c))
            return None
        if k == 'call':
            if f.stmt[1] != c.stmt[1]:
                return 'different callee: reference %s vs port %s' % (desc(f), desc(c))
            if len(f.stmt[2]) != len(c.stmt[2]):
                return 'different argument count: reference %s vs port %s' % (desc(f), desc(c))
            for i, (x, y) in enumerate(zip(f.stmt[2], c.stmt[2])):
                if not self.eq_try(x, y):
                    return 'argument %d differs: reference %s vs port %s' % (i + 1, desc(f), desc(c))
            return None
        if k in ('branch', 'eval'):
            if not self.eq_try(f.stmt[1], c.stmt[1]):
                return 'conditions differ: reference %s vs port %s' % (desc(f), desc(c))
            return None
        if k == 'return':
            if not self.eq_try(f.stmt[1], c.stmt[1]):
                return 'returned values differ: reference %s vs port %s' % (desc(f), desc(c))
            return None
        return None

    # ---- runs of independent assignments (normal-form rule 7)
    def _chain(self, g, preds, i):
        run = []
        while True:
            n = g.nodes[i]
            if n.kind != 'assign' or (run and len(preds[i]) != 1):
                break
            run.append(n)
            if len(n.succ) != 1:
                return run, None
            i = n.succ[0]
        return run, i

    @staticmethod
    def _conflict(a, b):
        da, db = node_def(a), node_def(b)
        ua, ub = node_uses(a), node_uses(b)
        if da is not None and (da in ub or da == db):
            return True
        if db is not None and db in ua:
            return True
        if ir.count_draws(a.stmt[2]) and ir.count_draws(b.stmt[2]):
            return True
        return False

    def _match_runs(self, rf, rc):
        """every reference assignment finds a port assignment that may legally be moved to its place;
        port-only leftovers must be admissible initialisations"""
        left = list(rc)
        for f in rf:
            cands = []
            for j, c in enumerate(left):
                if any(self._conflict(c, e) for e in left[:j]):
                    continue
                snap = (dict(self.f2c), dict(self.c2f))
                if self.node_eq(f, c) is None:
                    cands.append(j)
                self.f2c, self.c2f = snap
            if not cands:
                return False
            # prefer the candidate that assigns the like-named variable (the bijection is otherwise free)
            def sim(j):
                a, b = (node_def(f) or '').split('~')[0], (node_def(left[j]) or '').split('~')[0]
                k = 0
                while k < min(len(a), len(b)) and a[-1 - k] == b[-1 - k]:
                    k += 1
                return (a == b, k)
            found = max(cands, key=lambda j: (sim(j), -j))
            self.node_eq(f, left[found])
            left.pop(found)
        for c in left:
            if not self.admissible_init(c):
                return False
            self.admissible_used.append(('zero-init', c.line, desc(c)))
        return True

    def admissible_init(self, c):
        d = node_def(c)
        if c.kind == 'assign' and c.stmt[1][0] == 'var' and c.stmt[2][0] == 'var' \
                and (c.stmt[1][1], c.stmt[2][1]) in self.admissible_mirror:
            return True          # parameter-struct mirror of a by-value argument
        if c.kind == 'assign' and c.stmt[1][0] == 'var' and c.stmt[2] == ('call', 'quiet_nan'):
            return True          # NaN poison of a local the reference leaves unassigned
        return c.kind == 'assign' and c.stmt[1][0] == 'var' and c.stmt[2] == ('num', Fraction(0)) \
            and ((d or '').split('~')[0], c.line) in self.admissible_zero_init

    def run(self):
        pf, pc = self.gf.preds(), self.gc.preds()
        work = [(self.gf.entry.id, self.gc.entry.id)]
        while work:
            fi, ci = work.pop()
            if (fi, ci) in self.pairs:
                continue
            self.pairs.add((fi, ci))
            f, c = self.gf.nodes[fi], self.gc.nodes[ci]
            self.nodes_compared += 1
            # a branch may appear negated on one side
            if f.kind == 'branch' and c.kind == 'branch':
                if self.eq_try(f.stmt[1], c.stmt[1]):
                    work.append((f.succ[1], c.succ[1]))
                    work.append((f.succ[0], c.succ[0]))
                    continue
                neg = canon(('op', 'not', c.stmt[1]))
                if self.eq_try(f.stmt[1], neg):
                    work.append((f.succ[1], c.succ[0]))
                    work.append((f.succ[0], c.succ[1]))
                    continue
                self.mism.append(Mismatch('cond', f, c, 'branch conditions differ: reference %s vs port %s'
                                          % (desc(f), desc(c))))
                continue
            if c.kind == 'branch' and f.kind != 'branch' and _pure(c.stmt[1]) and \
                    any(self.gc.nodes[t].kind == 'throw' for t in c.succ):
                # port-only argument check `if (cond) throw`: follow the non-throwing arm
                arm = 1 if self.gc.nodes[c.succ[0]].kind == 'throw' else 0
                self.admissible_used.append(('defensive-throw', c.line, desc(c)))
                self.pairs.discard((fi, ci))
                work.append((fi, c.succ[arm]))
                continue
            if f.kind == 'return' and c.kind == 'throw':
                # the "wrong level" exit: print+return in the reference, throw in the port
                self.admissible_used.append(('exit-throw', c.line, desc(c)))
                continue
            if c.kind == 'assign' and f.kind != 'assign' and self.admissible_init(c) and len(c.succ) == 1:
                self.admissible_used.append(('zero-init', c.line, desc(c)))
                self.pairs.discard((fi, ci))
                work.append((fi, c.succ[0]))
                continue
            if f.kind == 'assign' and c.kind == 'assign':
                rf, nf = self._chain(self.gf, pf, fi)
                rc, nc = self._chain(self.gc, pc, ci)
                if len(rf) > 1 or len(rc) > 1:
                    ok = False
                    tried = set()
                    nadm = sum(1 for x in rc if self.admissible_init(x))
                    for extra in ((0, nadm) if len(rf) == len(rc) else (nadm, 0)):
                        k = min(len(rf), len(rc) - extra)
                        if k < 1 or (k, extra) in tried or (k == 1 and extra == 0):
                            continue
                        tried.add((k, extra))
                        snap = (dict(self.f2c), dict(self.c2f), len(self.admissible_used))
                        if self._match_runs(rf[:k], rc[:k + extra]):
                            self.nodes_compared += k - 1
                            nxf = nf if k == len(rf) else rf[k].id
                            nxc = nc if k + extra == len(rc) else rc[k + extra].id
                            if nxf is None or nxc is None:
                                if not (nxf is None and nxc is None):
                                    self.mism.append(Mismatch('shape', f, c, 'run of assignments ends differently'))
                            else:
                                work.append((nxf, nxc))
                            ok = True
                            break
                        self.f2c, self.c2f = snap[0], snap[1]
                        del self.admissible_used[snap[2]:]
                    if ok:
                        continue
            m = self.node_eq(f, c)
            if m and c.kind == 'call' and c.stmt[1] in self.admissible_port_calls and len(c.succ) == 1:
                self.admissible_used.append(('port-only-call', c.line, desc(c)))
                self.pairs.discard((fi, ci))
                work.append((fi, c.succ[0]))
                continue
            if m and c.kind == 'assign' and self.admissible_init(c) and len(c.succ) == 1:
                self.admissible_used.append(('zero-init', c.line, desc(c)))
                self.pairs.discard((fi, ci))
                work.append((fi, c.succ[0]))
                continue
            if m:
                # the two suffixes may still compute the same thing written differently: if both are loop-free,
                # compare their symbolic path summaries (events, outputs) under the pairing found so far
                snap = (dict(self.f2c), dict(self.c2f))
                ps = compare_path_summaries(self.gf, self.gc, [], [], self.fout, self.cout, fi, ci, self)
                if ps is not None and not ps[0]:
                    self.suffix_summaries += 1
                    self.nodes_compared += ps[1]
                    continue
                self.f2c, self.c2f = snap
            if m:
                self.mism.append(Mismatch('node', f, c, m))
                if f.kind != c.kind or len(self.mism) > 25:
                    continue
            if len(f.succ) != len(c.succ):
                self.mism.append(Mismatch('shape', f, c, 'different number of successors after %s' % desc(f)))
                continue
            for a, b in zip(reversed(f.succ), reversed(c.succ)):
                work.append((a, b))
        return self.mism


def desc(n):
    s = n.stmt
    if s is None:
        return n.kind
    if n.kind == 'assign':
        return '`%s = %s` (line %s)' % (ir.fmt(s[1]), ir.fmt(s[2]), n.line)
    if n.kind == 'call':
        return '`call %s(%s)` (line %s)' % (s[1], ', '.join(ir.fmt(a) for a in s[2]), n.line)
    if n.kind == 'branch':
        return '`if %s` (line %s)' % (ir.fmt(s[1]), n.line)
    if n.kind == 'return':
        return '`return %s` (line %s)' % (ir.fmt(s[1]), n.line)
    return '%s (line %s)' % (n.kind, n.line)


def rewrite_cfg(g, side):
    for n in g.nodes:
        if n.stmt is not None and n.kind in ('assign', 'call', 'branch', 'return', 'eval'):
            n.stmt = side.rw_stmt(n.stmt)
    return g


# ------------------------------------------------------------------ symbolic path summaries (rule 9)
REC_FIELDS = ('$new.code', '$new.p1', '$new.p2', '$new.p3', '$new.time')


def path_summaries(g, outputs=(), lang=None, limit=3000, start=None):
    """for a loop-free CFG: per exit path, after forward substitution of every assignment,
       (conditions, statement-level calls, final values of written outputs, returned value);
       deviates are numbered in consumption order.  None if the CFG has a cycle (not applicable)."""
    start_id = g.entry.id if start is None else start
    region = g.reachable(start_id)
    # acyclic?  (DFS colouring restricted to the region)
    color = {}
    stack = [(start_id, iter(g.nodes[start_id].succ))]
    color[start_id] = 1
    while stack:
        i, it = stack[-1]
        adv = False
        for s_ in it:
            if color.get(s_) == 1:
                return None
            if s_ not in color:
                color[s_] = 1
                stack.append((s_, iter(g.nodes[s_].succ)))
                adv = True
                break
        if not adv:
            color[i] = 2
            stack.pop()
    if any(g.nodes[i].kind == 'eval' for i in region):
        return None
    out = []

    def sub(e, env, cnt):
        def f(x):
            if x[0] == 'var':
                return env.get(x[1], x)
            if x[0] == 'draw':
                cnt[0] += 1
                return ('draw', cnt[0])
            if x[0] == 'idx':
                return env.get(x, x)
            return x
        return canon(ir.map_expr(f, e))

    def walk(i, env, conds, calls, cnt, written):
        if len(out) > limit:
            return
        n = g.nodes[i]
        if n.kind == 'assign':
            cnt = [cnt[0]]
            val = sub(n.stmt[2], env, cnt)
            l = n.stmt[1]
            env = dict(env)
            if l[0] == 'var':
                env[l[1]] = val
                key = l[1]
            else:
                key = ('idx', l[1]) + tuple(sub(x, env, cnt) for x in l[2:])
                env[key] = val
            walk(n.succ[0], env, conds, calls, cnt, written | {key})
        elif n.kind == 'branch':
            cnt = [cnt[0]]
            c = sub(n.stmt[1], env, cnt)
            walk(n.succ[0], env, conds + [c], calls, cnt, written)
            walk(n.succ[1], env, conds + [canon(('op', 'not', c))], calls, cnt, written)
        elif n.kind == 'call' and n.stmt[1] in ('$newrec', '$commit'):
            # event-record idiom: the reference opens a record, the port commits one
            env = dict(env)
            if n.stmt[1] == '$commit' or env.get('$open') == ('num', Fraction(1)):
                calls = calls + [('call', 'emit') + tuple(env.get(k, ('var', k)) for k in REC_FIELDS)]
            if n.stmt[1] == '$newrec':
                env['$open'] = ('num', Fraction(1))
                for k in REC_FIELDS:
                    env.pop(k, None)
            walk(n.succ[0], env, conds, calls, cnt, written)
        elif n.kind == 'call':
            cnt = [cnt[0]]
            args = tuple(sub(a, env, cnt) for a in n.stmt[2])
            calls = calls + [('call', n.stmt[1]) + args]
            env = dict(env)
            for k, a in enumerate(n.stmt[2]):
                if a[0] == 'var' and _maywrite(lang, n.stmt[1], k):
                    env[a[1]] = ('op', 'callout', ('num', Fraction(len(calls))), ('num', Fraction(k)))
                    written = written | {a[1]}
            walk(n.succ[0], env, conds, calls, cnt, written)
        elif n.kind in ('return', 'throw'):
            cnt = [cnt[0]]
            if env.get('$open') == ('num', Fraction(1)):
                calls = calls + [('call', 'emit') + tuple(env.get(k, ('var', k)) for k in REC_FIELDS)]
            e = n.stmt[1] if n.kind == 'return' else ('var', '$throw')
            outs = []
            for o in sorted(written, key=repr):
                name = o if isinstance(o, str) else o[1]
                if name in outputs and name != '$result' and not name.startswith('$new.') and name != '$open':
                    tgt = ('var', o) if isinstance(o, str) else o
                    outs.append(('op', 'out', tgt, env[o]))
            out.append((tuple(conds), tuple(calls), tuple(outs), sub(e, env, cnt) if e is not None else None, n.line))
        elif n.kind == 'entry':
            walk(n.succ[0], env, conds, calls, cnt, written)
        else:
            raise _NotApplicable()
    try:
        walk(start_id, {}, [], [], [0], frozenset())
    except _NotApplicable:
        return None
    if len(out) > limit:
        return None
    return out


class _NotApplicable(Exception):
    pass


def feasible(conds, limit=64):
    """is the conjunction satisfiable as far as comparisons of one expression with literals can tell?
    conjunctions are flattened, disjunctions case-split (bounded)"""
    alts = [[]]
    for c in conds:
        if c[0] == 'op' and c[1] == 'and':
            for a in alts:
                a.extend(c[2:])
        elif c[0] == 'op' and c[1] == 'or':
            new = []
            for a in alts:
                for d in c[2:]:
                    new.append(a + ([*d[2:]] if d[0] == 'op' and d[1] == 'and' else [d]))
            alts = new
            if len(alts) > limit:
                return True
        else:
            for a in alts:
                a.append(c)
    return any(prune_conditions(a) is not None for a in alts)


def prune_conditions(conds):
    """conditions of one path -> simplified tuple, or None when contradictory.  Only comparisons of one and the
    same expression with literals are reasoned about (a finite set of orderings): equalities exclude other
    values, interval bounds are intersected, implied conditions are dropped."""
    groups = {}
    rest = []
    for c in conds:
        if c[0] == 'num':
            if c[1] == 0:
                return None
            continue
        if c[0] == 'op' and c[1] in ('<', '<=', '==', '!=') and len(c) == 4:
            a, b = c[2], c[3]
            op = c[1]
            if a[0] == 'num' and b[0] != 'num':
                # literal on the left: (k < x) etc.
                groups.setdefault(b, []).append(({'<': '>', '<=': '>=', '==': '==', '!=': '!='}[op], a[1], c))
                continue
            if b[0] == 'num' and a[0] != 'num':
                groups.setdefault(a, []).append((op, b[1], c))
                continue
        rest.append(c)
    out = list(rest)
    for x, cs in groups.items():
        lo, lo_strict, hi, hi_strict = None, False, None, False
        eq = None
        ne = set()
        for op, k, c in cs:
            if op == '==':
                if eq is not None and eq != k:
                    return None
                eq = k
            elif op == '!=':
                ne.add(k)
            elif op in ('<', '<='):
                if hi is None or k < hi or (k == hi and op == '<'):
                    hi, hi_strict = k, op == '<'
            elif op in ('>', '>='):
                if lo is None or k > lo or (k == lo and op == '>'):
                    lo, lo_strict = k, op == '>'
        if eq is not None:
            if eq in ne:
                return None
            if lo is not None and (eq < lo or (eq == lo and lo_strict)):
                return None
            if hi is not None and (eq > hi or (eq == hi and hi_strict)):
                return None
            out.append(canon(('op', '==', x, ('num', eq))))
            continue
        if lo is not None and hi is not None and (lo > hi or (lo == hi and (lo_strict or hi_strict))):
            return None
        if lo is not None:
            out.append(canon(('op', '>' if lo_strict else '>=', x, ('num', lo))))
        if hi is not None:
            out.append(canon(('op', '<' if hi_strict else '<=', x, ('num', hi))))
        for k in sorted(ne):
            if (lo is not None and (k < lo or (k == lo and lo_strict))) or \
                    (hi is not None and (k > hi or (k == hi and hi_strict))):
                continue
            out.append(canon(('op', '!=', x, ('num', k))))
    return tuple(sorted(out, key=repr))


def min_diff(b, x, y, depth=0):
    """smallest differing sub-expressions of x (reference) and y (port) under the bijection of b"""
    if x is None or y is None:
        return [] if x is y else ['reference `%s` vs port `%s`' % (ir.fmt(x), ir.fmt(y))]
    snap = (dict(b.f2c), dict(b.c2f))
    if b.eq(x, y):
        return []
    b.f2c, b.c2f = snap
    if x[0] == y[0] and x[0] in ('op', 'call') and x[1] == y[1] and len(x) == len(y) and depth < 40:
        xs, ys = list(x[2:]), list(y[2:])
        if x[0] == 'op' and x[1] in COMMUT:
            rest_y = list(ys)
            rest_x = []
            for p in xs:
                hit = None
                for j, q in enumerate(rest_y):
                    snap = (dict(b.f2c), dict(b.c2f))
                    if b.eq(p, q):
                        hit = j
                        break
                    b.f2c, b.c2f = snap
                if hit is None:
                    rest_x.append(p)
                else:
                    rest_y.pop(hit)
            if len(rest_x) == len(rest_y) and rest_x:
                out = []
                for p, q in zip(rest_x, rest_y):
                    for d in min_diff(b, p, q, depth + 1):
                        if d not in out:
                            out.append(d)
                return out
            if len(rest_x) < len(xs):
                return ['reference `%s` vs port `%s`' % (' , '.join(ir.fmt(p)[:200] for p in rest_x),
                                                          ' , '.join(ir.fmt(q)[:200] for q in rest_y))]
        else:
            out = []
            for p, q in zip(xs, ys):
                for d in min_diff(b, p, q, depth + 1):
                    if d not in out:
                        out.append(d)
            if out:
                return out
    return ['reference `%s` vs port `%s`' % (ir.fmt(x)[:300], ir.fmt(y)[:300])]


def compare_path_summaries(gf, gc, fparams, cparams, fout=(), cout=(), fstart=None, cstart=None, bisim=None):
    rec = []
    if cstart is None:
        gc = drop_defensive_throws(gc, rec)
    pf, pc = path_summaries(gf, fout, 'f', start=fstart), path_summaries(gc, cout, 'c', start=cstart)
    if pf is None or pc is None:
        return None

    def prune(ps):
        o = []
        for p in ps:
            c = prune_conditions(p[0])
            if c is not None:
                o.append((c,) + tuple(p[1:]))
        return o
    pf, pc = prune(pf), prune(pc)

    def mask_out(ps, lang):
        # the value handed in at a position the callee overwrites before reading it is immaterial
        po = PUREOUT.get(lang, {})
        out = []
        for p in ps:
            calls = []
            for c in p[1]:
                if c[0] == 'call' and po.get(c[1]):
                    c = c[:2] + tuple(('var', '$out') if i in po[c[1]] else a for i, a in enumerate(c[2:]))
                calls.append(c)
            out.append((p[0], tuple(calls) if isinstance(p[1], tuple) else calls) + tuple(p[2:]))
        return out
    pf, pc = mask_out(pf, 'f'), mask_out(pc, 'c')
    b = bisim if bisim is not None else Bisim(gf, gc, fparams, cparams)
    mism = []
    left = list(pc)
    n = 0

    def same(p, q, full=True):
        conds, calls, outs, res, _ = p
        c2, k2, o2, r2, _ = q
        if len(conds) != len(c2) or not b.eq_multiset(list(conds), list(c2)):
            return False
        if not full:
            return True
        if len(calls) != len(k2) or not all(b.eq(x, y) for x, y in zip(calls, k2)):
            return False
        if len(outs) != len(o2) or not b.eq_multiset(list(outs), list(o2)):
            return False
        return b.eq(res, r2)

    def show(p):
        conds, calls, outs, res, line = p
        t = []
        if calls:
            t.append('calls ' + '; '.join(ir.fmt(c) for c in calls))
        if outs:
            t.append('writes ' + '; '.join('%s = %s' % (ir.fmt(o[2]), ir.fmt(o[3])) for o in outs))
        if res is not None:
            t.append('returns ' + ir.fmt(res))
        return '(line %s) %s' % (line, ', '.join(t) or 'does nothing')

    for p in pf:
        n += 1
        hit = None
        for j, q in enumerate(left):
            snap = (dict(b.f2c), dict(b.c2f))
            if same(p, q):
                hit = j
                break
            b.f2c, b.c2f = snap
        if hit is None:
            close = None
            for q in left:
                snap = (dict(b.f2c), dict(b.c2f))
                ok = same(p, q, full=False)
                b.f2c, b.c2f = snap
                if ok:
                    close = q
                    break
            if close is not None:
                snap = (dict(b.f2c), dict(b.c2f))
                same(p, close, full=False)
                ds = []
                for x, y in list(zip(p[1], close[1])) + [(p[3], close[3])]:
                    ds += min_diff(b, x, y)
                if len(p[1]) != len(close[1]):
                    ds.append('different calls: reference [%s] vs port [%s]' % (
                        '; '.join(ir.fmt(c) for c in p[1]), '; '.join(ir.fmt(c) for c in close[1])))
                # outputs: pair the targets by the variable bijection, then compare the values
                fo = {ir.fmt(o[2]): o for o in p[2]}
                co = {ir.fmt(o[2]): o for o in close[2]}
                used = set()
                for fname, o in sorted(fo.items()):
                    cname = None
                    t = o[2]
                    if t[0] == 'var':
                        cname = b.f2c.get(t[1])
                        if cname is None:
                            for cand in (t[1], '.' + t[1]):
                                if cand in co:
                                    cname = cand
                    if cname is None or cname not in co:
                        ds.append('`%s` is written only by the reference (= %s)' % (fname, ir.fmt(o[3])[:80]))
                        continue
                    used.add(cname)
                    for d in min_diff(b, o[3], co[cname][3]):
                        ds.append('%s: %s' % (fname, d))
                for cname, o in sorted(co.items()):
                    if cname not in used:
                        ds.append('`%s` is written only by the port (= %s)' % (cname, ir.fmt(o[3])[:80]))
                b.f2c, b.c2f = snap
                left.remove(close)
                text = 'under [%s] the reference (line %s) and the port (line %s) differ: %s' % (
                    ' and '.join(ir.fmt(c) for c in p[0]), p[4], close[4], '; '.join(ds[:4]) or 'variable pairing')
            else:
                text = 'no port path has the conditions [%s] of the reference path ending at line %s' % (
                    ' and '.join(ir.fmt(c) for c in p[0]), p[4])
            m = Mismatch('path', None, None, text)
            m.fline, m.cline = p[4], (close[4] if close else None)
            mism.append(m)
        else:
            left.pop(hit)
    for q in left:
        m = Mismatch('path', None, None, 'port path with no reference counterpart: under [%s] %s'
                     % (' and '.join(ir.fmt(c) for c in q[0]), show(q)))
        m.fline, m.cline = None, q[4]
        mism.append(m)
    return mism, n, dict(b.f2c), rec
