"""Fixed-form Fortran-77 front end for the shipped Decay0 reference.

Produces, per program unit, the neutral structured tree of sa/ir.py with IR
expressions.  Anything not recognised raises AnalysisBroken (never skipped).
"""
import re
from fractions import Fraction

from .project import AnalysisBroken
from . import ir

DOTOPS = ('lt', 'le', 'gt', 'ge', 'eq', 'ne', 'and', 'or', 'not', 'true', 'false', 'eqv', 'neqv')
DOTOP_RE = re.compile(r'\.(' + '|'.join(DOTOPS) + r')\.')
NUM_RE = re.compile(r'\d+')
NAME_RE = re.compile(r'[a-z][a-z0-9_$]*')

IO_KW = ('print', 'write', 'read', 'open', 'close', 'format', 'pause', 'rewind')
DECL_KW = ('common', 'dimension', 'real', 'integer', 'doubleprecision', 'character', 'logical', 'complex',
           'external', 'save', 'data', 'parameter', 'implicit', 'equivalence', 'intrinsic')


def logical_lines(text):
    """fixed-form / tab-form statement assembly -> [(label, text_without_blanks_lowercase, line_no, raw)]"""
    out = []
    cur = None
    for no, raw in enumerate(text.split('\n'), 1):
        line = raw.rstrip('\r')
        if not line.strip():
            continue
        c0 = line[0]
        if c0 in 'cC*!':
            continue
        if c0 in 'dD' and (len(line) == 1 or line[1] in ' \t'):
            continue            # debug line
        # split label field / continuation / statement
        cont = False
        if '\t' in line[:6]:
            i = line.index('\t')
            lab = line[:i].strip()
            rest = line[i + 1:]
            if ((rest[:1].isdigit() and rest[:1] != '0') or rest[:1] in ('+', '&', '$', '*')) and not lab:
                cont = True
                rest = rest[1:]
        else:
            lab = line[:5].strip()
            c6 = line[5:6]
            rest = line[6:]
            if c6 not in ('', ' ', '0'):
                cont = True
        # strip inline comment and blanks outside strings, lowercase outside strings
        buf = []
        instr = False
        j = 0
        while j < len(rest):
            ch = rest[j]
            if instr:
                buf.append(ch)
                if ch == "'":
                    if rest[j + 1:j + 2] == "'":
                        buf.append("'")
                        j += 1
                    else:
                        instr = False
            else:
                if ch == "'":
                    instr = True
                    buf.append(ch)
                elif ch == '!':
                    break
                elif ch in ' \t':
                    pass
                else:
                    buf.append(ch.lower())
            j += 1
        stmt = ''.join(buf)
        if cont:
            if cur is None:
                raise AnalysisBroken('f77: continuation without statement at line %d' % no)
            cur[1] += stmt
        else:
            if cur is not None:
                out.append(tuple(cur))
            if not stmt and not lab:
                cur = None
                continue
            cur = [lab, stmt, no, raw]
    if cur is not None:
        out.append(tuple(cur))
    return out


# ------------------------------------------------------------------ expressions
class Lexer:
    def __init__(self, s, line):
        self.s = s
        self.i = 0
        self.line = line
        self.toks = []
        self._lex()
        self.p = 0

    def _lex(self):
        s = self.s
        i = 0
        n = len(s)
        T = self.toks
        while i < n:
            ch = s[i]
            if ch == "'":
                j = i + 1
                buf = []
                while True:
                    if j >= n:
                        raise AnalysisBroken('f77: unterminated string at line %d' % self.line)
                    if s[j] == "'":
                        if s[j + 1:j + 2] == "'":
                            buf.append("'")
                            j += 2
                            continue
                        break
                    buf.append(s[j])
                    j += 1
                T.append(('str', ''.join(buf)))
                i = j + 1
                continue
            if ch == '.':
                m = DOTOP_RE.match(s, i)
                if m:
                    T.append(('dot', m.group(1)))
                    i = m.end()
                    continue
            if ch.isdigit() or (ch == '.' and i + 1 < n and s[i + 1].isdigit()):
                j = i
                while j < n and s[j].isdigit():
                    j += 1
                isreal = False
                if j < n and s[j] == '.' and not DOTOP_RE.match(s, j):
                    isreal = True
                    j += 1
                    while j < n and s[j].isdigit():
                        j += 1
                if j < n and s[j] in 'ed':
                    m = re.match(r'[ed][+-]?\d+', s[j:])
                    if m:
                        isreal = True
                        j += m.end()
                T.append(('real' if isreal else 'int', s[i:j]))
                i = j
                continue
            m = NAME_RE.match(s, i)
            if m:
                T.append(('name', m.group(0)))
                i = m.end()
                continue
            if s.startswith('**', i):
                T.append(('op', '**'))
                i += 2
                continue
            if s.startswith('//', i):
                T.append(('op', '//'))
                i += 2
                continue
            if ch in '+-*/(),:=$':
                T.append(('op', ch))
                i += 1
                continue
            raise AnalysisBroken('f77: cannot lex %r at line %d: %s' % (ch, self.line, s))
        T.append(('eof', ''))

    def peek(self):
        return self.toks[self.p]

    def next(self):
        t = self.toks[self.p]
        self.p += 1
        return t

    def accept(self, kind, val=None):
        t = self.toks[self.p]
        if t[0] == kind and (val is None or t[1] == val):
            self.p += 1
            return True
        return False

    def expect(self, kind, val=None):
        if not self.accept(kind, val):
            raise AnalysisBroken('f77: expected %s %s at line %d in %s (got %s)'
                                 % (kind, val, self.line, self.s, self.peek()))


INTRINSIC = {
    'alog': 'log', 'log': 'log', 'dlog': 'log', 'exp': 'exp', 'dexp': 'exp', 'sqrt': 'sqrt', 'dsqrt': 'sqrt',
    'abs': 'abs', 'dabs': 'abs', 'iabs': 'abs', 'cos': 'cos', 'sin': 'sin', 'acos': 'acos', 'asin': 'asin',
    'atan': 'atan', 'tan': 'tan', 'amax1': 'max', 'max': 'max', 'max0': 'max', 'dmax1': 'max', 'amin1': 'min',
    'min': 'min', 'min0': 'min', 'dmin1': 'min', 'int': 'int', 'ifix': 'int', 'nint': 'nint', 'anint': 'anint',
    'float': 'real', 'real': 'real', 'dble': 'real', 'sngl': 'real', 'mod': 'mod', 'amod': 'mod', 'sign': 'sign',
    'alog10': 'log10', 'cmplx': 'cmplx', 'cabs': 'cabs', 'atan2': 'atan2', 'len': 'len', 'index': 'index',
    'char': 'char', 'ichar': 'ichar', 'aint': 'aint', 'dcos': 'cos', 'dsin': 'sin',
}


class ExprParser:
    def __init__(self, lx, arrays, chars):
        self.lx = lx
        self.arrays = arrays
        self.chars = chars

    def expr(self):
        return self.p_or()

    def p_or(self):
        a = self.p_and()
        while self.lx.accept('dot', 'or'):
            a = ('op', 'or', a, self.p_and())
        return a

    def p_and(self):
        a = self.p_not()
        while self.lx.accept('dot', 'and'):
            a = ('op', 'and', a, self.p_not())
        return a

    def p_not(self):
        if self.lx.accept('dot', 'not'):
            return ('op', 'not', self.p_not())
        return self.p_rel()

    REL = {'lt': '<', 'le': '<=', 'gt': '>', 'ge': '>=', 'eq': '==', 'ne': '!='}

    def p_rel(self):
        a = self.p_cat()
        t = self.lx.peek()
        if t[0] == 'dot' and t[1] in self.REL:
            self.lx.next()
            b = self.p_cat()
            return ('op', self.REL[t[1]], a, b)
        return a

    def p_cat(self):
        a = self.p_add()
        while self.lx.accept('op', '//'):
            a = ('op', 'concat', a, self.p_add())
        return a

    def p_add(self):
        t = self.lx.peek()
        if t == ('op', '-'):
            self.lx.next()
            a = ('op', 'neg', self.p_mul())
        elif t == ('op', '+'):
            self.lx.next()
            a = self.p_mul()
        else:
            a = self.p_mul()
        while True:
            t = self.lx.peek()
            if t == ('op', '+'):
                self.lx.next()
                a = ('op', '+', a, self.p_mul())
            elif t == ('op', '-'):
                self.lx.next()
                a = ('op', '-', a, self.p_mul())
            else:
                return a

    def p_mul(self):
        a = self.p_pow()
        while True:
            t = self.lx.peek()
            if t == ('op', '*'):
                self.lx.next()
                a = ('op', '*', a, self.p_pow())
            elif t == ('op', '/'):
                self.lx.next()
                a = ('op', '/', a, self.p_pow())
            else:
                return a

    def p_pow(self):
        a = self.p_prim()
        if self.lx.accept('op', '**'):
            # right associative; unary minus allowed in exponent
            if self.lx.accept('op', '-'):
                b = ('op', 'neg', self.p_pow())
            else:
                b = self.p_pow()
            return ('op', '**', a, b)
        return a

    def p_prim(self):
        t = self.lx.next()
        if t[0] == 'int':
            return ('num', Fraction(int(t[1])), 'i')
        if t[0] == 'real':
            return ('num', ir.dec(t[1]), 'f')
        if t[0] == 'str':
            return ('str', t[1])
        if t[0] == 'dot' and t[1] in ('true', 'false'):
            return ('num', Fraction(1 if t[1] == 'true' else 0), 'b')
        if t == ('op', '('):
            e = self.expr()
            if self.lx.accept('op', ','):       # complex constant (a,b)
                e2 = self.expr()
                self.lx.expect('op', ')')
                return ('op', 'cmplx', e, e2)
            self.lx.expect('op', ')')
            return e
        if t == ('op', '-'):
            return ('op', 'neg', self.p_prim())
        if t[0] == 'name':
            name = t[1]
            if self.lx.accept('op', '('):
                args = []
                if not self.lx.accept('op', ')'):
                    while True:
                        if self.lx.peek() == ('op', ':'):
                            a = None
                        else:
                            a = self.expr()
                        if self.lx.accept('op', ':'):
                            hi = None
                            if self.lx.peek() not in (('op', ')'), ('op', ',')):
                                hi = self.expr()
                            a = ('range', a, hi)
                        args.append(a)
                        if self.lx.accept('op', ','):
                            continue
                        self.lx.expect('op', ')')
                        break
                if len(args) == 1 and isinstance(args[0], tuple) and args[0][0] == 'range':
                    return ('op', 'substr', ('var', name), args[0][1], args[0][2])
                if name in self.arrays:
                    e = ('idx', name) + tuple(args)
                    if self.lx.peek() == ('op', '('):      # substring of array element
                        self.lx.next()
                        lo = self.expr()
                        self.lx.expect('op', ':')
                        hi = self.expr()
                        self.lx.expect('op', ')')
                        return ('op', 'substr', e, lo, hi)
                    return e
                if name == 'rnd1' or name == 'rndm':
                    return ('draw',)
                if name in INTRINSIC:
                    return ('op', INTRINSIC[name]) + tuple(args)
                return ('call', name) + tuple(args)
            return ('var', name)
        raise AnalysisBroken('f77: unexpected token %s at line %d in %s' % (t, self.lx.line, self.lx.s))


# -------------------------------------------------------------------- statements
class Unit:
    def __init__(self, kind, name, params, line):
        self.kind = kind          # subroutine | function | program | blockdata
        self.name = name
        self.params = params
        self.line = line
        self.end_line = line
        self.arrays = {}          # name -> dims
        self.chars = set()
        self.commons = {}         # block -> [names]
        self.externals = set()
        self.data = []            # (name, values)
        self.parameters = []      # PARAMETER (name = constant)
        self.saves = set()
        self.types = {}           # name -> type keyword
        self.body = []            # neutral tree
        self.stmts = []           # raw (label, text, line)


def _split_top(s, sep=','):
    out = []
    depth = 0
    cur = []
    instr = False
    for ch in s:
        if instr:
            cur.append(ch)
            if ch == "'":
                instr = False
            continue
        if ch == "'":
            instr = True
        if ch == '(':
            depth += 1
        elif ch == ')':
            depth -= 1
        if ch == sep and depth == 0:
            out.append(''.join(cur))
            cur = []
        else:
            cur.append(ch)
    out.append(''.join(cur))
    return out


def _top_level_eq(s):
    depth = 0
    instr = False
    for i, ch in enumerate(s):
        if instr:
            if ch == "'":
                instr = False
            continue
        if ch == "'":
            instr = True
        elif ch == '(':
            depth += 1
        elif ch == ')':
            depth -= 1
        elif ch == '=' and depth == 0:
            return i
    return -1


def _match_paren(s, i):
    """s[i] == '(' -> index of matching ')'"""
    depth = 0
    instr = False
    for j in range(i, len(s)):
        ch = s[j]
        if instr:
            if ch == "'":
                instr = False
            continue
        if ch == "'":
            instr = True
        elif ch == '(':
            depth += 1
        elif ch == ')':
            depth -= 1
            if depth == 0:
                return j
    raise AnalysisBroken('f77: unbalanced parenthesis in ' + s)


LVAL_RE = re.compile(r'^[a-z][a-z0-9_$]*(\(.*\))?$')
HEADER_RE = re.compile(r'^(?:(real|integer|doubleprecision|logical|complex|character)(?:\*\d+)?)?'
                       r'(subroutine|function|program|blockdata)([a-z][a-z0-9_$]*)?(?:\((.*)\))?$')


def _declare(u, kw, rest, line):
    if kw == 'common':
        # /blk/a,b(3),c  possibly several blocks
        for m in re.finditer(r'/([a-z0-9_$]*)/([^/]*)', rest):
            blk = m.group(1)
            for item in _split_top(m.group(2).rstrip(',')):
                if not item:
                    continue
                mm = re.match(r'([a-z][a-z0-9_$]*)(?:\((.*)\))?$', item)
                if not mm:
                    raise AnalysisBroken('f77: bad common item %r line %d' % (item, line))
                u.commons.setdefault(blk, []).append(mm.group(1))
                if mm.group(2):
                    u.arrays[mm.group(1)] = mm.group(2)
    elif kw in ('dimension', 'real', 'integer', 'doubleprecision', 'logical', 'complex', 'character'):
        r = rest
        if kw == 'character' and r.startswith('*'):
            r = re.sub(r'^\*\(?\d+\)?', '', r)
        elif r.startswith('*'):
            r = re.sub(r'^\*\d+', '', r)
        for item in _split_top(r):
            if not item:
                continue
            mm = re.match(r'([a-z][a-z0-9_$]*)(?:\((.*?)\))?(?:\*\(?[0-9*]+\)?)?$', item)
            if not mm:
                raise AnalysisBroken('f77: bad declaration item %r line %d' % (item, line))
            if mm.group(2):
                u.arrays[mm.group(1)] = mm.group(2)
            if kw == 'character':
                u.chars.add(mm.group(1))
            if kw != 'dimension':
                u.types[mm.group(1)] = kw
    elif kw == 'external':
        u.externals.update(_split_top(rest))
    elif kw == 'save':
        u.saves.update(x for x in _split_top(rest) if x)
    elif kw == 'data':
        for m in re.finditer(r'([^/]+)/([^/]*)/,?', rest):
            u.data.append((m.group(1), m.group(2), line))
    elif kw in ('parameter',):
        inner = rest.strip('()')
        for item in _split_top(inner):
            k, v = item.split('=')
            u.parameters.append((k, v, line))
    elif kw in ('implicit', 'equivalence', 'intrinsic'):
        pass


def parse_units(text):
    lines = logical_lines(text)
    units = []
    u = None
    for lab, s, no, raw in lines:
        if u is None:
            m = HEADER_RE.match(s)
            if not m:
                raise AnalysisBroken('f77: statement outside program unit at line %d: %s' % (no, s))
            params = [p for p in (m.group(4) or '').split(',') if p]
            u = Unit(m.group(2), m.group(3) or '', params, no)
            if m.group(1):
                u.types[u.name] = m.group(1)
            continue
        if s == 'end':
            u.end_line = no
            units.append(u)
            u = None
            continue
        u.stmts.append((lab, s, no))
    if u is not None:
        raise AnalysisBroken('f77: missing END for unit ' + u.name)
    for u in units:
        _parse_body(u)
    return units


def _parse_body(u):
    # first pass: declarations (they can only precede executables, but be liberal)
    execs = []
    for lab, s, no in u.stmts:
        kw = None
        if _top_level_eq(s) < 0 or s.startswith(('data', 'parameter(')):
            for k in DECL_KW:
                if s.startswith(k):
                    kw = k
                    break
        if kw and not (kw in ('real', 'integer', 'data', 'save', 'complex', 'logical') and _is_assignment(s)):
            _declare(u, kw, s[len(kw):], no)
            if lab:
                execs.append((lab, 'continue', no))
            continue
        execs.append((lab, s, no))
    # second pass: executables into a structured tree
    pos = [0]

    def ep(text, no):
        lx = Lexer(text, no)
        p = ExprParser(lx, u.arrays, u.chars)
        e = p.expr()
        if lx.peek()[0] != 'eof':
            raise AnalysisBroken('f77: trailing tokens at line %d: %s' % (no, text))
        return e

    def simple(s, no):
        """one non-block statement -> list of tree statements"""
        if s == 'continue':
            return []
        if s == 'return':
            return [('return', None, no)]
        if s == 'stop' or s.startswith('stop') and not _is_assignment(s):
            return [('throw', no)]
        m = re.match(r'^goto(\d+)$', s)
        if m:
            return [('goto', m.group(1), no)]
        m = re.match(r'^goto\(([\d,]+)\),?(.+)$', s)
        if m:
            labs = m.group(1).split(',')
            sel = ep(m.group(2), no)
            out = []
            for i, l in enumerate(labs, 1):
                out.append(('if', ('op', '==', sel, ('num', Fraction(i), 'i')), [('goto', l, no)], [], no))
            return out
        if s.startswith('call') and not _is_assignment(s):
            m = re.match(r'^call([a-z][a-z0-9_$]*)(?:\((.*)\))?$', s)
            if not m:
                raise AnalysisBroken('f77: bad call at line %d: %s' % (no, s))
            args = []
            if m.group(2) is not None and m.group(2) != '':
                lx = Lexer(m.group(2), no)
                p = ExprParser(lx, u.arrays, u.chars)
                while True:
                    args.append(p.expr())
                    if lx.accept('op', ','):
                        continue
                    break
                if lx.peek()[0] != 'eof':
                    raise AnalysisBroken('f77: bad call args at line %d: %s' % (no, s))
            return [('call', m.group(1), tuple(args), no)]
        for k in IO_KW:
            if s.startswith(k) and not _is_assignment(s):
                return [('io', k, s, no)]
        if s.startswith('if('):
            j = _match_paren(s, 2)
            cond = ep(s[3:j], no)
            rest = s[j + 1:]
            if rest == 'then':
                raise AnalysisBroken('f77: internal: block if reached simple() line %d' % no)
            return [('if', cond, simple(rest, no), [], no)]
        i = _top_level_eq(s)
        if i > 0 and LVAL_RE.match(s[:i]):
            lhs = ep(s[:i], no)
            if lhs[0] == 'call':       # name(args)= with undeclared array: statement function or error
                raise AnalysisBroken('f77: assignment to undeclared array/statement function at line %d: %s' % (no, s))
            rhs = ep(s[i + 1:], no)
            return [('assign', lhs, rhs, no)]
        raise AnalysisBroken('f77: unrecognised statement at line %d in unit %s: %s' % (no, u.name, s))

    def block(terminators):
        """parse statements until one of `terminators` (returned with its text)"""
        out = []
        while pos[0] < len(execs):
            lab, s, no = execs[pos[0]]
            if lab:
                out.append(('label', lab, no))
            for t in terminators:
                if (t == 'elseif(' and s.startswith('elseif(') and s.endswith('then')) or s == t \
                        or (t == 'endif' and s == 'endif') or (t == 'enddo' and s == 'enddo'):
                    return out, s, no
            pos[0] += 1
            if s.startswith('if(') and s.endswith('then') and _match_paren(s, 2) == len(s) - 5:
                cond = ep(s[3:len(s) - 5], no)
                out.append(_ifchain(cond, no))
                continue
            m = re.match(r'^do(\d*)([a-z][a-z0-9_$]*)=(.+)$', s)
            if m and len(_split_top(m.group(3))) in (2, 3) and not m.group(1):
                parts = _split_top(m.group(3))
                body, term, tno = block(('enddo',))
                pos[0] += 1
                step = ep(parts[2], no) if len(parts) == 3 else ('num', Fraction(1), 'i')
                out.append(('do', ('var', m.group(2)), ep(parts[0], no), ep(parts[1], no), step, body, no))
                continue
            if m and m.group(1) and len(_split_top(m.group(3))) in (2, 3):
                # labelled DO: body runs to the statement carrying that label (inclusive)
                parts = _split_top(m.group(3))
                endlab = m.group(1)
                body = []
                while True:
                    if pos[0] >= len(execs):
                        raise AnalysisBroken('f77: DO %s without terminal statement (line %d)' % (endlab, no))
                    l2, s2, n2 = execs[pos[0]]
                    if l2 == endlab:
                        body.append(('label', l2, n2))
                        pos[0] += 1
                        body += simple(s2, n2)
                        break
                    sub, _, _ = block_one()
                    body += sub
                step = ep(parts[2], no) if len(parts) == 3 else ('num', Fraction(1), 'i')
                out.append(('do', ('var', m.group(2)), ep(parts[0], no), ep(parts[1], no), step, body, no))
                continue
            out += simple(s, no)
        if terminators:
            raise AnalysisBroken('f77: missing %s in unit %s' % ('/'.join(terminators), u.name))
        return out, None, None

    def block_one():
        """exactly one (possibly compound) statement"""
        lab, s, no = execs[pos[0]]
        out = []
        if lab:
            out.append(('label', lab, no))
        pos[0] += 1
        if s.startswith('if(') and s.endswith('then') and _match_paren(s, 2) == len(s) - 5:
            out.append(_ifchain(ep(s[3:len(s) - 5], no), no))
        else:
            out += simple(s, no)
        return out, s, no

    def _ifchain(cond, no):
        then, term, tno = block(('elseif(', 'else', 'endif'))
        pos[0] += 1
        if term == 'endif':
            return ('if', cond, then, [], no)
        if term == 'else':
            els, term2, _ = block(('endif',))
            pos[0] += 1
            return ('if', cond, then, els, no)
        # elseif(...)then
        j = _match_paren(term, 6)
        c2 = ep(term[7:j], tno)
        return ('if', cond, then, [_ifchain(c2, tno)], no)

    # normalise 'end if' / 'end do' / 'else if' spellings (blanks are already removed)
    execs = [(l, s, n) for (l, s, n) in execs]
    body, _, _ = block(())
    u.body = body


def _is_assignment(s):
    i = _top_level_eq(s)
    return i > 0 and bool(LVAL_RE.match(s[:i])) and not s.startswith('if(')


_cache = {}


def load_reference(path):
    if path in _cache:
        return _cache[path]
    text = open(path, encoding='latin-1').read()
    units = parse_units(text)
    d = {}
    for u in units:
        d.setdefault(u.name, u)
    _cache[path] = d
    return d
