"""Pair reference units with ported functions and run the TV comparison (bisimulation, or
(path condition, result) summaries for loop-free pure functions)."""
import os
from . import cfg as cfgm, cpp2ir, f77, ir, tv
from .project import REPO, AnalysisBroken

REFERENCE = os.path.join(REPO, 'resources/code/decay0/decay0_2020-04-20.for')

# reference unit -> ported function where the name differs (the body moved)
UNIT_ALIAS = {'particle': 'bxdecay0::randomize_particle', 'fermi': 'bxdecay0::decay0_fermi_func_orig'}


def cpp_candidates(prog):
    """lowercased short name (without decay0_ prefix) -> [functions]"""
    out = {}
    for (qn, _), fn in prog.functions.items():
        if not qn.startswith('bxdecay0::') or fn.get('method'):
            continue
        n = qn.split('::')[-1].lower()
        if n.startswith('decay0_'):
            n = n[7:]
        out.setdefault(n, []).append(fn)
    return out


def select(prog, cands, name):
    """-> (function, kernel_to_inline or None)"""
    if name in UNIT_ALIAS:
        return prog.fn(UNIT_ALIAS[name]), None
    fs = cands.get(name, [])
    if len(fs) == 1:
        return fs[0], None
    if len(fs) == 2:
        # wrapper + kernel overloads: the wrapper calls the kernel
        from .astu import calls
        for w, k in ((fs[0], fs[1]), (fs[1], fs[0])):
            if any(c['callee']['qn'] == k['qn'] and c['callee']['id'] == k['id'] for c in calls(w['body'])):
                return w, k
    if not fs:
        return None, None
    raise AnalysisBroken('ambiguous C++ counterpart for reference unit %s: %d candidates' % (name, len(fs)))


def _inline(wtree, kname, ktree, kparams):
    """replace the tail call `kname(args); return` of the wrapper by the kernel body"""
    out = []
    done = False
    for i, s in enumerate(wtree):
        if s[0] == 'call' and s[1] == kname and not done:
            rest = [x for x in wtree[i + 1:] if x[0] not in ('io',)]
            if any(x[0] != 'return' for x in rest):
                raise AnalysisBroken('wrapper %s: kernel call is not in tail position' % kname)
            body = ktree
            if len(s[2]) != len(kparams):
                raise AnalysisBroken('wrapper %s: argument count differs from kernel parameters' % kname)
            for p, a in zip(kparams, s[2]):
                if ('var', p) != a:
                    body = cpp2ir.subst_tree(body, ('var', p), a)
            out += body
            done = True
            break
        out.append(s)
    if not done:
        raise AnalysisBroken('wrapper: call to kernel %s not found at top level' % kname)
    return out


_INL = [0]


def _map_tree(stmts, fs):
    """rebuild a statement tree, applying fs(stmt) -> list of statements at every level (children first)"""
    out = []
    for s in stmts:
        k = s[0]
        if k == 'if':
            s = ('if', s[1], _map_tree(s[2], fs), _map_tree(s[3], fs), s[4])
        elif k == 'do':
            s = ('do', s[1], s[2], s[3], s[4], _map_tree(s[5], fs), s[6])
        elif k == 'loop':
            s = ('loop', _map_tree(s[1], fs), s[2], _map_tree(s[3], fs), _map_tree(s[4], fs), s[5], s[6])
        elif k == 'switch':
            s = ('switch', s[1], _map_tree(s[2], fs), s[3])
        elif k == 'try':
            s = ('try', _map_tree(s[1], fs), [_map_tree(h, fs) for h in s[2]], s[3])
        out.extend(fs(s))
    return out


def _rename_tree(stmts, ren, lab):
    """rename variables (dict) and labels (prefix) of a helper body"""
    def fname(name):
        # a function-pointer parameter bound to a named function: the indirect call becomes a direct one
        if name.startswith('indirect:') and name[9:] in ren and ren[name[9:]][0] == 'var':
            return ren[name[9:]][1]
        return name

    def rx(e):
        def f(x):
            if x[0] == 'call' and fname(x[1]) != x[1]:
                return ('call', fname(x[1])) + x[2:]
            if x[0] == 'var' and x[1] in ren:
                return ren[x[1]]
            if x[0] == 'idx' and x[1] in ren and ren[x[1]][0] == 'var':
                return ('idx', ren[x[1]][1]) + x[2:]
            return x
        return ir.map_expr(f, e) if e is not None else None

    def fs(s):
        k = s[0]
        if k == 'assign':
            return [('assign', rx(s[1]), rx(s[2]), s[3])]
        if k == 'call':
            return [('call', fname(s[1]), tuple(rx(a) for a in s[2]), s[3])]
        if k == 'if':
            return [('if', rx(s[1]), s[2], s[3], s[4])]
        if k == 'return':
            return [('return', rx(s[1]), s[2])]
        if k == 'eval':
            return [('eval', rx(s[1]), s[2])]
        if k == 'do':
            v = ren.get(s[1][1], s[1]) if isinstance(s[1], tuple) else s[1]
            return [('do', v, rx(s[2]), rx(s[3]), rx(s[4]), s[5], s[6])]
        if k == 'loop':
            return [('loop', s[1], rx(s[2]), s[3], s[4], s[5], s[6])]
        if k == 'switch':
            return [('switch', rx(s[1]), s[2], s[3])]
        if k == 'case':
            return [('case', rx(s[1]) if s[1] is not None else None, s[2])]
        if k == 'label':
            return [('label', lab + str(s[1]), s[2])]
        if k == 'goto':
            return [('goto', lab + str(s[1]), s[2])]
        return [s]
    return _map_tree(stmts, fs)


def inline_helpers(ctree, helpers, sigs, depth=0):
    """port-only helper functions of the unit's own file are expanded at their call sites (statement calls and `v = helper(...)`),
    so that extracting a helper from a unit does not change what is compared with the reference"""
    if not helpers or depth > 3:
        return ctree
    prepared = {}

    def prep(name):
        if name not in prepared:
            fn = helpers[name]
            tree, lo = cpp2ir.lower_function(fn, sigs)
            tree = inline_helpers(tree, {k: v for k, v in helpers.items() if k != name}, sigs, depth + 1)
            params = [p for p in fn['params'] if p['ty'] not in cpp2ir.CTX_TYPES and p['name'] != '']
            prepared[name] = (tree, lo, params, fn)
        return prepared[name]

    def expand(name, args, res, line):
        tree, lo, params, fn = prep(name)
        if fn.get('method') and len(args) == len(params) + 1 and args[0] == ('var', 'this'):
            args = args[1:]          # same-object member helper: `this` is shared
        if len(args) != len(params):
            raise AnalysisBroken('helper %s: argument count differs at line %s' % (name, line))
        _INL[0] += 1
        tag = 'inl%d__' % _INL[0]
        assigned = set()
        for s in _walk_stmts(tree):
            if s[0] == 'assign' and s[1][0] in ('var', 'idx'):
                assigned.add(s[1][1])
        ren = {}
        pre = []
        for p_, a in zip(params, args):
            byref = p_['pm'] in ('ref', 'ptr') or p_['ty'].rstrip().endswith('&') and not p_['ty'].startswith('const')
            if a[0] == 'var' and (byref or p_['name'] not in assigned):
                ren[p_['name']] = a
            elif a[0] != 'var' and p_['name'] not in assigned and not byref and ir.count_draws(a) == 0 and \
                    not any(x[0] == 'call' for x in ir.subexprs(a)):
                ren[p_['name']] = a            # pure value argument never modified: substitute
            else:
                ren[p_['name']] = ('var', tag + p_['name'])
                pre.append(('assign', ('var', tag + p_['name']), a, line))
        for l in lo.locals:
            if l not in ren:
                ren[l] = ('var', tag + l)
        body = _rename_tree(tree, ren, tag)
        end = tag + 'end'

        def fs(s):
            if s[0] == 'return':
                out = []
                if s[1] is not None and res is not None:
                    out.append(('assign', res, s[1], s[2]))
                elif s[1] is not None and (ir.count_draws(s[1]) or any(x[0] == 'call' for x in ir.subexprs(s[1]))):
                    out.append(('eval', s[1], s[2]))
                out.append(('goto', end, s[2]))
                return out
            return [s]
        body = _map_tree(body, fs)
        return pre + body + [('label', end, line)]

    def nested(e):
        """first helper call nested in e (not e itself), when everything else in e is free of calls and deviates"""
        hits = [x for x in ir.subexprs(e) if x[0] == 'call' and x[1].split('::')[-1] in helpers]
        if len(hits) != 1:
            return None
        h = hits[0]
        others = [x for x in ir.subexprs(e) if x is not h and x[0] in ('call', 'draw') and x not in list(ir.subexprs(h))[1:]]
        others = [x for x in others if not (x[0] == 'call' and x is e)]
        if any(x[0] == 'draw' or (x[0] == 'call' and not tv.PURE_CALL.search(x[1])) for x in others):
            return None
        return h

    def hoist(s, exprs, rebuild):
        for k, e in enumerate(exprs):
            h = nested(('op', 'wrap', e)) if e is not None else None
            if h is not None:
                _INL[0] += 1
                tmp = ('var', 'inl%d__ret' % _INL[0])
                pre = expand(h[1].split('::')[-1], list(h[2:]), tmp, s[-1])

                def sub(x, _h=h, _t=tmp):
                    return _t if x == _h else x
                new = [ir.map_expr(sub, y) if (j == k and y is not None) else y for j, y in enumerate(exprs)]
                return pre + [rebuild(new)]
        return None

    def fs(s):
        if s[0] == 'call' and s[1].split('::')[-1] in helpers:
            return expand(s[1].split('::')[-1], list(s[2]), None, s[3])
        if s[0] == 'assign' and s[2][0] == 'call' and s[2][1].split('::')[-1] in helpers and s[1][0] == 'var':
            return expand(s[2][1].split('::')[-1], list(s[2][2:]), s[1], s[3])
        if s[0] == 'call':
            r = hoist(s, list(s[2]), lambda new, _s=s: ('call', _s[1], tuple(new), _s[3]))
            if r:
                return r
        if s[0] == 'assign':
            r = hoist(s, [s[2]], lambda new, _s=s: ('assign', _s[1], new[0], _s[3]))
            if r:
                return r
        return [s]
    return _map_tree(ctree, fs)


def fold_struct_literals(ctree, lo):
    """a local aggregate initialised once from a brace list of literals (`const transition t = {1.770, 3.51e-3, ...};`) and never
    assigned again: every `t.field` is replaced by the literal at the field's position (the aggregate's declared field order), and
    the initialisation is dropped.  Makes a parameter block of constants handed to an expanded helper transparent."""
    inits, dirty = {}, set()
    for s in _walk_stmts(ctree):
        if s[0] == 'assign' and s[1][0] == 'var':
            n = s[1][1]
            if s[2][0] == 'op' and s[2][1] == 'list' and all(x[0] == 'num' for x in s[2][2:]) and n not in inits:
                inits[n] = s[2][2:]
            else:
                dirty.add(n)
        elif s[0] == 'assign' and s[1][0] == 'fld' and s[1][1][0] == 'var':
            dirty.add(s[1][1][1])
        elif s[0] == 'call':
            for a in s[2]:
                if a[0] == 'var':
                    dirty.add(a[1])
    table = {}
    for n, vals in inits.items():
        if n in dirty:
            continue
        ty = (lo.locals.get(n) or '').replace('const ', '').replace('struct ', '').strip()
        fields = cpp2ir.RECORD_FIELDS.get(ty) or cpp2ir.RECORD_FIELDS.get(ty.split('::')[-1])
        if fields and len(fields) == len(vals):
            table[n] = dict(zip(fields, vals))
    if not table:
        return ctree

    def fe(e):
        def f(x):
            if x[0] == 'fld' and x[1][0] == 'var' and x[1][1] in table and x[2] in table[x[1][1]]:
                return table[x[1][1]][x[2]]
            return x
        return ir.map_expr(f, e)

    def fs(s):
        if s[0] == 'assign' and s[1][0] == 'var' and s[1][1] in table and s[2][0] == 'op' and s[2][1] == 'list':
            return []
        if s[0] == 'assign':
            return [('assign', fe(s[1]), fe(s[2]), s[3])]
        if s[0] in ('eval', 'return'):
            return [(s[0], fe(s[1]) if s[1] is not None else None) + tuple(s[2:])]
        if s[0] == 'call':
            return [('call', s[1], tuple(fe(a) for a in s[2]), s[3])]
        return [s]
    out = _map_tree(ctree, fs)
    # conditions of if / loop statements
    def fc(stmts):
        res = []
        for s in stmts:
            if s[0] == 'if':
                res.append(('if', fe(s[1]), fc(s[2]), fc(s[3]), s[4]))
            elif s[0] == 'loop':
                res.append(('loop', fc(s[1]), fe(s[2]), fc(s[3]), fc(s[4]), s[5], s[6]))
            elif s[0] == 'do':
                res.append(('do', s[1], fe(s[2]), fe(s[3]), fe(s[4]), fc(s[5]), s[6]))
            elif s[0] == 'switch':
                res.append(('switch', fe(s[1]), fc(s[2]), s[3]))
            elif s[0] == 'try':
                res.append(('try', fc(s[1]), [fc(h) for h in s[2]], s[3]))
            else:
                res.append(s)
        return res
    return fc(out)


def _walk_stmts(stmts):
    for s in stmts:
        yield s
        k = s[0]
        if k == 'if':
            yield from _walk_stmts(s[2])
            yield from _walk_stmts(s[3])
        elif k == 'do':
            yield from _walk_stmts(s[5])
        elif k == 'loop':
            for part in (s[1], s[3], s[4]):
                yield from _walk_stmts(part)
        elif k == 'switch':
            yield from _walk_stmts(s[2])
        elif k == 'try':
            yield from _walk_stmts(s[1])
            for h in s[2]:
                yield from _walk_stmts(h)


def modinfo_f(units, frozen=None):
    """reference side: argument positions a unit may write (assigned, or passed on at a written position)"""
    frozen = frozen or {}
    mod = {n: set() for n in units}
    changed = True
    while changed:
        changed = False
        for n, u in units.items():
            params = [p.lower() for p in u.params]

            def scan(stmts):
                w = set()
                for s in stmts:
                    k = s[0]
                    if k == 'assign':
                        l = s[1]
                        name = l[1] if l[0] in ('var', 'idx') else None
                        if name in params:
                            w.add(params.index(name))
                        exprs = [s[2]]
                    elif k == 'call':
                        exprs = []
                        callee = s[1]
                        for i, a in enumerate(s[2]):
                            if a[0] in ('var', 'idx') and a[1] in params and (callee not in mod or i in mod[callee]):
                                w.add(params.index(a[1]))
                            exprs.append(a)
                    elif k == 'if':
                        w |= scan(s[2]) | scan(s[3])
                        exprs = [s[1]]
                    elif k == 'do':
                        w |= scan(s[5])
                        exprs = []
                    else:
                        exprs = []
                    for e in exprs:
                        for x in ir.subexprs(e):
                            if x[0] == 'call':
                                for i, a in enumerate(x[2:]):
                                    if a[0] in ('var', 'idx') and a[1] in params and \
                                            (x[1] not in mod or i in mod[x[1]]):
                                        w.add(params.index(a[1]))
                return w
            w = scan(u.body) if n not in frozen else set(frozen[n])
            if not w <= mod[n]:
                mod[n] |= w
                changed = True
    return mod


def modinfo_c(prog):
    """port side: positions (after dropping the context arguments) passed by mutable reference/pointer"""
    mod = {}
    for (qn, fid), fn in prog.functions.items():
        if fn.get('method'):
            name = cpp2ir.short(fn.get('cls', '')) + '::' + fn['name']
            kept = [p for p in fn['params']]
            w = {i + 1 for i, p in enumerate(kept) if p['pm'] in ('ref', 'ptr')}
            if not fn.get('const'):
                w.add(0)
            mod.setdefault(name.lower() if False else name, set()).update(w)
            continue
        if not qn.startswith('bxdecay0::'):
            continue
        n = qn.split('::')[-1].lower()
        if n.startswith('decay0_'):
            n = n[7:]
        n = tv.CALLEE_ALIAS.get(n, n)
        kept = [p for p in fn['params'] if p['ty'] not in cpp2ir.CTX_TYPES and p['name'] != '']
        w = {i for i, p in enumerate(kept) if p['pm'] in ('ref', 'ptr')}
        mod.setdefault(n, set()).update(w)
    return mod


def install_modinfo(units, prog):
    tv.MODINFO['f'] = dict(tv.EXTERNAL_MOD)
    tv.MODINFO['f'].update(modinfo_f(units, {'fermi': set()}))
    # the reference's `fermi` clamps its by-reference energy argument up to 50 eV; the port takes it by value.
    # Treated as by-value on both sides (DESIGN.md: accepted by-reference artefact).
    tv.MODINFO['f']['fermi'] = set()
    tv.MODINFO['c'] = modinfo_c(prog)
    tv.PUREOUT['f'], tv.PUREOUT['c'] = pureout_f(units), pureout_c(prog)


def pureout_f(units):
    out = {}
    for name, u in units.items():
        w = tv.MODINFO['f'].get(name) or set()
        if not w:
            continue
        try:
            common = {v for vs in u.commons.values() for v in vs}
            sf = tv.Side('f', u.name, u.params, u.arrays, common, u.name if u.kind == 'function' else None)
            g = cfgm.compact(tv.rewrite_cfg(cfgm.build(list(u.body)), sf), drop=('nop', 'io'))
            ps = [sf.var(p)[1] for p in u.params]
            out[name] = {i for i in w if i < len(ps) and ps[i] not in u.arrays and tv.assigned_before_read(g, ps[i])}
        except Exception:
            out[name] = set()
    return out


def pureout_c(prog, sigs=None):
    out = {}
    sigs = sigs or cpp2ir.build_sigs(prog)
    for (qn, fid), fn in prog.functions.items():
        if fn.get('method') or not qn.startswith('bxdecay0::'):
            continue
        n = qn.split('::')[-1].lower()
        if n.startswith('decay0_'):
            n = n[7:]
        n = tv.CALLEE_ALIAS.get(n, n)
        kept = [p for p in fn['params'] if p['ty'] not in cpp2ir.CTX_TYPES and p['name'] != '']
        w = [i for i, p in enumerate(kept) if p['pm'] in ('ref', 'ptr') and p['ty'].replace('const ', '').strip() in ('double &', 'int &', 'float &')]
        if not w:
            continue
        try:
            tree, lo = cpp2ir.lower_function(fn, sigs)
            sc = tv.Side('c', fn['name'], [p['name'] for p in fn['params']])
            g = cfgm.compact(tv.rewrite_cfg(cfgm.build(tree), sc), drop=('nop', 'io'))
            res = {i for i in w if tv.assigned_before_read(g, sc.var(kept[i]['name'])[1])}
        except Exception:
            res = set()
        out[n] = (out[n] & res) if n in out else res
    return out


class Result:
    def __init__(self):
        self.mism = []
        self.method = 'bisimulation'
        self.nodes = 0
        self.admissible = []
        self.gf = self.gc = None
        self.cfn = None
        self.bind = {}


def compare_unit(u, fn, sigs=None, kernel=None, opts=None):
    opts = opts or {}
    common = {v for vs in u.commons.values() for v in vs}
    fres = u.name if u.kind == 'function' else None
    sf = tv.Side('f', u.name, u.params, u.arrays, common, fres)
    pre = []
    for k, v, line in u.parameters:
        lx = f77.Lexer(v, line)
        pre.append(('assign', ('var', k), f77.ExprParser(lx, u.arrays, u.chars).expr(), line))
    gf = cfgm.build(pre + list(u.body))
    tv.rewrite_cfg(gf, sf)
    if fres:
        for n in gf.nodes:
            if n.kind == 'return':
                n.stmt = ('return', ('var', '$result'), n.stmt[2])
    ctree, lo = cpp2ir.lower_function(fn, sigs)
    decl_zero = list(lo.decl_zero)
    params = fn['params']
    if kernel is not None:
        ktree, klo = cpp2ir.lower_function(kernel, sigs)
        kparams = [p['name'] for p in kernel['params'] if p['ty'] not in cpp2ir.CTX_TYPES and p['name'] != '']
        ctree = _inline(ctree, cpp2ir.short(kernel['qn']), ktree, kparams)
        decl_zero += klo.decl_zero
    if opts.get('helpers'):
        ctree = inline_helpers(ctree, opts['helpers'], sigs)
    ctree = fold_struct_literals(ctree, lo)
    sc = tv.Side('c', fn['name'], [p['name'] for p in params])
    sc.keep_underscore = {p['name'] for p in params if p['name'].rstrip('_') in lo.locals
                          or (kernel is not None and p['name'].rstrip('_') in klo.locals)}
    gc = cfgm.build(ctree)
    tv.rewrite_cfg(gc, sc)
    cparams = [sc.var(p['name'])[1] for p in params if p['ty'] not in cpp2ir.CTX_TYPES and p['name'] != '']
    fparams = [sf.var(p)[1] for p in u.params]
    fout = set(fparams) | {sf.var(v)[1] for v in common}
    cout = set(cparams) | sc.fld_vars | {'prng', 'event'}
    if fres:
        fout.add('$result')
    fall = set(fout)
    cpar = [p for p in params if p['ty'] not in cpp2ir.CTX_TYPES and p['name'] != '']
    if len(cpar) == len(fparams) and kernel is None:
        for fp, cp in zip(fparams, cpar):
            if cp['pm'] in ('v', 'cref', 'cptr') and not cp['ty'].rstrip().endswith(']'):
                fout.discard(fp)      # the port takes this argument by value: not an output on either side
    gf, hf = tv.event_idioms(gf, 'f')
    gc, hc = tv.event_idioms(gc, 'c')
    if hf:
        fout.discard('npfull')
        fout.discard('pmoment')
    r = Result()
    for hook in ADMISSIBLE_HOOKS.get(u.name, ()):
        gf, gc = hook(gf, gc, sf, sc, r.admissible)
    if u.name in ADMISSIBLE_OUTPUTS:
        tv.MODINFO['f']['$newrec'] = tv.MODINFO['c']['$commit'] = set()
        fout |= ADMISSIBLE_OUTPUTS[u.name]
        cout |= ADMISSIBLE_OUTPUTS[u.name]
    # names of external procedures passed as arguments are not variables
    ext = {e.lower() for e in u.externals}
    finputs = fall | ext | set(fparams)
    gf = tv.unassigned_locals_to_zero(gf, finputs, r.admissible)
    gf = tv.split_webs(cfgm.compact(gf, drop=('nop', 'io')), fout | ext | set(fparams), 'f', r.admissible,
                       inputs=finputs)
    gc = tv.split_webs(cfgm.compact(gc, drop=('nop', 'io')), cout | set(cparams), 'c')
    gf = tv.normalise_cfg(gf, fout, [], lang='f')
    gc = tv.normalise_cfg(gc, cout, [], lang='c')
    r.gf, r.gc, r.cfn = gf, gc, fn
    # parameters correspond by position, unless the port reordered/regrouped them: then by name
    if len(fparams) == len(cparams):
        pf, pc = fparams, cparams
    else:
        pf = [p for p in fparams if p in cparams]
        pc = list(pf)
    b = tv.Bisim(gf, gc, pf, pc)
    # a C++ local zero-initialised at its declaration where the reference reads the variable unassigned
    # (static storage: zero): admissible, recorded per use
    b.admissible_zero_init = {(sc.var(n)[1], l) for n, l in decl_zero}
    b.fout, b.cout = fout, cout
    b.run()
    r.nodes = b.nodes_compared
    r.admissible += b.admissible_used
    r.mism = b.mism
    r.bind = dict(b.f2c)
    if b.mism:
        ps = tv.compare_path_summaries(gf, gc, pf, pc, fout, cout)
        if ps is not None and (not ps[0] or fres):
            r.method = 'path-summaries'
            r.mism, r.nodes, r.bind, rec = ps
            r.admissible = rec
    return r


# --------------------------------------------------------------------------------------------------
# Admissible differences (DESIGN.md 2.4): explicit, per unit, each taken from the property text or a
# documented repository decision.  Every use is recorded in the evidence.
def _adm_pair_swap(gf, gc, sf, sc, rec):
    """`pair`: the port emits e- then e+ (the reference e+ then e-): swap the species codes on the port side"""
    n = 0
    for x in gc.nodes:
        if x.kind == 'call' and x.stmt[1] == 'particle' and x.stmt[2] and x.stmt[2][0][0] == 'num' \
                and x.stmt[2][0][1] in (2, 3):
            a = list(x.stmt[2])
            a[0] = ('num', 5 - a[0][1])
            x.stmt = ('call', x.stmt[1], tuple(a), x.stmt[3])
            n += 1
    rec.append(('pair-order', 0, 'e+/e- emission order swapped in %d calls' % n))
    return gf, gc


def _adm_y90_region(gf, gc, sf, sc, rec):
    """`Y90`: the node `call pair(0.739, ...)` of the reference is replaced in the port by a single-entry
    single-exit region (revised positron spectrum, README 1.0.8).  The region is collapsed to that call."""
    target = None
    for x in gf.nodes:
        if x.kind == 'call' and x.stmt[1] == 'pair' and x.stmt[2] and x.stmt[2][0] == ('num', ir.dec('0.739')):
            target = x
    if target is None:
        raise AnalysisBroken('Y90: reference node call pair(0.739,..) not found')
    preds = gc.preds()
    cands = [x for x in gc.nodes if x.kind == 'assign' and x.stmt[1] == ('var', 'phi') and ir.count_draws(x.stmt[2])]
    if len(cands) != 1:
        return gf, gc          # region absent (e.g. the original Y90.cc is compiled): compare normally
    start = cands[0]
    reach = gc.reachable(start.id)
    rets = [i for i in reach if gc.nodes[i].kind in ('return',)]
    if len(rets) != 1 or any(gc.nodes[i].kind == 'throw' for i in reach):
        raise AnalysisBroken('Y90: replacement region is not single-exit')
    for i in reach:
        if i != start.id and any(p not in reach for p in preds[i]) and i != rets[0]:
            raise AnalysisBroken('Y90: replacement region is entered from outside')
    calls = [gc.nodes[i] for i in sorted(reach) if gc.nodes[i].kind == 'call']
    if [c.stmt[1] for c in calls] != ['particle', 'particle']:
        raise AnalysisBroken('Y90: replacement region does not emit exactly two particles')
    last = max(gc.nodes[i].line for i in reach if gc.nodes[i].kind != 'return')
    start.kind = 'call'
    start.stmt = target.stmt[:3] + (start.line,)
    start.succ = [rets[0]]
    rec.append(('y90-region', start.line, 'revised pair-positron spectrum region (lines %d-%d) stands for '
                'call pair(0.739, ...)' % (start.line, last)))
    return gf, gc


def _adm_particle(gf, gc, sf, sc, rec):
    """`particle`: event-record writes.  reference: npfull=npfull+1; npgeant(npfull)=np; pmoment(k,npfull)=..;
    ptime(npfull)=tdlev.  port: part.set_code/set_time(last_time + tdlev)/set_momentum; add_particle(part).
    Both become writes to $new.code/$new.pK/$new.time; the port's `last_time +` is the documented
    absolute-instead-of-incremental time (admissible)."""
    F0 = ('num', ir.Fraction(0))
    for x in gf.nodes:
        if x.kind == 'assign':
            l, r = x.stmt[1], x.stmt[2]
            if l == ('var', 'npfull'):
                x.kind, x.stmt = 'call', ('call', '$newrec', (), x.stmt[3])
            elif l[0] == 'idx' and l[1] == 'npgeant':
                x.stmt = ('assign', ('var', '$new.code'), r, x.stmt[3])
            elif l[0] == 'idx' and l[1] == 'ptime':
                x.stmt = ('assign', ('var', '$new.time'), r, x.stmt[3])
            elif l[0] == 'idx' and l[1] == 'pmoment' and l[2][0] == 'num':
                x.stmt = ('assign', ('var', '$new.p%d' % int(l[2][1])), r, x.stmt[3])
            if x.kind == 'assign':
                x.stmt = ('assign', x.stmt[1], ir.map_expr(
                    lambda e: ('call', 'mass') + e[2:] if e[0] == 'idx' and e[1] == 'datamass' else e, x.stmt[2]),
                    x.stmt[3])
    for x in list(gc.nodes):
        if x.kind == 'call':
            name, a = x.stmt[1], x.stmt[2]
            if name == 'particle::set_code':
                x.kind, x.stmt = 'assign', ('assign', ('var', '$new.code'), a[1], x.stmt[3])
            elif name == 'particle::set_time':
                t = ir.map_expr(lambda e: F0 if e == ('var', 'last_time') else e, a[1])
                x.kind, x.stmt = 'assign', ('assign', ('var', '$new.time'), tv.canon(t), x.stmt[3])
                if t != a[1]:
                    rec.append(('absolute-times', x.line, 'port stores last_time + tdlev (absolute emission time)'))
            elif name == 'particle::set_momentum':
                l = x.stmt[3]
                x.kind, x.stmt = 'assign', ('assign', ('var', '$new.p1'), a[1], l)
                n2 = gc.new('assign', ('assign', ('var', '$new.p2'), a[2], l), x.line)
                n3 = gc.new('assign', ('assign', ('var', '$new.p3'), a[3], l), x.line)
                n3.succ = list(x.succ)
                n2.succ = [n3.id]
                x.succ = [n2.id]
            elif name == 'event::add_particle':
                x.stmt = ('call', '$commit', (), x.stmt[3])
        if x.kind == 'assign':
            x.stmt = ('assign', x.stmt[1], ir.map_expr(
                lambda e: ('call', 'mass') + e[2:] if e[0] == 'call' and e[1] == 'particle_mass_mev' else e,
                x.stmt[2]), x.stmt[3])
    return gf, gc


def _adm_fermi(gf, gc, sf, sc, rec):
    """`fermi`: CERNLIB cgamma replaced by GSL's log-gamma: `lnr` (= res_lnr.val after
    gsl_sf_lngamma_complex_e(g, y, ...)) stands for log(cabs(cgamma(cmplx(g, y)))); third-party numerics are
    call-level opaque on both sides"""
    args = None
    for x in gc.nodes:
        if x.kind == 'assign' and x.stmt[2][0] == 'call' and x.stmt[2][1] == 'gsl_sf_lngamma_complex_e':
            args = x.stmt[2][2:4]
            x.kind = 'nop'
    if args is None:
        return gf, gc
    for x in gc.nodes:
        if x.kind == 'assign' and x.stmt[2] == ('var', '.val'):
            x.stmt = ('assign', x.stmt[1], ('op', 'log', ('op', 'cabs', ('call', 'cgamma', ('op', 'cmplx') + args))),
                      x.stmt[3])
    rec.append(('third-party-numerics', 0, 'gsl_sf_lngamma_complex_e(g, y) stands for log|cgamma(g + iy)|'))
    return gf, gc


ADMISSIBLE_HOOKS = {'pair': [_adm_pair_swap], 'y90': [_adm_y90_region], 'particle': [_adm_particle],
                    'fermi': [_adm_fermi], 'bb': [_adm_particle]}
_NEW = {'$new.code', '$new.time', '$new.p1', '$new.p2', '$new.p3'}
ADMISSIBLE_OUTPUTS = {'particle': _NEW, 'bb': _NEW}
