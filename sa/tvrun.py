"""Pair reference units with ported functions and run the TV comparison (bisimulation, or
(path condition, result) summaries for loop-free pure functions)."""
import os
from . import cfg as cfgm, cpp2ir, f77, ir, tv
from .project import REPO, AnalysisBroken

REFERENCE = os.path.join(REPO, 'resources/code/decay0/decay0_2020-04-20.for')

# reference unit -> ported function where the name differs (the body moved)
UNIT_ALIAS = {'particle': 'bxdecay0::randomize_particle', 'fermi': 'bxdecay0::decay0_fermi_func_orig'}


def cpp_candidates(prog):
    """lowercased short name (without decay0_ prefix) -> [functions]"""
    out = {}
    for (qn, _), fn in prog.functions.items():
        if not qn.startswith('bxdecay0::') or fn.get('method'):
            continue
        n = qn.split('::')[-1].lower()
        if n.startswith('decay0_'):
            n = n[7:]
        out.setdefault(n, []).append(fn)
    return out


def select(prog, cands, name):
    """-> (function, kernel_to_inline or None)"""
    if name in UNIT_ALIAS:
        return prog.fn(UNIT_ALIAS[name]), None
    fs = cands.get(name, [])
    if len(fs) == 1:
        return fs[0], None
    if len(fs) == 2:
        # wrapper + kernel overloads: the wrapper calls the kernel
        from .astu import calls
        for w, k in ((fs[0], fs[1]), (fs[1], fs[0])):
            if any(c['callee']['qn'] == k['qn'] and c['callee']['id'] == k['id'] for c in calls(w['body'])):
                return w, k
    if not fs:
        return None, None
    raise AnalysisBroken('ambiguous C++ counterpart for reference unit %s: %d candidates' % (name, len(fs)))


def _inline(wtree, kname, ktree, kparams):
    """replace the tail call `kname(args); return` of the wrapper by the kernel body"""
    out = []
    done = False
    for i, s in enumerate(wtree):
        if s[0] == 'call' and s[1] == kname and not done:
            rest = [x for x in wtree[i + 1:] if x[0] not in ('io',)]
            if any(x[0] != 'return' for x in rest):
                raise AnalysisBroken('wrapper %s: kernel call is not in tail position' % kname)
            body = ktree
            if len(s[2]) != len(kparams):
                raise AnalysisBroken('wrapper %s: argument count differs from kernel parameters' % kname)
            for p, a in zip(kparams, s[2]):
                if ('var', p) != a:
                    body = cpp2ir.subst_tree(body, ('var', p), a)
            out += body
            done = True
            break
        out.append(s)
    if not done:
        raise AnalysisBroken('wrapper: call to kernel %s not found at top level' % kname)
    return out


def modinfo_f(units):
    """reference side: argument positions a unit may write (assigned, or passed on at a written position)"""
    mod = {n: set() for n in units}
    changed = True
    while changed:
        changed = False
        for n, u in units.items():
            params = [p.lower() for p in u.params]

            def scan(stmts):
                w = set()
                for s in stmts:
                    k = s[0]
                    if k == 'assign':
                        l = s[1]
                        name = l[1] if l[0] in ('var', 'idx') else None
                        if name in params:
                            w.add(params.index(name))
                        exprs = [s[2]]
                    elif k == 'call':
                        exprs = []
                        callee = s[1]
                        for i, a in enumerate(s[2]):
                            if a[0] in ('var', 'idx') and a[1] in params and (callee not in mod or i in mod[callee]):
                                w.add(params.index(a[1]))
                            exprs.append(a)
                    elif k == 'if':
                        w |= scan(s[2]) | scan(s[3])
                        exprs = [s[1]]
                    elif k == 'do':
                        w |= scan(s[5])
                        exprs = []
                    else:
                        exprs = []
                    for e in exprs:
                        for x in ir.subexprs(e):
                            if x[0] == 'call':
                                for i, a in enumerate(x[2:]):
                                    if a[0] in ('var', 'idx') and a[1] in params and \
                                            (x[1] not in mod or i in mod[x[1]]):
                                        w.add(params.index(a[1]))
                return w
            w = scan(u.body)
            if not w <= mod[n]:
                mod[n] |= w
                changed = True
    return mod


def modinfo_c(prog):
    """port side: positions (after dropping the context arguments) passed by mutable reference/pointer"""
    mod = {}
    for (qn, fid), fn in prog.functions.items():
        if fn.get('method'):
            name = cpp2ir.short(fn.get('cls', '')) + '::' + fn['name']
            kept = [p for p in fn['params']]
            w = {i + 1 for i, p in enumerate(kept) if p['pm'] in ('ref', 'ptr')}
            if not fn.get('const'):
                w.add(0)
            mod.setdefault(name.lower() if False else name, set()).update(w)
            continue
        if not qn.startswith('bxdecay0::'):
            continue
        n = qn.split('::')[-1].lower()
        if n.startswith('decay0_'):
            n = n[7:]
        n = tv.CALLEE_ALIAS.get(n, n)
        kept = [p for p in fn['params'] if p['ty'] not in cpp2ir.CTX_TYPES and p['name'] != '']
        w = {i for i, p in enumerate(kept) if p['pm'] in ('ref', 'ptr')}
        mod.setdefault(n, set()).update(w)
    return mod


def install_modinfo(units, prog):
    tv.MODINFO['f'] = dict(tv.EXTERNAL_MOD)
    tv.MODINFO['f'].update(modinfo_f(units))
    tv.MODINFO['c'] = modinfo_c(prog)


class Result:
    def __init__(self):
        self.mism = []
        self.method = 'bisimulation'
        self.nodes = 0
        self.admissible = []
        self.gf = self.gc = None
        self.cfn = None
        self.bind = {}


def compare_unit(u, fn, sigs=None, kernel=None, opts=None):
    opts = opts or {}
    common = {v for vs in u.commons.values() for v in vs}
    fres = u.name if u.kind == 'function' else None
    sf = tv.Side('f', u.name, u.params, u.arrays, common, fres)
    pre = []
    for k, v, line in u.parameters:
        lx = f77.Lexer(v, line)
        pre.append(('assign', ('var', k), f77.ExprParser(lx, u.arrays, u.chars).expr(), line))
    gf = cfgm.build(pre + list(u.body))
    tv.rewrite_cfg(gf, sf)
    if fres:
        for n in gf.nodes:
            if n.kind == 'return':
                n.stmt = ('return', ('var', '$result'), n.stmt[2])
    ctree, lo = cpp2ir.lower_function(fn, sigs)
    decl_zero = list(lo.decl_zero)
    params = fn['params']
    if kernel is not None:
        ktree, klo = cpp2ir.lower_function(kernel, sigs)
        kparams = [p['name'] for p in kernel['params'] if p['ty'] not in cpp2ir.CTX_TYPES and p['name'] != '']
        ctree = _inline(ctree, cpp2ir.short(kernel['qn']), ktree, kparams)
        decl_zero += klo.decl_zero
    sc = tv.Side('c', fn['name'], [p['name'] for p in params])
    gc = cfgm.build(ctree)
    tv.rewrite_cfg(gc, sc)
    cparams = [sc.var(p['name'])[1] for p in params if p['ty'] not in cpp2ir.CTX_TYPES and p['name'] != '']
    fparams = [sf.var(p)[1] for p in u.params]
    fout = set(fparams) | {sf.var(v)[1] for v in common}
    cout = set(cparams) | sc.fld_vars | {'prng', 'event'}
    if fres:
        fout.add('$result')
    gf, hf = tv.event_idioms(gf, 'f')
    gc, hc = tv.event_idioms(gc, 'c')
    if hf:
        fout.discard('npfull')
        fout.discard('pmoment')
    for hook in opts.get('pre', ()):
        gf, gc = hook(gf, gc, sf, sc)
    r = Result()
    # names of external procedures passed as arguments are not variables
    ext = {e.lower() for e in u.externals}
    gf = tv.unassigned_locals_to_zero(gf, fout | ext, r.admissible)
    gf = tv.normalise_cfg(gf, fout, [], lang='f')
    gc = tv.normalise_cfg(gc, cout, [], lang='c')
    r.gf, r.gc, r.cfn = gf, gc, fn
    # parameters correspond by position, unless the port reordered/regrouped them: then by name
    if len(fparams) == len(cparams):
        pf, pc = fparams, cparams
    else:
        pf = [p for p in fparams if p in cparams]
        pc = list(pf)
    b = tv.Bisim(gf, gc, pf, pc)
    # a C++ local zero-initialised at its declaration where the reference reads the variable unassigned
    # (static storage: zero): admissible, recorded per use
    b.admissible_zero_init = {(sc.var(n)[1], l) for n, l in decl_zero}
    b.run()
    r.nodes = b.nodes_compared
    r.admissible += b.admissible_used
    r.mism = b.mism
    r.bind = dict(b.f2c)
    if b.mism:
        ps = tv.compare_path_summaries(gf, gc, pf, pc, fout, cout)
        if ps is not None and (not ps[0] or fres):
            r.method = 'path-summaries'
            r.mism, r.nodes, r.bind, rec = ps
            r.admissible = rec
    return r
