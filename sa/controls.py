"""Positive controls for the thorough tier.

/verif/seeded/<id>/ holds changes to BxCppDev/bxdecay0 that break a property while compiling and leaving the 19 tests green
(each confirmed by hand: see meta.json).  For a property P, every seeded change whose meta.json lists P under `caught_by` is
applied to a scratch copy of the *current* /repo working tree (outside /repo and /verif, removed afterwards) and P's quick
check is run on the copy: it must exit 1 and name the expected rule.  A control that no longer fires means the rule has gone
blind (an anchor moved, an idiom changed): that is analysis-broken (exit 2), never a pass.  A control whose patch does not
apply to the current tree is skipped and reported (the tree has moved on; nothing is concluded from it).
"""
import glob
import json
import os
import shutil
import subprocess
import sys
import tempfile

from .project import REPO, VERIF, AnalysisBroken


def seeds_for(pid):
    out = []
    for m in sorted(glob.glob(os.path.join(VERIF, 'seeded', '*', 'meta.json'))):
        meta = json.load(open(m))
        if pid in meta.get('caught_by', {}):
            out.append((os.path.dirname(m), meta))
    return out


def run(pid):
    """[(seed id, status, detail)]; raises AnalysisBroken when a control that applies is not detected"""
    if os.environ.get('VERIF_NO_CONTROLS'):
        return []
    res = []
    for d, meta in seeds_for(pid):
        sid = os.path.basename(d)
        tmp = tempfile.mkdtemp(prefix='bxd0ctl.')
        try:
            tree = os.path.join(tmp, 'tree')
            shutil.copytree(REPO, tree, symlinks=True,
                            ignore=shutil.ignore_patterns('_build', '.git', '*.o', '*.so'))
            chk = subprocess.run(['git', 'apply', '--check', os.path.join(d, 'patch.diff')], cwd=tree,
                                 stdout=subprocess.PIPE, stderr=subprocess.STDOUT, text=True)
            if chk.returncode != 0:
                res.append((sid, 'skipped', 'patch does not apply to the current tree'))
                continue
            subprocess.run(['git', 'apply', os.path.join(d, 'patch.diff')], cwd=tree, check=True)
            env = dict(os.environ, VERIF_REPO=tree, VERIF_EVIDENCE_DIR=os.path.join(tmp, 'ev'), VERIF_NO_CONTROLS='1',
                       VERIF_TIER='quick')
            r = subprocess.run([sys.executable, os.path.join(VERIF, 'check'), pid], env=env, stdout=subprocess.PIPE,
                               stderr=subprocess.STDOUT, text=True)
            want = meta['caught_by'][pid]
            fired = [l for l in r.stdout.splitlines() if ('[%s' % want) in l]
            if r.returncode == 1 and fired:
                res.append((sid, 'detected', fired[0][:200]))
            else:
                raise AnalysisBroken('positive control seeded/%s is no longer detected by %s (expected rule %s, exit %d): the rule '
                                     'has gone blind\n%s' % (sid, pid, want, r.returncode, '\n'.join(r.stdout.splitlines()[-6:])))
        finally:
            shutil.rmtree(tmp, ignore_errors=True)
    return res
