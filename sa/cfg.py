"""Control-flow graph over the neutral statement tree (both languages), dominators, simplification."""
from fractions import Fraction

from .project import AnalysisBroken

ONE = ('num', Fraction(1), 'i')


class Node:
    __slots__ = ('id', 'kind', 'stmt', 'succ', 'line')

    def __init__(self, id, kind, stmt, line):
        self.id = id
        self.kind = kind      # entry assign call eval io branch return throw nop
        self.stmt = stmt
        self.succ = []        # branch: [true, false]
        self.line = line

    def __repr__(self):
        return 'N%d<%s %s -> %s>' % (self.id, self.kind, self.stmt[1:3] if self.stmt else '', self.succ)


class CFG:
    def __init__(self):
        self.nodes = []
        self.entry = None

    def new(self, kind, stmt=None, line=0):
        n = Node(len(self.nodes), kind, stmt, line)
        self.nodes.append(n)
        return n

    # ---------------------------------------------------------------- queries
    def reachable(self, start=None):
        seen = set()
        st = [self.entry.id if start is None else start]
        while st:
            i = st.pop()
            if i in seen:
                continue
            seen.add(i)
            st.extend(self.nodes[i].succ)
        return seen

    def reachable_from_succ(self, i):
        seen = set()
        st = list(self.nodes[i].succ)
        while st:
            x = st.pop()
            if x in seen:
                continue
            seen.add(x)
            st.extend(self.nodes[x].succ)
        return seen

    def preds(self):
        p = {n.id: [] for n in self.nodes}
        for n in self.nodes:
            for s in n.succ:
                p[s].append(n.id)
        return p

    def rpo(self):
        seen = set()
        order = []
        st = [(self.entry.id, iter(self.nodes[self.entry.id].succ))]
        seen.add(self.entry.id)
        while st:
            i, it = st[-1]
            adv = False
            for s in it:
                if s not in seen:
                    seen.add(s)
                    st.append((s, iter(self.nodes[s].succ)))
                    adv = True
                    break
            if not adv:
                order.append(i)
                st.pop()
        order.reverse()
        return order

    def dominators(self):
        """idom via Cooper-Harvey-Kennedy; returns dict node -> set of dominators (incl. itself)"""
        order = self.rpo()
        idx = {n: i for i, n in enumerate(order)}
        preds = self.preds()
        idom = {order[0]: order[0]}
        changed = True
        while changed:
            changed = False
            for b in order[1:]:
                ps = [p for p in preds[b] if p in idom]
                if not ps:
                    continue
                new = ps[0]
                for p in ps[1:]:
                    a, c = p, new
                    while a != c:
                        while idx[a] > idx[c]:
                            a = idom[a]
                        while idx[c] > idx[a]:
                            c = idom[c]
                    new = a
                if idom.get(b) != new:
                    idom[b] = new
                    changed = True
        dom = {}
        for b in order:
            s = {b}
            x = b
            while idom[x] != x:
                x = idom[x]
                s.add(x)
            dom[b] = s
        return dom

    def postdominators(self):
        """dict node -> set of post-dominators, w.r.t. a virtual exit joining all exit nodes"""
        reach = self.reachable()
        rev = CFG()
        for n in self.nodes:
            rev.new(n.kind, n.stmt, n.line)
        vexit = rev.new('vexit')
        for n in self.nodes:
            if n.id not in reach:
                continue
            if not n.succ:
                rev.nodes[vexit.id].succ.append(n.id)
            for s in n.succ:
                rev.nodes[s].succ.append(n.id)
        rev.entry = vexit
        d = rev.dominators()
        return {k: {x for x in v if x != vexit.id} for k, v in d.items() if k != vexit.id}


class Builder:
    def __init__(self):
        self.g = CFG()
        self.labels = {}
        self.pending = []       # (node, slot_index, label)
        self.loopstack = []     # (continue_target_placeholder, break_list)

    def build(self, tree):
        g = self.g
        g.entry = g.new('entry')
        outs = self.seq(tree, [(g.entry, None)])
        if outs:
            r = g.new('return', ('return', None, 0), 0)
            self.link(outs, r)
        for n, slot, lab in self.pending:
            if lab not in self.labels:
                raise AnalysisBroken('cfg: goto to unknown label %s' % lab)
            self._set(n, slot, self.labels[lab].id)
        return g

    # dangling out-edges are (node, slot) pairs; slot None = append
    def _set(self, n, slot, target):
        if slot is None:
            n.succ.append(target)
        else:
            n.succ[slot] = target

    def link(self, outs, node):
        for n, slot in outs:
            self._set(n, slot, node.id)

    def seq(self, stmts, outs):
        for s in stmts:
            outs = self.stmt(s, outs)
        return outs

    def stmt(self, s, outs):
        g = self.g
        k = s[0]
        l = s[-1] if isinstance(s[-1], int) else 0
        if k in ('assign', 'call', 'eval', 'io', 'other'):
            if not outs:
                return []          # unreachable straight-line code after goto/return: dropped
            n = g.new(k, s, l)
            self.link(outs, n)
            return [(n, None)]
        if k == 'label':
            n = g.new('nop', s, l)
            self.labels[s[1]] = n
            self.link(outs, n)
            return [(n, None)]
        if k == 'goto':
            if not outs:
                return []
            n = g.new('nop', s, l)
            self.link(outs, n)
            n.succ.append(-1)
            self.pending.append((n, 0, s[1]))
            return []
        if k == 'return':
            if not outs:
                return []
            n = g.new('return', s, l)
            self.link(outs, n)
            return []
        if k == 'throw':
            if not outs:
                return []
            n = g.new('throw', s, l)
            self.link(outs, n)
            return []
        if k == 'if':
            if not outs and not _has_label(s[2]) and not _has_label(s[3]):
                return []
            b = g.new('branch', ('branch', s[1], l), l)
            self.link(outs, b)
            b.succ = [-1, -1]
            t = self.seq(s[2], [(b, 0)])
            e = self.seq(s[3], [(b, 1)])
            return t + e
        if k == 'do':
            var, lo, hi, step, body = s[1], s[2], s[3], s[4], s[5]
            if not outs and not _has_label(body):
                return []
            init = g.new('assign', ('assign', var, lo, l), l)
            self.link(outs, init)
            test = g.new('branch', ('branch', ('op', '<=', var, hi), l), l)
            init.succ.append(test.id)
            test.succ = [-1, -1]
            inc = g.new('assign', ('assign', var, ('op', '+', var, step), l), l)
            inc.succ.append(test.id)
            brk = []
            self.loopstack.append((inc, brk))
            bo = self.seq(body, [(test, 0)])
            self.loopstack.pop()
            self.link(bo, inc)
            return [(test, 1)] + brk
        if k == 'loop':
            init, cond, step, body, post = s[1], s[2], s[3], s[4], s[5]
            if not outs and not _has_label(body):
                return []
            outs = self.seq(init, outs)
            test = g.new('branch', ('branch', cond, l), l)
            test.succ = [-1, -1]
            cont = g.new('nop', ('nop', 'continue', l), l)
            brk = []
            self.loopstack.append((cont, brk))
            if post:
                head = g.new('nop', ('nop', 'do', l), l)
                self.link(outs, head)
                bo = self.seq(body, [(head, None)])
                self.link(bo, cont)
                so = self.seq(step, [(cont, None)])
                self.link(so, test)
                self._set(test, 0, head.id)
            else:
                self.link(outs, test)
                bo = self.seq(body, [(test, 0)])
                self.link(bo, cont)
                so = self.seq(step, [(cont, None)])
                self.link(so, test)
            self.loopstack.pop()
            return [(test, 1)] + brk
        if k == 'break':
            if not outs:
                return []
            n = g.new('nop', s, l)
            self.link(outs, n)
            self.loopstack[-1][1].append((n, None))
            return []
        if k == 'continue':
            if not outs:
                return []
            n = g.new('nop', s, l)
            self.link(outs, n)
            n.succ.append(self.loopstack[-1][0].id)
            return []
        if k == 'switch':
            sel, body = s[1], s[2]
            head = g.new('nop', ('nop', 'switch', l), l)
            self.link(outs, head)
            brk = []
            self.loopstack.append((self.loopstack[-1][0] if self.loopstack else head, brk))
            # dispatch chain
            cases = [(i, c) for i, c in enumerate(body) if c[0] == 'case']
            entries = {}
            cur = []                  # fallthrough outs
            disp = [(head, None)]
            default = None
            for i, c in enumerate(body):
                if c[0] == 'case':
                    lab = g.new('nop', ('nop', 'case', c[-1]), c[-1])
                    self.link(cur, lab)
                    cur = [(lab, None)]
                    if c[1] is None:
                        default = lab
                    else:
                        b = g.new('branch', ('branch', ('op', '==', sel, c[1]), c[-1]), c[-1])
                        self.link(disp, b)
                        b.succ = [lab.id, -1]
                        disp = [(b, 1)]
                else:
                    cur = self.stmt(c, cur)
            self.loopstack.pop()
            if default is not None:
                self.link(disp, default)
                disp = []
            return cur + brk + disp
        if k == 'try':
            head = g.new('nop', ('nop', 'try', l), l)
            self.link(outs, head)
            o = self.seq(s[1], [(head, None)])
            for h in s[2]:
                hn = g.new('nop', ('nop', 'catch', l), l)
                head.succ.append(hn.id)
                o += self.seq(h, [(hn, None)])
            return o
        raise AnalysisBroken('cfg: unknown statement kind %s' % k)


def _has_label(stmts):
    for s in stmts:
        if s[0] == 'label':
            return True
        if s[0] == 'if' and (_has_label(s[2]) or _has_label(s[3])):
            return True
        if s[0] == 'do' and _has_label(s[5]):
            return True
        if s[0] == 'loop' and _has_label(s[4]):
            return True
        if s[0] == 'switch' and _has_label(s[2]):
            return True
        if s[0] == 'try' and (_has_label(s[1]) or any(_has_label(h) for h in s[2])):
            return True
    return False


def build(tree):
    return Builder().build(tree)


def compact(g, drop=('nop',)):
    """new CFG without nodes of the given kinds (edges re-routed), unreachable nodes removed"""
    def resolve(i, seen=None):
        seen = seen or set()
        while g.nodes[i].kind in drop and g.nodes[i].succ:
            if i in seen:
                return i          # empty infinite loop: keep the node
            seen.add(i)
            i = g.nodes[i].succ[0]
        return i
    reach = g.reachable()
    keep = [n for n in g.nodes if n.id in reach and (n.kind not in drop or not n.succ or n is g.entry)]
    # nodes that are part of a pure nop cycle and got returned by resolve
    extra = set()
    for n in g.nodes:
        if n.id in reach:
            for s in n.succ:
                r = resolve(s)
                if g.nodes[r].kind in drop and g.nodes[r].succ:
                    extra.add(r)
    ng = CFG()
    m = {}
    for n in g.nodes:
        if n.id in reach and (n in keep or n.id in extra):
            m[n.id] = ng.new(n.kind, n.stmt, n.line)
    for n in g.nodes:
        if n.id in m:
            m[n.id].succ = [m[resolve(s)].id for s in n.succ]
    ng.entry = m[g.entry.id]
    return ng
