"""Helpers over the d0ast JSON (C++ AST with resolved declarations)."""
from fractions import Fraction
import re


def walk(n):
    """pre-order over every dict node that has a 'k' (statements and expressions)"""
    stack = [n]
    while stack:
        x = stack.pop()
        if isinstance(x, dict):
            if 'k' in x:
                yield x
            for v in reversed(list(x.values())):
                if isinstance(v, (dict, list)):
                    stack.append(v)
        elif isinstance(x, list):
            for v in reversed(x):
                if isinstance(v, (dict, list)):
                    stack.append(v)


def children(n):
    for v in n.values():
        if isinstance(v, dict) and 'k' in v:
            yield v
        elif isinstance(v, list):
            for w in v:
                if isinstance(w, dict) and 'k' in w:
                    yield w


CALLS = ('Call', 'MCall', 'OpCall', 'Ctor', 'TempCtor')


def calls(n, qn=None):
    for x in walk(n):
        if x['k'] in CALLS and 'callee' in x:
            if qn is None or x['callee']['qn'] == qn:
                yield x


def callee(n):
    return n.get('callee', {}).get('qn') if n.get('k') in CALLS else None


def dec(spelling):
    """exact rational value of a C/Fortran numeric literal spelling"""
    s = spelling.strip().lower().rstrip('flu')
    s = s.replace('d', 'e')
    if s.startswith('0x'):
        return Fraction(int(s, 16))
    m = re.fullmatch(r'([+-]?)(\d*)\.?(\d*)(?:e([+-]?\d+))?', s)
    if not m:
        raise ValueError('bad literal ' + spelling)
    sign, ip, fp, ex = m.groups()
    if '.' in s or 'e' in s:
        v = Fraction(int((ip or '0') + (fp or '')), 10 ** len(fp or ''))
    else:
        v = Fraction(int(ip))
    if ex:
        v *= Fraction(10) ** int(ex)
    return -v if sign == '-' else v


def num_value(e):
    """exact value of a (possibly negated) literal expression, else None"""
    if e is None:
        return None
    if e['k'] == 'Num':
        return dec(e['v']) if 'macro' not in e else dec(e['v'])
    if e['k'] == 'Un' and e['op'] in '+-':
        v = num_value(e['e'])
        if v is None:
            return None
        return -v if e['op'] == '-' else v
    if e['k'] == 'Cast':
        return num_value(e['e'])
    return None


def find_fn_static(fn, name):
    for x in walk(fn['body']):
        if x['k'] == 'Decl':
            for v in x['vars']:
                if v['name'] == name:
                    return v
    return None


def src(e, depth=0):
    """compact source-like rendering of an expression (for messages)"""
    if e is None:
        return ''
    k = e.get('k')
    if k == 'Num':
        return e['v']
    if k == 'Str':
        return '"%s"' % e['v']
    if k == 'Chr':
        return repr(chr(e['v'])) if isinstance(e.get('v'), int) else repr(e.get('v'))
    if k == 'Bool':
        return 'true' if e['v'] else 'false'
    if k == 'Null':
        return 'nullptr'
    if k == 'Ref':
        return e['name']
    if k == 'This':
        return 'this'
    if k == 'Member':
        b = e.get('base')
        if b and b.get('k') == 'This' and b.get('implicit'):
            return e['name']
        return src(b) + ('->' if e.get('arrow') else '.') + e['name']
    if k == 'Bin':
        return '(%s %s %s)' % (src(e['a']), e['op'], src(e['b']))
    if k == 'Un':
        return ('%s%s' % (src(e['e']), e['op'])) if e.get('post') else ('%s%s' % (e['op'], src(e['e'])))
    if k == 'Call':
        name = e['callee']['qn'] if 'callee' in e else src(e.get('fn'))
        return '%s(%s)' % (name.split('::')[-1], ', '.join(src(a) for a in e['args']))
    if k == 'MCall':
        name = e['callee']['qn'].split('::')[-1] if 'callee' in e else '?'
        return '%s%s%s(%s)' % (src(e['obj']), '->' if e.get('arrow') else '.', name,
                               ', '.join(src(a) for a in e['args']))
    if k == 'OpCall':
        a = e['args']
        if e['op'] == '[]' and len(a) == 2:
            return '%s[%s]' % (src(a[0]), src(a[1]))
        if e['op'] == '()':
            return '%s(%s)' % (src(a[0]), ', '.join(src(x) for x in a[1:]))
        if len(a) == 2:
            return '(%s %s %s)' % (src(a[0]), e['op'], src(a[1]))
        if len(a) == 1:
            return '%s%s' % (e['op'], src(a[0]))
    if k in ('Ctor', 'TempCtor'):
        return '%s(%s)' % (e['ty'], ', '.join(src(a) for a in e['args']))
    if k == 'Cast':
        return '(%s)%s' % (e['ty'], src(e['e']))
    if k == 'Idx':
        return '%s[%s]' % (src(e['a']), src(e['i']))
    if k == 'Cond':
        return '(%s ? %s : %s)' % (src(e['c']), src(e['a']), src(e['b']))
    if k == 'DefaultArg':
        return src(e['e'])
    if k == 'Throw':
        return 'throw ' + src(e.get('e'))
    if k == 'InitList':
        return '{%s}' % ', '.join(src(a) for a in e['elts'])
    return '<%s>' % k


def is_this_member(e, name=None):
    """`name` or `this->name`"""
    if e and e.get('k') == 'Member' and e.get('base', {}).get('k') == 'This':
        return name is None or e['name'] == name
    return False


def strip_casts(e):
    while e is not None and e.get('k') in ('Cast', 'DefaultArg'):
        e = e['e']
    return e


def root_of(e):
    """Member/Idx chain root that is a data member of *this"""
    x = e
    while x is not None:
        k = x.get('k')
        if k == 'Member' and x.get('dk') == 'field':
            return x
        if k == 'Idx':
            x = x['a']
        elif k == 'OpCall' and x['op'] == '[]':
            x = x['args'][0]
        else:
            return None
    return None
