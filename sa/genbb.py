"""GENBBsub adapter: specialise the reference dispatch routine and the port's genbbsub with respect to a
published name (and optionally level/mode) by constant propagation, and compare the residual programs."""
from fractions import Fraction

from . import cfg as cfgm, cpp2ir, f77, ir, sccp, tv, tvrun
from .project import AnalysisBroken

F_EMASS = None
# reference COMMON blocks that only serve the stand-alone program's file output / run bookkeeping, which the
# port documents as not ported ("The code for output ASCII file has not been ported in C++")
NOT_PORTED_COMMONS = ('genbbpar', 'currentev', 'slate', 'artificial')


def _emass(units):
    """literal of the electron mass in the reference's BLOCK DATA"""
    for u in units.values():
        for name, val, line in u.data:
            if name == 'emass':
                return ('num', ir.dec(val))
    raise AnalysisBroken('reference: data emass/../ not found')


class Dispatch:
    def __init__(self, prog, units, sigs):
        self.prog, self.units, self.sigs = prog, units, sigs
        self.u = units['genbbsub']
        self.fn = prog.fn('bxdecay0::genbbsub')
        self.emass = _emass(units)
        self.port_names = set(tvrun.cpp_candidates(prog))
        self._build()

    def _build(self):
        u, fn = self.u, self.fn
        common = {v for vs in u.commons.values() for v in vs}
        self.sf = tv.Side('f', u.name, u.params, u.arrays, common, None)
        self.gf0 = tv.rewrite_cfg(cfgm.build(list(u.body)), self.sf)
        ctree, self.lo = cpp2ir.lower_function(fn, self.sigs)
        # file-local helpers of genbbsub.cc that are not the port of a reference unit are expanded at their call sites
        mapped = {id(f) for fs in tvrun.cpp_candidates(self.prog).values() for f in fs}
        helpers = {f['name']: f for f in self.prog.functions.values()
                   if f.get('file') == fn.get('file') and f is not fn and not f.get('method') and
                   (id(f) not in mapped or f['name'].lower() not in self.units)}
        helpers = {k: v for k, v in helpers.items() if k.lower() not in self.units and ('decay0_' + k).lower() not in self.units}
        if helpers:
            ctree = tvrun.inline_helpers(ctree, helpers, self.sigs)
        self.sc = tv.Side('c', fn['name'], [p['name'] for p in fn['params']])
        self.gc0 = tv.rewrite_cfg(cfgm.build(ctree), self.sc)
        self.gf0 = cfgm.compact(self.gf0, drop=('nop', 'io'))
        self.gc0 = cfgm.compact(self.gc0, drop=('nop', 'io'))
        self.fparams = [self.sf.var(p)[1] for p in u.params]
        self.cparams = [self.sc.var(p['name'])[1] for p in fn['params']
                        if p['ty'] not in cpp2ir.CTX_TYPES and p['name'] != '']
        self.finputs = set(self.fparams) | {self.sf.var(v)[1] for v in common} | {s.lower() for s in u.saves}
        notported = {self.sf.var(v)[1] for b in NOT_PORTED_COMMONS for v in u.commons.get(b, [])}
        self.fcommon = {self.sf.var(v)[1] for v in common} - notported
        consts = {'$emass': self.emass}
        self.evf = sccp.Evaluator('f', consts)
        from .minieval import Mini
        nsw = Mini(self.prog.fn('bxdecay0::name_starts_with'))
        # the port's prefix helper is folded from its own body (not assumed to be a prefix test)
        chelpers = {'name_starts_with': nsw.call}
        # pure file-local predicates of genbbsub.cc (extracted by a refactor) are folded from their own bodies on constant arguments
        mapped = {id(f) for fs in tvrun.cpp_candidates(self.prog).values() for f in fs}
        for f in self.prog.functions.values():
            if f.get('file') == self.fn.get('file') and f is not self.fn and not f.get('method') and id(f) not in mapped and \
                    f.get('ret', f.get('ty', '')) != 'void' and all(p['ty'].replace('const ', '').strip() in ('int', 'bool', 'double', 'std::string &', 'std::string')
                                                                     or 'string' in p['ty'] for p in f['params']):
                chelpers.setdefault(f['name'], Mini(f).call)
        self.evc = sccp.Evaluator('c', consts, helpers=chelpers)

    def residual(self, side, env):
        g = self.gf0 if side == 'f' else self.gc0
        ev = self.evf if side == 'f' else self.evc
        lang = side
        e0 = {}
        for k, v in env.items():
            e0[k] = ('str', v) if isinstance(v, str) else ('num', Fraction(v))
        return sccp.specialise(g, e0, ev, lambda callee, pos: tv._maywrite(lang, callee, pos))




def _effect_free(u):
    from .tvcheck import is_effect_free
    return is_effect_free(u)


def _fclob(D):
    """reference: a called unit may change any COMMON variable"""
    units = D.units
    return lambda callee: D.fcommon if callee in units else ()


def _cclob(D):
    """port: decay0_bb receives the parameter struct"""
    return lambda callee: D.sc.fld_vars if callee == 'bb' else ()


def _cenv(env):
    return {k: (('str', v) if isinstance(v, str) else ('num', Fraction(v))) for k, v in env.items()}


COUNT = ('var', '$nparticles')
FIRST_ALPHA = ('op', 'first_is_alpha')


def _chain_idioms(g, lang, record):
    """daughter chaining: `npfull0 = npfull ... ptime(npfull0+1) = ptime(npfull0+1) + tdnuc1` (reference, incremental
    times) and `npfull0 = size(); ... shift_particles_time(tdnuc1, npfull0)` (port, absolute times: documented
    admissible difference) both become  call shift(t, npfull0);  `npgeant(1).ne.47` = `!front().is_alpha()`"""
    one = ('num', Fraction(1))
    for n in g.nodes:
        if n.stmt is None:
            continue
        if lang == 'f':
            if n.kind == 'assign' and n.stmt[2] == ('var', 'npfull'):
                n.stmt = ('assign', n.stmt[1], COUNT, n.stmt[3])
            elif n.kind == 'assign' and n.stmt[1][0] == 'idx' and n.stmt[1][1] == 'ptime':
                tgt = n.stmt[1]
                r = n.stmt[2]
                if r[0] == 'op' and r[1] == '+' and len(r) == 4 and tgt in r[2:]:
                    t = r[3] if r[2] == tgt else r[2]
                    idx = tgt[2]
                    if idx[0] == 'op' and idx[1] == '+' and one in idx[2:] and len(idx) == 4:
                        base = idx[3] if idx[2] == one else idx[2]
                        n.kind = 'call'
                        n.stmt = ('call', 'shift', (t, base), n.stmt[3])
                        record.append(('absolute-times', n.line, 'ptime(n0+1) += t  ==  shift_particles_time(t, n0)'))
            if n.kind == 'branch':
                def f(x):
                    if x[0] == 'op' and x[1] in ('!=', '==') and len(x) == 4 and ('num', Fraction(47)) in x[2:] and \
                            ('idx', 'npgeant', one) in x[2:]:
                        return FIRST_ALPHA if x[1] == '==' else ('op', 'not', FIRST_ALPHA)
                    return x
                n.stmt = ('branch', ir.map_expr(f, n.stmt[1]), n.stmt[2])
        else:
            def g2(x):
                if x[0] == 'call' and x[1] == 'size' and len(x) == 3 and x[2][0] == 'call' \
                        and x[2][1] == 'event::get_particles':
                    return COUNT
                if x[0] == 'call' and x[1] == 'particle::is_alpha' and len(x) == 3 and x[2][0] == 'call' \
                        and x[2][1] == 'front':
                    return FIRST_ALPHA
                return x
            if n.kind in ('assign', 'branch', 'call', 'eval', 'return'):
                tv._rewrite_node(n, lambda e: ir.map_expr(g2, e))
            if n.kind == 'call' and n.stmt[1] == 'event::shift_particles_time' and len(n.stmt[2]) == 3:
                n.stmt = ('call', 'shift', n.stmt[2][1:], n.stmt[3])


def prepare(D, env):
    """stage 1: specialise both routines on (i2bbs, name, istart); apply the documented adapters.
    -> dict(gf, gc, fout, cout, links, record)"""
    record = []
    envf = dict(env)
    envf.setdefault('iwrfile', 0)
    envf['chnuclide'] = env['chnuclide'].split('+')[0]      # the reference knows the nuclide, not its daughters
    envf.setdefault('chfile', 'no file')                    # state left by the initialisation call (no file output)
    gf = sccp.specialise(D.gf0, _cenv(envf), D.evf, lambda c, p: tv._maywrite('f', c, p), nofold_calls=('bb',),
                         clobber=_fclob(D))
    gc = sccp.specialise(D.gc0, _cenv(env), D.evc, lambda c, p: tv._maywrite('c', c, p), nofold_calls=('bb',),
                         clobber=_cclob(D))
    u = D.u
    bbu = D.units['bb']
    bbp = [p.lower() for p in bbu.params]
    links = []
    for n in list(gf.nodes):
        if n.kind == 'call' and n.stmt[1] == 'bb' and n.stmt[2]:
            pre = []
            for pname, a in zip(bbp, n.stmt[2]):
                if a[0] == 'var':
                    links.append((a[1], '.' + pname))
                elif env.get('istart') != 1:
                    pre.append(('assign', ('var', '.' + pname), a, n.stmt[3]))
                # in a generate-only call the port relies on the field stored at initialisation (checked there)
            call = ('call', 'bb', (), n.stmt[3])
            if pre:
                succ = list(n.succ)
                n.kind, n.stmt = 'assign', pre[0]
                last = n
                for st in pre[1:]:
                    x = gf.new('assign', st, n.line)
                    last.succ = [x.id]
                    last = x
                c = gf.new('call', call, n.line)
                last.succ = [c.id]
                c.succ = succ
            else:
                n.stmt = call
    for n in gf.nodes:
        if n.kind == 'call' and n.stmt[1] in D.units and n.stmt[1] not in D.port_names \
                and _effect_free(D.units[n.stmt[1]]):
            record.append(('effect-free-unit', n.line, 'call %s(...) does nothing in the reference' % n.stmt[1]))
            n.kind = 'nop'
    _chain_idioms(gf, 'f', record)
    _chain_idioms(gc, 'c', record)
    for n in gf.nodes:
        if n.kind == 'assign' and n.stmt[1] == ('var', 'npfull') and n.stmt[2] == ('num', Fraction(0)):
            n.kind = 'nop'
            record.append(('event-reset-by-caller', n.line, 'npfull = 0'))
        elif n.kind == 'assign' and n.stmt[1] == ('var', 'tevst'):
            if n.stmt[2] != ('num', Fraction(0)):
                record.append(('reference-time-forced-to-zero', n.line, 'tevst = %s' % ir.fmt(n.stmt[2])))
            n.kind = 'call'
            n.stmt = ('call', 'event::set_time', (('var', 'event'), ('num', Fraction(0))), n.stmt[3])
    for n in gc.nodes:
        if n.kind == 'assign' and n.stmt[1] == ('var', '.modebb') and n.stmt[2] == ('var', 'modebb'):
            n.kind = 'nop'           # parameter-struct mirror of the by-value argument
            record.append(('mirror-store', n.line, '.modebb = modebb'))
            for x in gc.nodes:
                if x is not n and x.stmt is not None and x.kind in ('assign', 'call', 'branch', 'eval', 'return'):
                    tv._rewrite_node(x, lambda e: ir.map_expr(
                        lambda y: ('var', 'modebb') if y == ('var', '.modebb') else y, e))
        if n.kind == 'call' and n.stmt[1] == 'event::set_generator':
            n.kind = 'nop'
            record.append(('port-only-call', n.line, 'event.set_generator(name)'))
    common = {v for vs in u.commons.values() for v in vs}
    notported = {D.sf.var(v)[1] for b in NOT_PORTED_COMMONS for v in u.commons.get(b, [])}
    fout = (set(D.fparams) | {D.sf.var(v)[1] for v in common} | {s.lower() for s in u.saves}) - notported
    fout |= {'.' + p for p in bbp} | {'prng', 'event'}
    cpar = [p for p in D.fn['params'] if p['ty'] not in cpp2ir.CTX_TYPES and p['name'] != '']
    for fp, cp in zip(D.fparams, cpar):
        if cp['pm'] in ('v', 'cref', 'cptr'):
            fout.discard(fp)
    shared = {'.' + v for v in fout} | {'.' + p for p in bbp}
    cout = (set(D.cparams) | (D.sc.fld_vars & shared) | {'prng', 'event'}) - {'.modebb'}
    return dict(gf=cfgm.compact(gf, drop=('nop', 'io')), gc=cfgm.compact(gc, drop=('nop', 'io')), fout=fout, cout=cout,
                links=links, record=record)


def compare_point(D, prep, ilevel, modebb):
    """stage 2: fix (level, mode) as well; both residuals become (nearly) straight-line; compare their symbolic
    path summaries: statement-level calls in order, final values of the shared outputs"""
    env2 = _cenv({'ilevel': ilevel, 'modebb': modebb})
    gf = sccp.specialise(prep['gf'], env2, D.evf, lambda c, p: tv._maywrite('f', c, p), nofold_calls=('bb',),
                         clobber=_fclob(D))
    gc = sccp.specialise(prep['gc'], env2, D.evc, lambda c, p: tv._maywrite('c', c, p), nofold_calls=('bb',),
                         clobber=_cclob(D))
    fout, cout = prep['fout'], prep['cout']
    gf = tv.normalise_cfg(gf, fout, [], lang='f')
    gc = tv.normalise_cfg(gc, cout, [], lang='c')
    ps = tv.compare_path_summaries(gf, gc, [], [], fout, cout)
    if ps is None:
        raise AnalysisBroken('genbbsub residual for level %s mode %s is not loop-free' % (ilevel, modebb))
    return ps, gf, gc


def compare(D, env, record=None):
    """-> tvrun.Result for the residual programs under `env`"""
    record = record if record is not None else []
    envf = dict(env)
    envf.setdefault('iwrfile', 0)
    gf = sccp.specialise(D.gf0, {k: (('str', v) if isinstance(v, str) else ('num', Fraction(v))) for k, v in envf.items()},
                         D.evf, lambda c, p: tv._maywrite('f', c, p), nofold_calls=('bb',))
    gc = sccp.specialise(D.gc0, {k: (('str', v) if isinstance(v, str) else ('num', Fraction(v))) for k, v in env.items()},
                         D.evc, lambda c, p: tv._maywrite('c', c, p), nofold_calls=('bb',))
    u = D.u
    # bb's arguments: plain variables correspond to fields of the parameter struct; expressions become field stores
    bbu = D.units['bb']
    bbp = [p.lower() for p in bbu.params]
    links = []
    for n in list(gf.nodes):
        if n.kind == 'call' and n.stmt[1] == 'bb' and n.stmt[2]:
            pre = []
            for pname, a in zip(bbp, n.stmt[2]):
                if a[0] == 'var':
                    links.append((a[1], '.' + pname))
                elif env.get('istart') != 1:
                    pre.append(('assign', ('var', '.' + pname), a, n.stmt[3]))
                # in a generate-only call the port relies on the field stored at initialisation (checked there)
            call = ('call', 'bb', (), n.stmt[3])
            if pre:
                # n becomes the first store; chain the rest and the call after it
                succ = list(n.succ)
                n.kind, n.stmt = 'assign', pre[0]
                last = n
                for st in pre[1:]:
                    x = gf.new('assign', st, n.line)
                    last.succ = [x.id]
                    last = x
                c = gf.new('call', call, n.line)
                last.succ = [c.id]
                c.succ = succ
            else:
                n.stmt = call
    # event bookkeeping: the caller resets the event in the port (npfull=0 has no counterpart); the reference
    # time `tevst` is forced to 0 in the port (documented admissible difference)
    for n in gf.nodes:
        if n.kind == 'call' and n.stmt[1] in D.units and n.stmt[1] not in D.port_names \
                and _effect_free(D.units[n.stmt[1]]):
            record.append(('effect-free-unit', n.line, 'call %s(...) does nothing in the reference' % n.stmt[1]))
            n.kind = 'nop'
    _chain_idioms(gf, 'f', record)
    _chain_idioms(gc, 'c', record)
    for n in gf.nodes:
        if n.kind == 'assign' and n.stmt[1] == ('var', 'npfull') and n.stmt[2] == ('num', Fraction(0)):
            n.kind = 'nop'
            record.append(('event-reset-by-caller', n.line, 'npfull = 0'))
        elif n.kind == 'assign' and n.stmt[1] == ('var', 'tevst'):
            if n.stmt[2] != ('num', Fraction(0)):
                record.append(('reference-time-forced-to-zero', n.line, 'tevst = %s' % ir.fmt(n.stmt[2])))
            n.kind = 'call'
            n.stmt = ('call', 'event::set_time', (('var', 'event'), ('num', Fraction(0))), n.stmt[3])
    common = {v for vs in u.commons.values() for v in vs}
    notported = {D.sf.var(v)[1] for b in NOT_PORTED_COMMONS for v in u.commons.get(b, [])}
    fout = (set(D.fparams) | {D.sf.var(v)[1] for v in common} | {s.lower() for s in u.saves}) - notported
    fout |= {'.' + p for p in bbp}
    # by-value parameters of the port are not outputs on either side
    cpar = [p for p in D.fn['params'] if p['ty'] not in cpp2ir.CTX_TYPES and p['name'] != '']
    for fp, cp in zip(D.fparams, cpar):
        if cp['pm'] in ('v', 'cref', 'cptr'):
            fout.discard(fp)
    # a field of the port's parameter struct is shared state only if the reference keeps the like-named
    # variable in COMMON/SAVE; otherwise (itrans02, ...) it is a local on both sides
    shared = {'.' + v for v in fout} | {'.' + p for p in bbp}
    cout = set(D.cparams) | (D.sc.fld_vars & shared) | {'prng', 'event'}
    r = tvrun.Result()
    r.admissible += record
    finputs = D.finputs | fout
    gf = tv.split_webs(cfgm.compact(gf, drop=('nop', 'io')), fout | set(D.fparams), 'f', r.admissible, inputs=finputs)
    gc = cfgm.compact(gc, drop=('nop', 'io'))
    uz = tv.uninit_zero_stores(gc, cout)
    gc = tv.split_webs(gc, cout | set(D.cparams), 'c')
    gf = tv.normalise_cfg(gf, fout, [], lang='f')
    gc = tv.normalise_cfg(gc, cout, [], lang='c')
    b = tv.Bisim(gf, gc, D.fparams, D.cparams[:len(D.fparams)])
    b.admissible_zero_init = {(D.sc.var(n)[1], l) for n, l in D.lo.decl_zero} | uz
    b.fout, b.cout = fout, cout
    b.admissible_mirror = {('.modebb', 'modebb')}
    b.admissible_port_calls = {'event::set_generator'}     # the port labels the event with the requested name
    b.run()
    r.gf, r.gc, r.mism, r.nodes, r.bind = gf, gc, b.mism, b.nodes_compared, dict(b.f2c)
    r.admissible += b.admissible_used
    for fv, cv in links:
        got = b.f2c.get(fv)
        if got is not None and got != cv and (cv, got) not in b.admissible_mirror:
            m = tv.Mismatch('link', None, None, 'argument `%s` of bb is passed through field `%s` in the port, '
                            'but the rest of the routine pairs it with `%s`' % (fv, cv, got))
            r.mism.append(m)
    return r


# ------------------------------------------------------------------------------------------ grid driver
_D = None


def _work(job):
    i2bbs, name, istart, levels, modes = job
    D = _D
    out = {'name': name, 'i2bbs': i2bbs, 'istart': istart, 'points': 0, 'mism': {}, 'accept': [], 'record': [],
           'calls': None, 'error': None, 'reject_calls': [], 'levele': {}}
    try:
        prep = prepare(D, {'i2bbs': i2bbs, 'chnuclide': name, 'istart': istart})
        out['record'] = sorted({(k, d) for k, l, d in prep['record']})
        # port side of the stage-1 residual: scheme calls on any path, deviates consumed outside calls
        out['port_calls'] = [(n.stmt[1], n.line) for n in prep['gc'].nodes if n.kind == 'call']
        out['port_draws'] = [n.line for n in prep['gc'].nodes if n.stmt is not None and n.kind in
                             ('assign', 'branch', 'call', 'eval', 'return') and
                             sum(ir.count_draws(e) for e in tv._stmt_exprs(n))]
        for lev in levels:
            for mode in modes:
                ps, gf, gc = compare_point(D, prep, lev, mode)
                out['points'] += 1
                if ps[0]:
                    for m in ps[0]:
                        out['mism'].setdefault(m.msg, []).append((lev, mode, m.lines()))
                accs = []
                for g_, fo, lg in ((gf, prep['fout'], 'f'), (gc, prep['cout'], 'c')):
                    paths = tv.path_summaries(g_, fo, lg)
                    acc = None
                    if paths is not None:
                        vals = set()
                        for pth in paths:
                            if tv.prune_conditions(pth[0]) is None:
                                continue
                            for o in pth[2]:
                                if o[2] == ('var', 'ier') and o[3][0] == 'num':
                                    vals.add(int(o[3][1]) == 0)
                        if len(vals) == 1:
                            acc = vals.pop()
                        if lg == 'f' and out['calls'] is None and acc and len(paths) == 1:
                            out['calls'] = [ir.fmt(c) for c in paths[0][1]]
                    accs.append(acc)
                out['accept'].append((lev, mode, accs[0], accs[1]))
                if paths is not None:          # `paths` is the port side here
                    for pth in paths:
                        if tv.prune_conditions(pth[0]) is None:
                            continue
                        if accs[1] is False and pth[1]:
                            out['reject_calls'].append((lev, mode, [ir.fmt(c) for c in pth[1]]))
                        if True:       # the level energy is tabulated whenever the level index passed the bound check
                            for o in pth[2]:
                                if o[2] == ('var', '.levele') and o[3][0] == 'num':
                                    out['levele'][lev] = int(o[3][1])
    except AnalysisBroken as e:
        out['error'] = str(e)
    return out


def grid(D, dbd_names, bkg_names, levels, modes, procs=16):
    """-> list of per-(category, name, stage) results"""
    global _D
    _D = D
    jobs = []
    for nm in dbd_names:
        jobs.append((1, nm, -1, levels, modes))
        jobs.append((1, nm, 1, [0], [1]))
        jobs.append((1, nm, 0, [0], [1]))        # `initialise and generate one event` in one call (istart = 0)
    for nm in bkg_names:
        jobs.append((2, nm, -1, [-1], [-1]))     # the generator passes level -1, mode -1 for background requests
        jobs.append((2, nm, 1, [-1], [-1]))
        jobs.append((2, nm, 0, [-1], [-1]))
    import multiprocessing as mp
    ctx = mp.get_context('fork')
    with ctx.Pool(procs) as pool:
        return pool.map(_work, jobs, chunksize=1)
