"""Parsers for the repository's documentation and catalogue files (README.rst, *.lis)."""
import os
import re

from .project import REPO, AnalysisBroken


def readme():
    return open(os.path.join(REPO, 'README.rst'), encoding='utf-8', errors='replace').read().split('\n')


def _section(lines, title):
    """lines of the section whose title line equals `title` (until the next underlined title)"""
    for i, l in enumerate(lines):
        if l.strip() == title and i + 1 < len(lines) and re.fullmatch(r'[-=~]{4,}', lines[i + 1].strip() or 'x'):
            out = []
            j = i + 2
            while j < len(lines):
                if j + 1 < len(lines) and re.fullmatch(r'[-=~]{4,}', lines[j + 1].strip() or 'x') and lines[j].strip():
                    break
                out.append((j + 1, lines[j]))
                j += 1
            return out
    raise AnalysisBroken('README.rst: section "%s" not found' % title)


def bullet_names(sec):
    out = []
    for no, l in sec:
        m = re.match(r'^\* ``([^`]+)``', l)
        if m:
            out.append((m.group(1), no))
    return out


def readme_dbd_isotopes():
    return bullet_names(_section(readme(), 'List of supported  double beta decay isotopes'))


def readme_background_isotopes():
    return bullet_names(_section(readme(), 'List of standard radioactive isotopes (background/calibration)'))


def readme_levels():
    """{isotope: [(index, spin, keV, line)]} from 'List of daughter nucleus excited states in double beta decay'"""
    sec = _section(readme(), 'List of daughter nucleus excited states in double beta decay')
    out = {}
    cur = None
    for no, l in sec:
        m = re.match(r'^\* ``([^`]+)`` *-> *``([^`]+)``', l)
        if m:
            cur = m.group(1)
            out[cur] = []
            continue
        m = re.match(r'^\s+(\d+)\. *(\S+) *(?:\(([^)]*)\))? *[{(]([0-9.]+) MeV[})]', l)
        if m and cur:
            from fractions import Fraction
            out[cur].append((int(m.group(1)), m.group(2), Fraction(m.group(4)) * 1000, no))
        elif cur and re.match(r'^\s+\d+\.', l):
            raise AnalysisBroken('README.rst:%d: level row not understood: %s' % (no, l.strip()))
    return out


def readme_modes():
    """[(enumerator, label, legacy, line)] from the mode table"""
    sec = _section(readme(), 'List of supported double beta decay modes')
    out = []
    for no, l in sec:
        m = re.match(r'^``(DBDMODE_\w+)`` +``([^`]+)`` +(\S+)', l)
        if m:
            out.append((m.group(1), m.group(2), m.group(3), no))
    return out


def lis(rel):
    """[(first word, rest, line)] of a catalogue file, with the shipped parser's rules (first word; '#' comments)"""
    p = os.path.join(REPO, rel)
    out = []
    for no, l in enumerate(open(p), 1):
        w = l.split()
        if not w or w[0].startswith('#'):
            continue
        out.append((w[0], w[1:], no))
    return out
