"""Sparse conditional constant propagation over the common-IR CFG, and residual-program construction.

Used to specialise the two dispatch functions (reference GENBBsub / port genbbsub) with respect to a
published nuclide name and configuration: pure constant evaluation of predicates on literals - no code of
/repo is compiled or run.
"""
from fractions import Fraction

from . import cfg as cfgm
from . import ir

TOP = ('top',)        # no information yet
BOT = ('bot',)        # not a constant


def is_const(v):
    return v is not None and v[0] in ('num', 'str')


def _num(v):
    return ('num', Fraction(v))


def fstr_eq(a, b):
    """Fortran character comparison: the shorter operand is blank-padded"""
    return a.rstrip(' ') == b.rstrip(' ')


class Evaluator:
    def __init__(self, lang, consts=None, helpers=None):
        self.lang = lang
        self.consts = consts or {}
        self.helpers = helpers or {}      # callee name -> python callable folding the helper on constants
        self._memo = {}
        self.tables = {}                  # name of a write-once literal array -> list of constants (see `literal_tables`)

    def ev(self, e, env):
        """-> constant expression, or None"""
        k = e[0]
        if k in ('num', 'str'):
            return ('num', e[1]) if k == 'num' else e
        if k == 'idx' and len(e) == 3 and e[1] in self.tables:
            i = self.ev(e[2], env)
            # subscripts are 1-based in the common IR (tv.Side.rw shifts the port's 0-based subscripts)
            if i is not None and i[0] == 'num' and i[1].denominator == 1 and 1 <= i[1] <= len(self.tables[e[1]]):
                return self.tables[e[1]][int(i[1]) - 1]
            return None
        if k == 'var':
            v = env.get(e[1])
            if v is not None and is_const(v):
                return v
            c = self.consts.get(e[1])
            return c
        if k == 'call':
            name = e[1]
            args = [self.ev(a, env) for a in e[2:]]
            if name in self.helpers and all(a is not None for a in args):
                key = (name,) + tuple(args)
                if key not in self._memo:
                    r = self.helpers[name](*[a[1] if a[0] == 'str' else (int(a[1]) if a[1].denominator == 1
                                                                         else float(a[1])) for a in args])
                    if isinstance(r, bool) or isinstance(r, int):
                        self._memo[key] = _num(int(r))
                    elif isinstance(r, str):
                        self._memo[key] = ('str', r)
                    else:
                        self._memo[key] = None
                return self._memo[key]
            return None
        if k != 'op':
            return None
        op = e[1]
        if op == 'and':
            vals = [self.ev(a, env) for a in e[2:]]
            if any(v is not None and v[0] == 'num' and v[1] == 0 for v in vals):
                return _num(0)
            if all(v is not None and v[0] == 'num' for v in vals):
                return _num(1)
            return None
        if op == 'or':
            vals = [self.ev(a, env) for a in e[2:]]
            if any(v is not None and v[0] == 'num' and v[1] != 0 for v in vals):
                return _num(1)
            if all(v is not None and v[0] == 'num' for v in vals):
                return _num(0)
            return None
        if op == '?:' and len(e) == 5:
            c = self.ev(e[2], env)
            if c is not None and c[0] == 'num':
                return self.ev(e[3] if c[1] != 0 else e[4], env)
            return None
        args = [self.ev(a, env) for a in e[2:]]
        if op == 'substr':
            s, lo, hi = args[0], (args[1] if len(args) > 1 else None), (args[2] if len(args) > 2 else None)
            if s and s[0] == 'str' and lo and hi and lo[0] == 'num' and hi[0] == 'num':
                t = s[1].ljust(int(hi[1]))
                return ('str', t[int(lo[1]) - 1:int(hi[1])])
            return None
        if any(a is None for a in args):
            return None
        if op == 'not':
            return _num(0 if args[0][1] != 0 else 1)
        if op in ('==', '!=', '<', '<=', '>', '>='):
            a, b = args
            if a[0] == 'str' and b[0] == 'str':
                if op in ('==', '!='):
                    eq = fstr_eq(a[1], b[1]) if self.lang == 'f' else a[1] == b[1]
                    return _num(1 if (eq == (op == '==')) else 0)
                return None
            if a[0] != 'num' or b[0] != 'num':
                return None
            r = {'==': a[1] == b[1], '!=': a[1] != b[1], '<': a[1] < b[1], '<=': a[1] <= b[1],
                 '>': a[1] > b[1], '>=': a[1] >= b[1]}[op]
            return _num(1 if r else 0)
        if any(a[0] != 'num' for a in args):
            return None
        v = [a[1] for a in args]
        try:
            if op == '+':
                return _num(sum(v))
            if op == '*':
                p = Fraction(1)
                for x in v:
                    p *= x
                return _num(p)
            if op == '-' and len(v) == 2:
                return _num(v[0] - v[1])
            if op == 'neg':
                return _num(-v[0])
            if op == '/' and v[1] != 0:
                return _num(v[0] / v[1])
            if op == 'idiv' and v[1] != 0:
                q = v[0] / v[1]
                import math
                return _num(Fraction(math.trunc(q)))
            if op == 'max':
                return _num(max(v))
            if op == 'min':
                return _num(min(v))
            if op == 'abs':
                return _num(abs(v[0]))
            if op == 'int':
                return _num(int(v[0]))
            if op == 'real':
                return _num(v[0])
            if op == 'nint':
                x = v[0]
                return _num(int(x + Fraction(1, 2)) if x >= 0 else -int(-x + Fraction(1, 2)))
            if op == '**' and v[1].denominator == 1 and abs(v[1]) < 64:
                return _num(v[0] ** int(v[1]))
        except (ZeroDivisionError, OverflowError):
            return None
        return None


def meet(a, b):
    if a == TOP:
        return b
    if b == TOP:
        return a
    if a == b:
        return a
    return BOT


def literal_tables(g):
    """arrays defined once by a brace list of literals and never stored into nor handed to a call (`static const int t[] = {..}`):
    name -> [constants]; a subscript with a constant index folds to the element (C side only; 1-based in the common IR)"""
    defs, dirty = {}, set()
    for n in g.nodes:
        s = n.stmt
        if n.kind == 'assign':
            l = s[1]
            if l[0] == 'var':
                if s[2][0] == 'op' and s[2][1] == 'list' and all(x[0] == 'num' for x in s[2][2:]) and l[1] not in defs:
                    defs[l[1]] = [('num', x[1]) for x in s[2][2:]]
                else:
                    dirty.add(l[1])
            elif l[0] == 'idx':
                dirty.add(l[1])
        exprs = []
        if n.kind == 'call':
            exprs = list(s[2])
            for a in s[2]:
                if a[0] == 'var':
                    dirty.add(a[1])
        elif s is not None:
            exprs = [x for x in s[1:] if isinstance(x, tuple)]
        for e in exprs:
            for x in ir.subexprs(e):
                if x[0] == 'call':
                    for a in x[2:]:
                        if isinstance(a, tuple) and a and a[0] == 'var':
                            dirty.add(a[1])
    return {k: v for k, v in defs.items() if k not in dirty}


def specialise(g, env0, ev, maywrite, keep_consts=(), nofold_calls=(), clobber=None):
    """SCCP with the given entry environment {var: const}.  Returns the residual CFG: only executable nodes,
    constants substituted and folded, decided branches removed.  `maywrite(callee, pos)` tells which by-ref
    arguments a call can change."""
    if ev.lang == 'c':
        ev.tables = dict(ev.tables)
        ev.tables.update(literal_tables(g))
    n = len(g.nodes)
    IN = [None] * n           # None = not reached; else dict var -> const | BOT
    work = [(g.entry.id, dict(env0))]
    exec_edges = set()

    def flow(node, env):
        """-> list of (succ, env_out)"""
        k = node.kind
        s = node.stmt
        out = env
        if k == 'assign':
            l = s[1]
            if l[0] == 'var':
                v = ev.ev(s[2], env)
                out = dict(env)
                out[l[1]] = v if v is not None else BOT
            # array element stores do not change scalar knowledge
        elif k == 'call':
            out = dict(env)
            for i, a in enumerate(s[2]):
                if a[0] == 'var' and maywrite(s[1], i):
                    out[a[1]] = BOT
            if clobber is not None:
                for v in clobber(s[1]):
                    out[v] = BOT
        elif k == 'branch':
            c = ev.ev(s[1], env)
            if c is not None and c[0] == 'num':
                t = node.succ[0] if c[1] != 0 else node.succ[1]
                return [(t, env)]
            return [(x, env) for x in node.succ]
        # expression-level calls may write by-ref arguments too
        if k in ('assign', 'branch', 'eval', 'return') and s is not None:
            exprs = [s[2]] if k == 'assign' else ([s[1]] if s[1] is not None else [])
            for e in exprs:
                for x in ir.subexprs(e):
                    if x[0] == 'call':
                        for i, a in enumerate(x[2:]):
                            if a[0] == 'var' and maywrite(x[1], i):
                                if out is env:
                                    out = dict(env)
                                out[a[1]] = BOT
                        if clobber is not None:
                            for v in clobber(x[1]):
                                if out is env:
                                    out = dict(env)
                                out[v] = BOT
        return [(x, out) for x in node.succ]

    while work:
        i, env = work.pop()
        old = IN[i]
        if old is None:
            new = dict(env)
        else:
            new = {}
            for v in set(old) | set(env):
                a = old.get(v, TOP)
                b = env.get(v, TOP)
                m = meet(a, b)
                # a variable known on one path and absent (unassigned) on the other is not a constant
                if (v in old) != (v in env):
                    m = BOT
                new[v] = m
            if new == old:
                continue
        IN[i] = new
        for t, e2 in flow(g.nodes[i], new):
            exec_edges.add((i, t))
            work.append((t, e2))

    # residual
    res = cfgm.CFG()
    m = {}
    for node in g.nodes:
        if IN[node.id] is not None:
            m[node.id] = res.new(node.kind, node.stmt, node.line)
    for node in g.nodes:
        if node.id not in m:
            continue
        env = IN[node.id]
        cenv = {v: c for v, c in env.items() if is_const(c)}
        r = m[node.id]

        def fold(e, cenv=cenv):
            def f(x):
                if x[0] == 'var' and x[1] in cenv and x[1] not in keep_consts:
                    return cenv[x[1]]
                if x[0] in ('op', 'call') or (x[0] == 'idx' and x[1] in ev.tables):
                    c = ev.ev(x, {})
                    if c is not None:
                        return c
                return x
            return ir.map_expr(f, e)
        s = node.stmt
        k = node.kind
        if k == 'assign':
            l = s[1]
            if l[0] == 'idx':
                l = ('idx', l[1]) + tuple(fold(x) for x in l[2:])
            rhs = fold(s[2])
            # identity: assigning the constant the variable already holds
            if l[0] == 'var' and is_const(env.get(l[1])) and rhs == env.get(l[1]):
                r.kind = 'nop'
            r.stmt = ('assign', l, rhs, s[3])
        elif k == 'call':
            args = []
            for i, a in enumerate(s[2]):
                if (a[0] == 'var' and maywrite(s[1], i)) or s[1] in nofold_calls:
                    args.append(a)
                else:
                    args.append(fold(a))
            r.stmt = ('call', s[1], tuple(args), s[3])
        elif k in ('branch', 'eval'):
            r.stmt = (s[0], fold(s[1]), s[2])
        elif k == 'return' and s[1] is not None:
            r.stmt = ('return', fold(s[1]), s[2])
        succ = [t for t in node.succ if (node.id, t) in exec_edges]
        if k == 'branch' and len(succ) == 1:
            r.kind = 'nop'
        r.succ = [m[t].id for t in succ]
    res.entry = m[g.entry.id]
    return cfgm.compact(res, drop=('nop', 'io'))
