"""Lower a d0ast function body to the neutral structured tree of sa/ir.py with IR expressions."""
import re
from fractions import Fraction

from . import ir
from .astu import src

MATH1 = {
    'log': 'log', 'exp': 'exp', 'sqrt': 'sqrt', 'abs': 'abs', 'fabs': 'abs', 'cos': 'cos', 'sin': 'sin',
    'acos': 'acos', 'asin': 'asin', 'atan': 'atan', 'tan': 'tan', 'log10': 'log10', 'floor': 'floor',
    'ceil': 'ceil', 'max': 'max', 'min': 'min', 'fmax': 'max', 'fmin': 'min', 'atan2': 'atan2', 'round': 'nint',
    'lround': 'nint', 'rint': 'nint', 'nearbyint': 'nint', 'hypot': 'hypot', 'isnan': 'isnan', 'isfinite': 'isfinite',
    'isinf': 'isinf', 'fmod': 'mod', 'trunc': 'aint',
}
GSLPOW = {'gsl_pow_2': 2, 'gsl_pow_3': 3, 'gsl_pow_4': 4, 'gsl_pow_5': 5, 'gsl_pow_6': 6, 'gsl_pow_7': 7,
          'gsl_pow_8': 8, 'gsl_pow_9': 9}
INT_TYPES = ('int', 'long', 'unsigned', 'short', 'size_t', 'std::size_t', 'unsigned int', 'unsigned long',
             'long long', 'int32_t', 'uint32_t', 'int64_t', 'uint64_t', 'std::uint32_t', 'std::int32_t')
STREAMS = ('std::cerr', 'std::cout', 'std::clog')


def short(qn):
    if qn.startswith('bxdecay0::'):
        qn = qn[len('bxdecay0::'):]
    return qn


def is_stream_io(e):
    """std::cerr << ... chains, out_ << ... , and method calls on ostreams"""
    while e is not None:
        k = e.get('k')
        if k == 'OpCall' and e['op'] in ('<<',) and e['args']:
            a0 = e['args'][0]
            t = a0.get('ty', '')
            if a0.get('k') == 'Ref' and (a0.get('qn') in STREAMS or 'ostream' in t or 'stringstream' in t):
                return True
            if a0.get('k') in ('Member',) and 'ostream' in t:
                return True
            e = a0
            continue
        if k == 'MCall':
            c = e.get('callee', {})
            if c.get('cls', '').startswith('std::basic_ostream') or c.get('cls', '').startswith('std::ios_base') \
                    or c.get('cls', '').startswith('std::basic_ios'):
                e = e['obj']
                if e.get('k') == 'Ref' and (e.get('qn') in STREAMS or 'ostream' in e.get('ty', '')):
                    return True
                continue
            return False
        if k == 'Call' and e.get('callee', {}).get('qn') in ('std::endl', 'std::flush'):
            return True
        return False
    return False


CTX_TYPES = ('bxdecay0::i_random &', 'bxdecay0::event &', 'i_random &', 'event &', 'void *', 'const void *')


GLOBAL_CONSTS = {}      # qualified name of a const static/global with a literal initialiser -> IR


RECORD_FIELDS = {}      # record name (qualified and short) -> ordered field names (aggregates only: no bases, no user constructor)


def install_global_consts(prog):
    GLOBAL_CONSTS.clear()
    RECORD_FIELDS.clear()
    for qn, r in prog.records.items():
        if r.get('bases') or any(m.get('ctor') and not m.get('defaulted') for m in r.get('methods', [])):
            continue
        names = [f['name'] for f in r.get('fields', [])]
        if names:
            RECORD_FIELDS[qn] = names
            RECORD_FIELDS.setdefault(qn.split('::')[-1], names)
    lo = Lower({'qn': '<consts>'})
    for (qn, _), sv in prog.statics.items():
        if sv.get('const') and sv.get('dk') in ('global', 'static_member') and 'init' in sv:
            e = sv['init']
            while e.get('k') == 'Cast':
                e = e['e']
            if e.get('k') == 'Num' or (e.get('k') == 'Un' and e['e'].get('k') == 'Num'):
                GLOBAL_CONSTS[qn] = lo.ex(sv['init'])


def build_sigs(prog):
    """callee id -> list of argument positions the port adds to every primitive (deviate source, event,
    opaque parameter-struct pointer) or leaves unnamed (dummy arguments)"""
    sigs = {}
    for (qn, fid), fn in prog.functions.items():
        drop = [i for i, p in enumerate(fn['params']) if p['ty'] in CTX_TYPES or p['name'] == '']
        sigs[(qn, fid)] = drop
    return sigs


def _int_valued(e):
    """the expression is integer-typed by construction (sizes, integer literals and variables, + - * of such)"""
    k = e.get('k')
    ty = str(e.get('ty', '')).replace('const ', '').strip()
    if ty in INT_TYPES or ty.endswith('size_type') or ty.endswith('::size_t'):
        return True
    if k == 'Num':
        return e.get('t') == 'i'
    if k in ('Cast', 'Paren', 'DefaultArg'):
        return (k == 'Cast' and ty in INT_TYPES) or _int_valued(e['e'])
    if k == 'Bin' and e['op'] in ('+', '-', '*', '%'):
        return _int_valued(e['a']) and _int_valued(e['b'])
    if k == 'MCall' and e.get('callee', {}).get('qn', '').endswith(('::size', '::length', '::count')):
        return True
    return False


class Lower:
    def __init__(self, fn, sigs=None, keep_bindings=False):
        self.fn = fn
        self.sigs = sigs or {}
        self.keep_bindings = keep_bindings      # reference/pointer locals stay variables: `v = bind(expr)`
        self.consts = {}        # static const locals with literal init: name -> IR
        self.decl_zero = []     # (name, line) locals declared with an initialiser
        self.locals = {}        # name -> type
        self.flags = []         # oddities worth reporting
        self.aliases = {}       # reference-typed locals -> IR of the object they are bound to
        self.uninit = set()     # locals declared without initialiser and not assigned yet (in source order)

    # ------------------------------------------------------------ expressions
    def ex(self, e):
        if e is None:
            return None
        k = e['k']
        if k == 'Num':
            return ('num', ir.dec(e['v']) if e['t'] == 'f' or not e['v'].lower().startswith('0x')
                    else Fraction(int(e['val'])), e['t'])
        if k == 'Str':
            return ('str', e['v'])
        if k == 'Chr':
            return ('str', chr(e['v']))
        if k == 'Bool':
            return ('num', Fraction(1 if e['v'] else 0), 'b')
        if k == 'Null':
            return ('num', Fraction(0), 'p')
        if k == 'Ref':
            if e.get('dk') == 'enum':
                return ('num', Fraction(e['val']), 'i')
            if e.get('dk') == 'func':
                return ('var', short(e['qn']))
            if e['name'] in self.aliases and e.get('dk') == 'local':
                return self.aliases[e['name']]
            if e.get('qn') in GLOBAL_CONSTS and e.get('dk') in ('global', 'static_member'):
                return GLOBAL_CONSTS[e['qn']]
            return ('var', e['name'])
        if k == 'This':
            return ('var', 'this')
        if k == 'Member':
            b = e.get('base')
            if e.get('qn') in GLOBAL_CONSTS and e.get('dk') in ('global', 'static_member'):
                return GLOBAL_CONSTS[e['qn']]
            return ('fld', self.ex(b), e['name'])
        if k == 'DefaultArg':
            return self.ex(e['e'])
        if k == 'Cast':
            t = e['ty'].replace('const ', '').strip()
            x = self.ex(e['e'])
            if t in INT_TYPES:
                st = str(e['e'].get('ty', '')).replace('const ', '').strip()
                if st in INT_TYPES or st.endswith('size_type') or st.endswith('::size_t') or st in ('bool', 'char') or _int_valued(e['e']):
                    return x          # integer to integer: value-preserving for every value that occurs (sizes, counters)
                return ('op', 'int', x)
            return x
        if k == 'Un':
            x = self.ex(e['e'])
            op = e['op']
            if op == '-':
                if x[0] == 'num':
                    return ('num', -x[1], x[2])
                return ('op', 'neg', x)
            if op == '+':
                return x
            if op == '!':
                return ('op', 'not', x)
            if op == '&':
                return ('op', 'addr', x)
            if op == '*':
                return ('op', 'deref', x)
            if op in ('++', '--'):
                self.flags.append(('incdec-in-expr', e['l']))
                return ('op', ('post' if e.get('post') else 'pre') + op, x)
            return ('op', op, x)
        if k == 'Bin':
            op = e['op']
            a, b = self.ex(e['a']), self.ex(e['b'])
            if op == '&&':
                op = 'and'
            elif op == '||':
                op = 'or'
            elif op == ',':
                op = 'comma'
            elif op == '%':
                op = 'mod'
                return ('op', 'mod', a, b)
            elif op == '=' or op.endswith('=') and op not in ('==', '!=', '<=', '>='):
                self.flags.append(('assign-in-expr', e['l']))
                return ('op', 'assign' + op, a, b)
            if op == '/' and _int_valued(e['a']) and _int_valued(e['b']):
                return ('op', 'idiv', a, b)      # C++ integer division truncates
            return ('op', op, a, b)
        if k == 'Cond':
            return ('op', '?:', self.ex(e['c']), self.ex(e['a']), self.ex(e['b']))
        if k == 'Idx':
            b = self.ex(e['a'])
            i = self.ex(e['i'])
            if b[0] == 'var':
                return ('idx', b[1], i)
            if b[0] == 'idx':
                return b + (i,)
            if b[0] == 'fld':
                return ('idx', '.' + b[2], i) if b[1][0] == 'var' else ('op', '[]', b, i)
            return ('op', '[]', b, i)
        if k in ('Call', 'MCall', 'OpCall', 'Ctor', 'TempCtor'):
            return self.call(e)
        if k == 'InitList':
            return ('op', 'list') + tuple(self.ex(x) for x in e['elts'])
        if k == 'ZeroInit':
            return ('num', Fraction(0), 'i')
        if k == 'Throw':
            return ('op', 'throw')
        if k == 'New':
            return ('op', 'new', ('str', e.get('ty', '')))
        if k == 'Lambda':
            return ('op', 'lambda')
        if k == 'Sizeof':
            return ('op', 'sizeof', ('str', e.get('v', '')))
        if k == 'Delete':
            return ('op', 'delete', self.ex(e['e']))
        return ('op', 'unknown:' + str(e.get('cls', k))) + tuple(self.ex(c) for c in e.get('ch', []))

    def call(self, e):
        k = e['k']
        args = [self.ex(a) for a in e['args']]
        c = e.get('callee')
        if c is None:
            f = self.ex(e.get('fn'))
            return ('call', 'indirect:' + ir.fmt(f)) + tuple(args)
        qn = c['qn']
        if k == 'OpCall':
            op = e['op']
            if op == '()' and c.get('cls', '').endswith('i_random'):
                return ('draw',)
            if op == '()' and args and 'function' in e['args'][0].get('ty', ''):
                return ('call', 'indirect:' + ir.fmt(args[0])) + tuple(args[1:])
            if op == '[]' and len(args) == 2:
                b, i = args
                if b[0] == 'var':
                    return ('idx', b[1], i)
                if b[0] == 'fld' and b[1][0] == 'var':
                    return ('idx', '.' + b[2], i)
                if b[0] == 'idx':
                    return b + (i,)
                return ('op', '[]', b, i)
            if op in ('==', '!=', '<', '<=', '>', '>=', '+', '-', '*', '/') and len(args) == 2:
                return ('op', op, args[0], args[1])
            if op == '=' and len(args) == 2:
                self.flags.append(('assign-in-expr', e['l']))
                return ('op', 'assign=', args[0], args[1])
            if op == '!' and len(args) == 1:
                return ('op', 'not', args[0])
            return ('call', 'operator' + op) + tuple(args)
        if k in ('Ctor', 'TempCtor'):
            if len(args) == 1:
                return args[0]
            if args and args[0][0] == 'str' and 'string' in e.get('ty', ''):
                return args[0]
            return ('call', 'ctor:' + e.get('ty', '')) + tuple(args)
        if k == 'MCall':
            obj = self.ex(e['obj'])
            return ('call', short(c.get('cls', '')) + '::' + qn.split('::')[-1], obj) + tuple(args)
        # free function
        name = qn.split('::')[-1]
        drop = self.sigs.get((qn, c.get('id')))
        if drop:
            args = [a for i, a in enumerate(args) if i not in drop]
        if not c.get('project'):
            if name == 'pow' and len(args) == 2:
                return ('op', '**', args[0], args[1])
            if name in GSLPOW:
                return ('op', '**', args[0], ('num', Fraction(GSLPOW[name]), 'i'))
            if name in MATH1:
                return ('op', MATH1[name]) + tuple(args)
            if name == 'gsl_pow_int':
                return ('op', '**', args[0], args[1])
        return ('call', short(qn)) + tuple(args)

    # ------------------------------------------------------------- statements
    def stmts(self, s):
        """-> list of neutral statements"""
        if s is None:
            return []
        k = s['k']
        l = s.get('l', 0)
        if k == 'Compound':
            out = []
            for c in s['s']:
                out += self.stmts(c)
            return out
        if k == 'Null':
            return []
        if k == 'If':
            pre = self.stmts(s.get('init')) if s.get('init') else []
            return pre + [('if', self.ex(s['c']), self.stmts(s['t']), self.stmts(s.get('e')), l)]
        if k == 'Goto':
            return [('goto', s['label'], l)]
        if k == 'Label':
            return [('label', s['name'], l)] + self.stmts(s['s'])
        if k == 'Return':
            return [('return', self.ex(s.get('e')), l)]
        if k == 'Break':
            return [('break', l)]
        if k == 'Continue':
            return [('continue', l)]
        if k == 'Decl':
            out = []
            for v in s['vars']:
                self.locals[v['name']] = v['ty']
                if 'init' not in v:
                    self.uninit.add(v['name'])
                if 'init' in v:
                    init = v['init']
                    if init.get('k') in ('Ctor',) and not init['args']:
                        continue       # default-constructed object
                    if self.keep_bindings and v['ty'].rstrip().endswith(('&', '*')):
                        out.append(('assign', ('var', v['name']), ('op', 'bind', self.ex(init)), v.get('l', l)))
                        continue
                    if v['ty'].rstrip().endswith('&') and v.get('dk') != 'static_local':
                        self.aliases[v['name']] = self.ex(init)     # reference alias: substituted at uses
                        continue
                    if v['ty'].rstrip().endswith('*') and init.get('k') == 'Member' and init.get('dk') == 'field' \
                            and v.get('dk') != 'static_local':
                        self.aliases[v['name']] = self.ex(init)     # pointer to a member array: alias
                        continue
                    out.append(('assign', ('var', v['name']), self.ex(init), v.get('l', l)))
                    if v.get('dk') == 'static_local':
                        self.consts[v['name']] = out[-1][2]
                    else:
                        self.decl_zero.append((v['name'], v.get('l', l)))
            return out
        if k == 'Expr':
            return self.expr_stmt(s['e'], l)
        if k == 'For':
            init = self.stmts(s.get('init')) if s.get('init') else []
            inc = self.expr_stmt(s['inc'], l) if s.get('inc') else []
            cond = self.ex(s['c']) if s.get('c') else ('num', Fraction(1), 'b')
            body = self.stmts(s['body'])
            # counted loop:  for (v = lo; v <= hi | v < hi; v++ | v += c)
            if len(init) == 1 and init[0][0] == 'assign' and init[0][1][0] == 'var' and len(inc) == 1 \
                    and inc[0][0] == 'assign' and inc[0][1] == init[0][1] and cond[0] == 'op' \
                    and cond[1] in ('<=', '<') and cond[2] == init[0][1]:
                v = init[0][1]
                st = inc[0][2]
                if st[0] == 'op' and st[1] == '+' and st[2] == v and not _writes(body, v[1]):
                    hi = cond[3]
                    lo_ = init[0][2]
                    if cond[1] == '<' and lo_[0] == 'num' and lo_[1] == 0 and st[3][0] == 'num' and st[3][1] == 1:
                        # for (v = 0; v < n; v++) body(v)  ==  do v' = 1, n: body(v' - 1)
                        vm1 = ('op', '-', v, ('num', Fraction(1), 'i'))
                        body = subst_tree(body, v, vm1)
                        return [('do', v, ('num', Fraction(1), 'i'), hi, st[3], body, l)]
                    if cond[1] == '<':
                        hi = ('op', '-', hi, ('num', Fraction(1), 'i'))
                    return [('do', v, lo_, hi, st[3], body, l)]
            return [('loop', init, cond, inc, body, False, l)]
        if k == 'ForRange':
            if self.keep_bindings and s['var']['ty'].rstrip().endswith('&'):
                return [('loop', [], ('op', 'more', self.ex(s['range'])), [],
                         [('assign', ('var', s['var']['name']), ('op', 'bind', ('op', 'elem', self.ex(s['range']))), l)]
                         + self.stmts(s['body']), False, l)]
            return [('loop', [('assign', ('var', s['var']['name']), ('op', 'iter', self.ex(s['range'])), l)],
                     ('op', 'more', self.ex(s['range'])), [], self.stmts(s['body']), False, l)]
        if k == 'While':
            return [('loop', [], self.ex(s['c']), [], self.stmts(s['body']), False, l)]
        if k == 'Do':
            return [('loop', [], self.ex(s['c']), [], self.stmts(s['body']), True, l)]
        if k == 'Switch':
            return [('switch', self.ex(s['c']), self.stmts(s['body']), l)]
        if k == 'Case':
            return [('case', self.ex(s['v']), l)] + self.stmts(s['s'])
        if k == 'Default':
            return [('case', None, l)] + self.stmts(s['s'])
        if k == 'Try':
            return [('try', self.stmts(s['body']), [self.stmts(h['body']) for h in s['handlers']], l)]
        return [('other', k, l)]

    def _fill_loop(self, e, l):
        qn = e['callee'].get('qn', '')
        arr = n = val = None
        if e['k'] == 'Call' and qn == 'std::fill_n' and len(e['args']) == 3:
            arr, n, val = self.ex(e['args'][0]), self.ex(e['args'][1]), self.ex(e['args'][2])
        elif e['k'] == 'Call' and qn == 'std::fill' and len(e['args']) == 3:
            a0, a1 = self.ex(e['args'][0]), self.ex(e['args'][1])
            if a1[0] == 'op' and a1[1] == '+' and len(a1) == 4 and a0 in (a1[2], a1[3]):
                arr, n, val = a0, (a1[3] if a1[2] == a0 else a1[2]), self.ex(e['args'][2])
        elif e['k'] == 'MCall' and qn.endswith('::fill') and 'std::array' in qn and len(e['args']) == 1:
            m = re.search(r'std::array<[^,]+,\s*(\d+)', e['obj'].get('ty', '') or qn)
            if m:
                arr, n, val = self.ex(e['obj']), ('num', Fraction(int(m.group(1))), 'i'), self.ex(e['args'][0])
        if arr is None:
            return None
        v = ('var', 'fill%d__i' % l)
        i0 = ('op', '-', v, ('num', Fraction(1), 'i'))
        if arr[0] == 'var':
            tgt = ('idx', arr[1], i0)
        elif arr[0] == 'fld' and arr[1][0] == 'var':
            tgt = ('idx', '.' + arr[2], i0)
        else:
            return None
        self.locals[v[1]] = 'int'
        return [('do', v, ('num', Fraction(1), 'i'), n, ('num', Fraction(1), 'i'), [('assign', tgt, val, l)], l)]

    def expr_stmt(self, e, l):
        k = e['k']
        if is_stream_io(e):
            return [('io', 'stream', src(e)[:60], l)]
        if k == 'Throw':
            return [('throw', l)]
        if k == 'Bin':
            op = e['op']
            if op == '=':
                lhs, rhs = self.ex(e['a']), self.ex(e['b'])
                if lhs[0] == 'var' and lhs[1] in self.uninit:
                    self.uninit.discard(lhs[1])
                    if rhs[0] == 'num' and rhs[1] == 0:
                        self.decl_zero.append((lhs[1], l))      # late zero-initialisation of a local
                return [('assign', lhs, rhs, l)]
            if op in ('+=', '-=', '*=', '/='):
                a = self.ex(e['a'])
                return [('assign', a, ('op', op[0], a, self.ex(e['b'])), l)]
            if op == ',':
                return self.expr_stmt(e['a'], l) + self.expr_stmt(e['b'], l)
        if k == 'Un' and e['op'] in ('++', '--'):
            a = self.ex(e['e'])
            return [('assign', a, ('op', '+' if e['op'] == '++' else '-', a, ('num', Fraction(1), 'i')), l)]
        if k == 'OpCall' and e['op'] == '=' and len(e['args']) == 2:
            return [('assign', self.ex(e['args'][0]), self.ex(e['args'][1]), l)]
        if k == 'OpCall' and e['op'] in ('+=', '-=') and len(e['args']) == 2:
            a = self.ex(e['args'][0])
            return [('assign', a, ('op', e['op'][0], a, self.ex(e['args'][1])), l)]
        if k in ('Call', 'MCall') and 'callee' in e:
            # std::fill_n(a, n, v) / std::fill(a, a + n, v) / std::array::fill(v) over a fixed array: the counted loop they stand for
            f = self._fill_loop(e, l)
            if f is not None:
                return f
        if k in ('Call', 'MCall', 'OpCall', 'Ctor', 'TempCtor'):
            x = self.call(e)
            if x[0] == 'call':
                return [('call', x[1], tuple(x[2:]), l)]
            return [('eval', x, l)]
        if k == 'Cast':
            return self.expr_stmt(e['e'], l)
        return [('eval', self.ex(e), l)]


def subst_expr(e, v, val):
    return ir.map_expr(lambda x: val if x == v else x, e)


def subst_tree(stmts, v, val):
    out = []
    for s in stmts:
        k = s[0]
        if k == 'assign':
            out.append(('assign', subst_expr(s[1], v, val), subst_expr(s[2], v, val), s[3]))
        elif k == 'call':
            out.append(('call', s[1], tuple(subst_expr(a, v, val) for a in s[2]), s[3]))
        elif k == 'if':
            out.append(('if', subst_expr(s[1], v, val), subst_tree(s[2], v, val), subst_tree(s[3], v, val), s[4]))
        elif k == 'return':
            out.append(('return', subst_expr(s[1], v, val) if s[1] is not None else None, s[2]))
        elif k == 'eval':
            out.append(('eval', subst_expr(s[1], v, val), s[2]))
        elif k == 'do':
            out.append(('do', s[1], subst_expr(s[2], v, val), subst_expr(s[3], v, val), subst_expr(s[4], v, val),
                        subst_tree(s[5], v, val), s[6]))
        elif k == 'loop':
            out.append(('loop', subst_tree(s[1], v, val), subst_expr(s[2], v, val), subst_tree(s[3], v, val),
                        subst_tree(s[4], v, val), s[5], s[6]))
        elif k == 'switch':
            out.append(('switch', subst_expr(s[1], v, val), subst_tree(s[2], v, val), s[3]))
        elif k == 'case':
            out.append(('case', subst_expr(s[1], v, val) if s[1] is not None else None, s[2]))
        elif k == 'try':
            out.append(('try', subst_tree(s[1], v, val), [subst_tree(h, v, val) for h in s[2]], s[3]))
        else:
            out.append(s)
    return out


def _writes(body, name):
    for s in body:
        if s[0] == 'assign' and s[1] == ('var', name):
            return True
        if s[0] == 'if' and (_writes(s[2], name) or _writes(s[3], name)):
            return True
        if s[0] in ('do',) and _writes(s[5], name):
            return True
        if s[0] == 'loop' and (_writes(s[1], name) or _writes(s[3], name) or _writes(s[4], name)):
            return True
    return False


def lower_function(fn, sigs=None, keep_bindings=False):
    lo = Lower(fn, sigs, keep_bindings)
    body = lo.stmts(fn['body'])
    return body, lo
