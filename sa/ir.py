"""Common IR shared by the Fortran and C++ front ends.

Expressions (hashable tuples):
  ('num', Fraction, kind)   kind in 'i' (integer literal) / 'f' (real literal) / 'b'
  ('str', s)
  ('var', name)
  ('op', name, a, ...)      arithmetic / relational / logical / intrinsic
  ('idx', array, i, ...)    array element, index as written (1-based in Fortran, 0-based in C++)
  ('draw',)                 one uniform deviate
  ('call', name, a, ...)    user function in expression position
  ('fld', base, name)       C++ member access
Neutral structured statements (lists of tuples, last element = source line):
  ('assign', lhs, rhs, l) ('call', name, args, l) ('if', cond, then, else, l) ('goto', label, l)
  ('label', name, l) ('return', expr|None, l) ('throw', l) ('io', kw, text, l)
  ('do', var, lo, hi, step, body, l)         counted loop
  ('loop', init, cond, step, body, post, l)  generic C loop: post=True for do-while
  ('break', l) ('continue', l)
"""
import re
from fractions import Fraction


def dec(spelling):
    s = spelling.strip().lower()
    s = re.sub(r'(?<=[0-9.])(f|l|u|ul|lu)$', '', s)
    s = s.replace('d', 'e')
    m = re.fullmatch(r'([+-]?)(\d*)\.?(\d*)(?:e([+-]?\d+))?', s)
    if not m or not (m.group(2) or m.group(3)):
        raise ValueError('bad literal ' + spelling)
    sign, ip, fp, ex = m.groups()
    v = Fraction(int((ip or '0') + (fp or '')), 10 ** len(fp or ''))
    if ex:
        v *= Fraction(10) ** int(ex)
    return -v if sign == '-' else v


def num(v, kind='f'):
    return ('num', Fraction(v), kind)


def is_num(e):
    return isinstance(e, tuple) and e and e[0] == 'num'


def subexprs(e):
    """pre-order over all sub-expressions"""
    stack = [e]
    while stack:
        x = stack.pop()
        if not isinstance(x, tuple) or not x:
            continue
        yield x
        if x[0] in ('op', 'call'):
            stack.extend(reversed(x[2:]))
        elif x[0] == 'idx':
            stack.extend(reversed(x[2:]))
        elif x[0] == 'fld':
            stack.append(x[1])
        elif x[0] == 'range':
            stack.extend(y for y in x[1:] if y is not None)


def map_expr(f, e):
    """bottom-up rewrite"""
    if not isinstance(e, tuple) or not e:
        return e
    k = e[0]
    if k in ('op', 'call'):
        e = (k, e[1]) + tuple(map_expr(f, a) for a in e[2:])
    elif k == 'idx':
        e = (k, e[1]) + tuple(map_expr(f, a) for a in e[2:])
    elif k == 'fld':
        e = (k, map_expr(f, e[1]), e[2])
    elif k == 'range':
        e = (k,) + tuple(map_expr(f, a) if a is not None else None for a in e[1:])
    return f(e)


def vars_of(e):
    return {x[1] for x in subexprs(e) if x[0] == 'var'} | {x[1] for x in subexprs(e) if x[0] == 'idx'}


def count_draws(e):
    return sum(1 for x in subexprs(e) if x[0] == 'draw')


def fmt(e):
    if e is None:
        return ''
    if not isinstance(e, tuple):
        return str(e)
    k = e[0]
    if k == 'num':
        v = e[1]
        if v.denominator == 1:
            return str(v.numerator) + ('.' if len(e) > 2 and e[2] == 'f' else '')
        return repr(float(v))
    if k == 'str':
        return "'%s'" % e[1]
    if k == 'var':
        return e[1]
    if k == 'draw':
        return 'DRAW'
    if k == 'op':
        a = e[2:]
        if len(a) >= 2 and (not e[1].isalpha() or e[1] in ('and', 'or')):
            return '(' + (' %s ' % e[1]).join(fmt(x) for x in a) + ')'
        return '%s(%s)' % (e[1], ', '.join(fmt(x) for x in a))
    if k == 'idx':
        return '%s[%s]' % (e[1], ', '.join(fmt(x) for x in e[2:]))
    if k == 'call':
        return '%s(%s)' % (e[1], ', '.join(fmt(x) for x in e[2:]))
    if k == 'fld':
        return '%s.%s' % (fmt(e[1]), e[2])
    if k == 'range':
        return '%s:%s' % (fmt(e[1]), fmt(e[2]))
    return str(e)


def fmt_stmt(s):
    k = s[0]
    if k == 'assign':
        return '%s := %s' % (fmt(s[1]), fmt(s[2]))
    if k == 'call':
        return 'CALL %s(%s)' % (s[1], ', '.join(fmt(a) for a in s[2]))
    if k == 'if':
        return 'IF %s' % fmt(s[1])
    if k == 'goto':
        return 'GOTO %s' % s[1]
    if k == 'label':
        return 'LABEL %s' % s[1]
    if k == 'return':
        return 'RETURN %s' % fmt(s[1])
    if k == 'branch':
        return 'BRANCH %s' % fmt(s[1])
    return k.upper()
