"""Whole-program call graph over the exported units (resolved callees; virtual calls go to every overrider)."""
from . import astu


class CallGraph:
    def __init__(self, prog):
        self.prog = prog
        self.by_key = prog.functions
        self.edges = {}
        self.callers = {}
        over = {}
        for key, fn in prog.functions.items():
            for o in fn.get('overrides', []):
                over.setdefault(o, []).append(key)
        # transitive overriders
        self.over = over
        by_qn = {}
        for key in prog.functions:
            by_qn.setdefault(key[0], []).append(key)
        for key, fn in prog.functions.items():
            out = set()
            for c in astu.calls(fn['body']):
                cal = c['callee']
                tgt = [(cal['qn'], cal.get('id'))]
                if tgt[0] not in prog.functions:
                    # declaration id differs from definition id: fall back to the qualified name
                    tgt = by_qn.get(cal['qn'], [])
                for t in tgt:
                    out.add(t)
                if cal.get('virtual'):
                    st = [cal['qn']]
                    seen = set()
                    while st:
                        q = st.pop()
                        if q in seen:
                            continue
                        seen.add(q)
                        for k in over.get(q, []):
                            out.add(k)
                            st.append(k[0])
            # functions passed as arguments (callbacks)
            for x in astu.walk(fn['body']):
                if x['k'] == 'Ref' and x.get('dk') == 'func':
                    for t in by_qn.get(x.get('qn'), []):
                        out.add(t)
            self.edges[key] = out
            for t in out:
                self.callers.setdefault(t, set()).add(key)

    def reachable(self, roots):
        seen = set()
        st = list(roots)
        while st:
            k = st.pop()
            if k in seen or k not in self.edges:
                continue
            seen.add(k)
            st.extend(self.edges[k])
        return seen

    def keys_of(self, qn):
        return [k for k in self.by_key if k[0] == qn]
