"""Constant evaluation of small pure C++ helper functions (strings/integers) from their d0ast JSON.

Used so that the dispatch rules do not *assume* what a helper such as `name_starts_with` computes: its body,
as it is in /repo now, is folded on literal arguments.  Unsupported constructs raise AnalysisBroken (exit 2).
"""
from .project import AnalysisBroken
from .astu import src


class _Break(Exception):
    pass


class _Return(Exception):
    def __init__(self, v):
        self.v = v


class It:
    """iterator into a string"""
    def __init__(self, s, pos):
        self.s, self.pos = s, pos

    def __eq__(self, o):
        return isinstance(o, It) and self.s is o.s and self.pos == o.pos


class Mini:
    def __init__(self, fn, budget=20000):
        self.fn = fn
        self.budget = self.budget0 = budget

    def call(self, *args):
        self.budget = self.budget0
        ps = self.fn['params']
        if len(ps) != len(args):
            raise AnalysisBroken('minieval: arity of %s' % self.fn['qn'])
        env = {p['name']: a for p, a in zip(ps, args)}
        try:
            self.stmt(self.fn['body'], env)
        except _Return as r:
            return r.v
        raise AnalysisBroken('minieval: %s fell off the end' % self.fn['qn'])

    def bad(self, n, what='construct'):
        raise AnalysisBroken('minieval: unsupported %s in %s line %s: %s' %
                             (what, self.fn['qn'], n.get('l'), src(n) if n.get('k') not in
                              ('Compound', 'If', 'For', 'While', 'Decl', 'Return') else n.get('k')))

    def stmt(self, s, env):
        self.budget -= 1
        if self.budget < 0:
            raise AnalysisBroken('minieval: evaluation budget exhausted in %s' % self.fn['qn'])
        k = s['k']
        if k == 'Compound':
            for c in s['s']:
                self.stmt(c, env)
        elif k == 'Return':
            raise _Return(self.ex(s['e'], env) if s.get('e') else None)
        elif k == 'If':
            if self.ex(s['c'], env):
                self.stmt(s['t'], env)
            elif s.get('e'):
                self.stmt(s['e'], env)
        elif k == 'Decl':
            for v in s['vars']:
                env[v['name']] = self.ex(v['init'], env) if 'init' in v else None
        elif k == 'Expr':
            self.ex(s['e'], env)
        elif k == 'For':
            if s.get('init'):
                self.stmt(s['init'], env)
            while (self.ex(s['c'], env) if s.get('c') else True):
                self.budget -= 1
                if self.budget < 0:
                    raise AnalysisBroken('minieval: loop budget exhausted in %s' % self.fn['qn'])
                self.stmt(s['body'], env)
                if s.get('inc'):
                    self.ex(s['inc'], env)
        elif k == 'While':
            while self.ex(s['c'], env):
                self.budget -= 1
                if self.budget < 0:
                    raise AnalysisBroken('minieval: loop budget exhausted in %s' % self.fn['qn'])
                self.stmt(s['body'], env)
        elif k == 'Null':
            pass
        elif k == 'Break':
            raise _Break()
        elif k == 'Switch':
            v = self.ex(s['c'], env)
            body = s['body']['s'] if s['body']['k'] == 'Compound' else [s['body']]
            seq = []            # (labels or None for plain statements / 'default', statement)
            for st in body:
                labels = []
                x = st
                while x.get('k') in ('Case', 'Default'):
                    labels.append('default' if x['k'] == 'Default' else self.ex(x['v'], env))
                    x = x['s']
                seq.append((labels, x))
            start = None
            for i, (labels, x) in enumerate(seq):
                if any(l != 'default' and l == v for l in labels):
                    start = i
                    break
            if start is None:
                for i, (labels, x) in enumerate(seq):
                    if 'default' in labels:
                        start = i
                        break
            if start is not None:
                try:
                    for labels, x in seq[start:]:
                        self.stmt(x, env)
                except _Break:
                    pass
        else:
            self.bad(s, 'statement')

    def ex(self, e, env):
        k = e['k']
        if k == 'Num':
            return int(e['val']) if e['t'] == 'i' else float(e['val'])
        if k == 'Str':
            return e['v']
        if k == 'Chr':
            return chr(e['v'])
        if k == 'Bool':
            return bool(e['v'])
        if k == 'Ref':
            if e['name'] in env:
                return env[e['name']]
            if e.get('dk') == 'enum':
                return e['val']
            if e.get('qn') == 'std::basic_string<char>::npos':
                return -1
            self.bad(e, 'reference')
        if k in ('Cast', 'DefaultArg'):
            return self.ex(e['e'], env)
        if k == 'Cond':
            return self.ex(e['a'], env) if self.ex(e['c'], env) else self.ex(e['b'], env)
        if k == 'Un':
            if e['op'] in ('++', '--') and e['e']['k'] == 'Ref':
                old = env[e['e']['name']]
                d = 1 if e['op'] == '++' else -1
                new = It(old.s, old.pos + d) if isinstance(old, It) else old + d
                env[e['e']['name']] = new
                return old if e.get('post') else new
            v = self.ex(e['e'], env)
            if e['op'] == '!':
                return not v
            if e['op'] == '-':
                return -v
            if e['op'] == '*' and isinstance(v, It):
                if not 0 <= v.pos < len(v.s):
                    raise AnalysisBroken('minieval: %s dereferences an iterator out of range (line %s)'
                                         % (self.fn['qn'], e.get('l')))
                return v.s[v.pos]
            self.bad(e, 'unary operator')
        if k == 'Bin':
            op = e['op']
            if op == '=' and e['a']['k'] == 'Ref':
                env[e['a']['name']] = self.ex(e['b'], env)
                return env[e['a']['name']]
            if op == '&&':
                return bool(self.ex(e['a'], env)) and bool(self.ex(e['b'], env))
            if op == '||':
                return bool(self.ex(e['a'], env)) or bool(self.ex(e['b'], env))
            a, b = self.ex(e['a'], env), self.ex(e['b'], env)
            return self.binop(op, a, b, e)
        if k == 'OpCall':
            op = e['op']
            a = [self.ex(x, env) for x in e['args']]
            if op in ('==', '!=', '<', '<=', '>', '>=', '+', '-') and len(a) == 2:
                return self.binop(op, a[0], a[1], e)
            if op == '[]' and isinstance(a[0], str):
                if not 0 <= a[1] < len(a[0]):
                    raise AnalysisBroken('minieval: %s subscripts a string out of range' % self.fn['qn'])
                return a[0][a[1]]
            if op == '*' and len(a) == 1 and isinstance(a[0], It):
                return a[0].s[a[0].pos]
            if op in ('++', '--') and e['args'][0]['k'] == 'Ref':
                name = e['args'][0]['name']
                old = env[name]
                d = 1 if op == '++' else -1
                env[name] = It(old.s, old.pos + d) if isinstance(old, It) else old + d
                return old if len(e['args']) == 2 else env[name]
            self.bad(e, 'operator call')
        if k == 'MCall':
            obj = self.ex(e['obj'], env)
            name = e['callee']['qn'].split('::')[-1]
            a = [self.ex(x, env) for x in e['args']]
            if isinstance(obj, str):
                if name in ('size', 'length'):
                    return len(obj)
                if name == 'empty':
                    return len(obj) == 0
                if name == 'substr':
                    pos = a[0] if a else 0
                    if pos > len(obj):
                        raise AnalysisBroken('minieval: %s calls substr beyond the end (throws)' % self.fn['qn'])
                    n = a[1] if len(a) > 1 and a[1] != -1 else len(obj)
                    return obj[pos:pos + n]
                if name == 'compare':
                    if len(a) == 1:
                        x, y = obj, a[0]
                    elif len(a) == 3:
                        if a[0] > len(obj):
                            raise AnalysisBroken('minieval: compare beyond the end (throws)')
                        x, y = obj[a[0]:a[0] + a[1]], a[2]
                    else:
                        self.bad(e, 'compare overload')
                    return (x > y) - (x < y)
                if name == 'find':
                    return obj.find(a[0], a[1] if len(a) > 1 and a[1] != -1 else 0)
                if name == 'rfind':
                    pos = a[1] if len(a) > 1 else -1
                    if pos == -1 or pos >= len(obj):
                        return obj.rfind(a[0])
                    return obj.rfind(a[0], 0, pos + len(a[0]))
                if name in ('begin', 'cbegin'):
                    return It(obj, 0)
                if name in ('end', 'cend'):
                    return It(obj, len(obj))
                if name in ('c_str', 'data'):
                    return obj
                if name in ('front', 'back'):
                    return obj[0 if name == 'front' else -1]
            self.bad(e, 'member call')
        if k == 'Call':
            name = e['callee']['qn']
            a = [self.ex(x, env) for x in e['args']]
            if name == 'std::min':
                return min(a[0], a[1])
            if name == 'std::max':
                return max(a[0], a[1])
            if name == 'std::equal' and len(a) in (3, 4) and all(isinstance(x, It) for x in a):
                first1, last1, first2 = a[0], a[1], a[2]
                n = last1.pos - first1.pos
                if n < 0 or last1.pos > len(first1.s):
                    raise AnalysisBroken('minieval: %s passes an invalid range to std::equal' % self.fn['qn'])
                if len(a) == 4:
                    if a[3].pos - first2.pos != n:
                        return False
                elif first2.pos + n > len(first2.s):
                    raise AnalysisBroken('minieval: %s: std::equal reads past the end of its second range '
                                         '(undefined behaviour) for these arguments' % self.fn['qn'])
                return first1.s[first1.pos:first1.pos + n] == first2.s[first2.pos:first2.pos + n]
            if name in ('std::strncmp', 'strncmp'):
                x, y, n = a
                return (x[:n] > y[:n]) - (x[:n] < y[:n])
            if name in ('std::strlen', 'strlen'):
                return len(a[0])
            self.bad(e, 'call')
        if k in ('Ctor', 'TempCtor'):
            a = [self.ex(x, env) for x in e['args']]
            if 'string' in e.get('ty', '') and a and isinstance(a[0], str):
                if len(a) >= 3 and isinstance(a[1], int):
                    return a[0][a[1]:a[1] + a[2]]
                return a[0]
            if len(a) == 1:
                return a[0]
            self.bad(e, 'constructor')
        self.bad(e, 'expression')

    def binop(self, op, a, b, e):
        if isinstance(a, It) and isinstance(b, int):
            if op == '+':
                return It(a.s, a.pos + b)
            if op == '-':
                return It(a.s, a.pos - b)
        if isinstance(a, It) and isinstance(b, It):
            if op == '-':
                return a.pos - b.pos
            if op == '==':
                return a.pos == b.pos
            if op == '!=':
                return a.pos != b.pos
            if op == '<':
                return a.pos < b.pos
        try:
            return {'+': lambda: a + b, '-': lambda: a - b, '*': lambda: a * b, '==': lambda: a == b,
                    '!=': lambda: a != b, '<': lambda: a < b, '<=': lambda: a <= b, '>': lambda: a > b,
                    '>=': lambda: a >= b, '/': lambda: (a // b if isinstance(a, int) and isinstance(b, int) else a / b),
                    '%': lambda: a % b}[op]()
        except (KeyError, TypeError, ZeroDivisionError):
            self.bad(e, 'binary operator')
