"""Scratch configure of /repo, compile database, d0ast export with content cache.

Nothing of /repo is compiled or executed: cmake only *configures* (generates
version.h, config.h, resource.cc, relocatable_lib.cc, BinReloc.h and the
compile database) in a scratch directory outside /repo and /verif which is
removed at exit.
"""
import atexit
import hashlib
import json
import os
import re
import shutil
import subprocess
import sys
import tempfile
from concurrent.futures import ThreadPoolExecutor

VERIF = os.path.dirname(os.path.dirname(os.path.abspath(__file__)))
REPO = os.environ.get('VERIF_REPO', '/repo')
D0AST = os.path.join(VERIF, 'build', 'd0ast')
CACHE = os.path.join(VERIF, '.cache')
STUBS = os.path.join(VERIF, 'stubs', 'geant4')

G4_UNITS = [
    'extensions/bxdecay0_g4/bxdecay0_g4/primary_generator_action.cc',
    'extensions/bxdecay0_g4/bxdecay0_g4/unique_point_vertex_generator.cc',
    'extensions/bxdecay0_g4/bxdecay0_g4/vertex_generator_interface.cc',
]


class AnalysisBroken(Exception):
    """exit code 2: the analysis itself cannot be trusted (anchor vanished, parse error...)"""


_scratch = None


def scratch_dir():
    global _scratch
    if _scratch is None:
        _scratch = tempfile.mkdtemp(prefix='bxd0verif.')
        atexit.register(lambda: shutil.rmtree(_scratch, ignore_errors=True))
    return _scratch


_db = None


def compile_db():
    """Configure /repo in scratch (no compilation) and return de-duplicated entries
    {file: [argv]} for library, programs and (with stubs) the Geant4 extension."""
    global _db
    if _db is not None:
        return _db
    sd = scratch_dir()
    bd = os.path.join(sd, 'cfg')
    r = subprocess.run(['cmake', '-S', REPO, '-B', bd, '-G', 'Ninja', '-DCMAKE_EXPORT_COMPILE_COMMANDS=ON'],
                       stdout=subprocess.PIPE, stderr=subprocess.STDOUT, text=True)
    if r.returncode != 0:
        raise AnalysisBroken('cmake configure failed:\n' + r.stdout[-2000:])
    raw = json.load(open(os.path.join(bd, 'compile_commands.json')))
    db = {}
    libflags = None
    for e in raw:
        f = e['file']
        if '/testing/' in f:
            continue
        if f in db:
            continue
        argv = e['command'].split() if 'command' in e else list(e['arguments'])
        # drop output options
        out = []
        skip = False
        for a in argv:
            if skip:
                skip = False
                continue
            if a == '-o':
                skip = True
                continue
            if a == '-c' or a == f:
                continue
            out.append(a)
        if f.endswith('.c'):
            flags = out[1:]
        else:
            flags = [a for a in out[1:] if not a.startswith('-std=')] + ['-std=c++11']
            if libflags is None and '/bxdecay0/' in f:
                libflags = flags
        db[f] = flags + ['-UNDEBUG', '-Wno-everything']
    # Geant4 extension units, parsed against the stand-in headers
    gen_inc = os.path.join(sd, 'g4gen')
    os.makedirs(os.path.join(gen_inc, 'bxdecay0_g4'), exist_ok=True)
    vin = os.path.join(REPO, 'extensions/bxdecay0_g4/bxdecay0_g4/version.hh.in')
    if os.path.exists(vin):
        txt = open(vin).read().replace('@BxDecay0_Geant4Plugin_VERSION@', '0.0.0')
        open(os.path.join(gen_inc, 'bxdecay0_g4', 'version.hh'), 'w').write(txt)
    for u in G4_UNITS:
        f = os.path.join(REPO, u)
        if os.path.exists(f):
            db[f] = [a for a in libflags if not a.startswith('-D')] + [
                '-I' + os.path.join(REPO, 'extensions/bxdecay0_g4'), '-I' + gen_inc, '-I' + STUBS,
                '-UNDEBUG', '-Wno-everything']
    _db = db
    return db


def _headers_digest():
    h = hashlib.sha256()
    roots = [os.path.join(REPO, 'bxdecay0'), os.path.join(REPO, 'programs'),
             os.path.join(REPO, 'extensions/bxdecay0_g4/bxdecay0_g4'), STUBS,
             os.path.join(scratch_dir(), 'cfg', 'bxdecay0')]
    for root in roots:
        for dp, dn, fn in sorted(os.walk(root)):
            dn.sort()
            for n in sorted(fn):
                if n.endswith(('.h', '.hh', '.hpp')):
                    p = os.path.join(dp, n)
                    h.update(n.encode())
                    # generated headers carry the scratch and source directories of this very run, and CMakeLists.txt mangles the
                    # BinReloc symbols with string(RANDOM ...): none of that is part of the identity of the tree
                    data = open(p, 'rb').read().replace(scratch_dir().encode(), b'$S').replace(REPO.encode(), b'$R')
                    data = re.sub(rb'BXDECAY0MB[A-Za-z0-9]{18}', b'BXDECAY0MB$RANDOM', data)
                    h.update(data)
    h.update(open(D0AST, 'rb').read() if os.path.exists(D0AST) else b'')
    return h.hexdigest()


CACHE_MAX, CACHE_KEEP = 4000, 2000


def _prune_cache():
    """the cache is keyed by content: every variant of the tree that is analysed (seeded or behaviour-preserving patches, scratch
    copies of the controls) adds entries, a header change adds one per unit.  Keep it bounded: beyond CACHE_MAX entries the oldest
    (by last use) are dropped down to CACHE_KEEP.  Entries are re-created on demand."""
    try:
        ents = [(e.stat().st_mtime, e.path) for e in os.scandir(CACHE) if e.is_file()]
    except OSError:
        return
    if len(ents) <= CACHE_MAX:
        return
    ents.sort()
    for _, path in ents[:len(ents) - CACHE_KEEP]:
        try:
            os.remove(path)
        except OSError:
            pass


def export_units(files):
    """Return {file: parsed JSON} for the given absolute source paths (cached by content)."""
    if not os.path.exists(D0AST):
        raise AnalysisBroken('d0ast not built; run ./setup.sh')
    db = compile_db()
    sd = scratch_dir()
    hd = _headers_digest()
    os.makedirs(CACHE, exist_ok=True)
    _prune_cache()
    todo = []
    keys = {}
    for f in files:
        if f not in db:
            raise AnalysisBroken('unit not in compile database: ' + f)
        k = hashlib.sha256((hd + '\0' + ' '.join(a.replace(sd, '$S').replace(REPO, '$R') for a in db[f])
                            + '\0' + os.path.relpath(f, REPO) + '\0').encode() + open(f, 'rb').read()).hexdigest()
        keys[f] = os.path.join(CACHE, k + '.json')
        if not os.path.exists(keys[f]):
            todo.append(f)
        else:
            try:
                os.utime(keys[f])            # last use, for the pruning order
            except OSError:
                pass
    if todo:
        dbdir = os.path.join(sd, 'db')
        os.makedirs(dbdir, exist_ok=True)
        entries = [{'directory': sd, 'file': f,
                    'arguments': (['clang'] if f.endswith('.c') else ['clang++']) + db[f] + ['-c', f]}
                   for f in todo]
        json.dump(entries, open(os.path.join(dbdir, 'compile_commands.json'), 'w'))
        outdir = os.path.join(sd, 'out')
        os.makedirs(outdir, exist_ok=True)
        n = min(16, len(todo))
        chunks = [todo[i::n] for i in range(n)]

        def run(chunk):
            return subprocess.run([D0AST, '-p', dbdir, '--outdir', outdir] + chunk,
                                  stdout=subprocess.PIPE, stderr=subprocess.STDOUT, text=True)
        with ThreadPoolExecutor(n) as ex:
            res = list(ex.map(run, chunks))
        for f in todo:
            o = os.path.join(outdir, f.replace('/', '%') + '.json')
            if not os.path.exists(o):
                msgs = '\n'.join(r.stdout[-3000:] for r in res if f in r.stdout or r.returncode)
                raise AnalysisBroken('d0ast produced nothing for %s\n%s' % (f, msgs))
            txt = open(o).read().replace(os.path.join(sd, 'cfg'), '$BUILD').replace(REPO + '/', '$REPO/')
            j = json.loads(txt)
            if j.get('errors'):
                msgs = '\n'.join(r.stdout[-3000:] for r in res if r.stdout.strip())
                raise AnalysisBroken('unit does not parse: %s\n%s' % (f, msgs))
            tmp = keys[f] + '.tmp%d' % os.getpid()
            open(tmp, 'w').write(txt)
            os.replace(tmp, keys[f])
            os.remove(o)
    out = {}
    for f in files:
        out[f] = json.loads(open(keys[f]).read().replace('$REPO/', REPO + '/'))
    return out


def unit_files(scope='lib'):
    """scope: 'lib' (library incl. generated), 'programs', 'g4', 'all'"""
    db = compile_db()
    lib = [f for f in db if ('/bxdecay0/' in f and '/extensions/' not in f and '/programs/' not in f)]
    prog = [f for f in db if '/programs/' in f]
    g4 = [f for f in db if '/extensions/' in f]
    if scope == 'lib':
        return sorted(lib)
    if scope == 'programs':
        return sorted(prog)
    if scope == 'g4':
        return sorted(g4)
    if scope == 'lib+programs':
        return sorted(lib + prog)
    return sorted(lib + prog + g4)


def repo_unit(rel):
    return os.path.join(REPO, rel)


class Program:
    """All exported units merged: functions by id and by qualified name."""

    def __init__(self, units):
        self.units = units
        self.functions = {}
        self.by_qn = {}
        self.statics = {}
        self.records = {}
        self.enums = {}
        for f, u in units.items():
            for fn in u['functions']:
                key = (fn['qn'], fn['id'])
                if key in self.functions:
                    continue
                fn['unit'] = f
                self.functions[key] = fn
                self.by_qn.setdefault(fn['qn'], []).append(fn)
            for s in u['statics']:
                k = (s['qn'], s['id'])
                old = self.statics.get(k)
                if old is None or (s.get('is_def') and not old.get('is_def')):
                    s['unit'] = f
                    self.statics[k] = s
            for r in u['records']:
                self.records.setdefault(r['qn'], r)
            for e in u['enums']:
                self.enums.setdefault(e['qn'], e)

    def fn(self, qn):
        """the unique function with this qualified name (AnalysisBroken if absent/ambiguous)"""
        l = self.by_qn.get(qn, [])
        if len(l) != 1:
            raise AnalysisBroken('anchor function %s: %d definitions found' % (qn, len(l)))
        return l[0]

    def fns(self, qn):
        return self.by_qn.get(qn, [])


def load(scope='lib', files=None):
    if files is None:
        files = unit_files(scope)
    return Program(export_units(files))


def relpath(p):
    if p.startswith(REPO + '/'):
        return p[len(REPO) + 1:]
    return p


if __name__ == '__main__':
    import time
    t = time.time()
    p = load(sys.argv[1] if len(sys.argv) > 1 else 'lib')
    print(len(p.units), 'units', len(p.functions), 'functions', len(p.statics), 'statics', len(p.records),
          'records', '%.1fs' % (time.time() - t))
