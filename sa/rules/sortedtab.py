"""TABLE.sorted: a binary search runs over a sorted range.

std::binary_search / lower_bound / upper_bound / equal_range have the precondition that the range is partitioned with respect to
the value; on an unsorted constant table they silently answer "not found" for some of its own members - a lookup that works for
every value a test happens to try and fails for the others.  For every call of these algorithms (default comparator) in the given
functions whose range is a constant array with a literal / enumerator initialiser, the initialiser is evaluated and must be
non-decreasing.  A range the rule cannot evaluate (run-time container, custom comparator) is counted, not judged."""
from .. import astu
from ..framework import where

ALGOS = ('std::binary_search', 'std::lower_bound', 'std::upper_bound', 'std::equal_range')


def _array_of(e):
    e = astu.strip_casts(e)
    if e is None:
        return None
    if e['k'] == 'Call' and astu.callee(e) in ('std::begin', 'std::cbegin', 'std::end', 'std::cend') and e.get('args'):
        return _array_of(e['args'][0])
    if e['k'] == 'MCall' and astu.callee(e).split('::')[-1] in ('begin', 'cbegin', 'end', 'cend', 'data'):
        return _array_of(e.get('obj'))
    if e['k'] == 'Un' and e.get('op') == '&':
        return _array_of(e['e'])
    if e['k'] == 'Idx':
        return _array_of(e['a'])
    if e['k'] == 'Bin' and e.get('op') == '+':
        return _array_of(e['a'])
    if e['k'] == 'Ref' and e.get('dk') in ('global', 'static_local', 'local'):
        return e
    return None


def _value(x):
    x = astu.strip_casts(x)
    if x is None:
        return None
    if x['k'] == 'Ref' and x.get('dk') == 'enum' and 'val' in x:
        return x['val']
    v = astu.num_value(x)
    if v is not None:
        return v
    if x['k'] == 'Chr' and isinstance(x.get('v'), int):
        return x['v']
    if x['k'] == 'Str':
        return x['v']
    return None


def check(rep, prog, keys, rule='TABLE.sorted'):
    rep.rule(rule, 'every std::binary_search / lower_bound / upper_bound / equal_range (default comparator) over a constant table runs over '
             'a table whose initialiser is non-decreasing: on an unsorted table the search misses some of the table\'s own members')
    ncall = njudged = 0
    for k in sorted(keys):
        fn = prog.functions[k]
        if not fn.get('body'):
            continue
        decls = {v.get('id'): v for d in astu.walk(fn['body']) if d['k'] == 'Decl' for v in d.get('vars', [])}
        for c in astu.walk(fn['body']):
            if c['k'] != 'Call' or astu.callee(c) not in ALGOS:
                continue
            ncall += 1
            if len(c['args']) != 3:
                continue                                 # custom comparator: not judged
            a = _array_of(c['args'][0])
            if a is None:
                continue
            var = None
            for (qn, vid), v in prog.statics.items():
                if vid == a.get('id'):
                    var = v
                    break
            if var is None:
                var = decls.get(a.get('id'))
            if var is None or not (var.get('const') or 'const' in var.get('ty', '')):
                continue
            init = astu.strip_casts(var.get('init'))
            if init is None or init['k'] != 'InitList':
                continue
            vals = [_value(x) for x in init['elts']]
            if any(v is None for v in vals) or len({type(v) is str for v in vals}) != 1:
                continue
            njudged += 1
            bad = [(i, vals[i], vals[i + 1]) for i in range(len(vals) - 1) if vals[i] > vals[i + 1]]
            names = [astu.src(x) for x in init['elts']]
            rep.add(rule, '%s:%s' % (fn['name'], a['name']), where(fn, c.get('l')),
                    '%s: %s over the constant table `%s` (%d entries) finds every entry' % (fn['name'], astu.callee(c).split('::')[-1], a['name'], len(vals)),
                    not bad, None if not bad else
                    ['`%s` is not sorted: entry %d (%s = %s) is followed by %s = %s; the search cannot find %s' %
                     (a['name'], i, names[i], x, names[i + 1], y, ', '.join(sorted({names[j + 1] for j, _, _ in bad}))) for i, x, y in bad[:2]])
    rep.analysed['binary-search calls (judged / all)'] = '%d / %d' % (njudged, ncall)
    return njudged
