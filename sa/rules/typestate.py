"""Typestate / state-discipline rules on a class with configure -> initialize -> use -> reset protocol."""
from .. import astu, ir
from ..framework import where
from ..project import AnalysisBroken
from . import cppflow
from .statics import written_refs, root_ref


def member_writes(fn):
    """names of data members of *this written by the function (direct, through _pimpl_->, or by a non-const call on a
    member object), with the line of the first write"""
    out = {}
    for n in astu.walk(fn['body']):
        tgt = None
        how = None
        k = n['k']
        if k == 'ForRange' and n['var']['ty'].rstrip().endswith('&') and 'const' not in n['var']['ty']:
            # for (T & x : member) { x = ...; }  writes the member
            vid = n['var']['id']
            if any(r.get('id') == vid for r, _, _ in written_refs(n['body'])):
                name = _member_name(n['range'])
                if name:
                    out.setdefault(name, n.get('l'))
        if k == 'Bin' and n['op'] in ('=', '+=', '-=', '*=', '/='):
            tgt = n['a']
        elif k == 'Un' and n['op'] in ('++', '--'):
            tgt = n['e']
        elif k == 'OpCall' and n['op'] in ('=', '+=', '++', '--') and n['args']:
            tgt = n['args'][0]
        elif k == 'MCall' and not n.get('callee', {}).get('const') and not n.get('callee', {}).get('static'):
            tgt = n['obj']
        if tgt is None:
            continue
        name = _member_name(tgt)
        if name:
            out.setdefault(name, n.get('l'))
    return out


def _member_name(e):
    """outermost data member of *this that the lvalue lives in: `_x_`, `_pimpl_->y.z` -> `_pimpl_.y`"""
    chain = []
    while e is not None:
        k = e.get('k')
        if k == 'Member':
            if e.get('dk') == 'field':
                chain.append(e['name'])
            e = e.get('base')
        elif k == 'OpCall' and e['op'] in ('->', '*', '[]') and e['args']:
            e = e['args'][0]
        elif k == 'Idx':
            e = e['a']
        elif k in ('Cast',):
            e = e['e']
        elif k == 'MCall' and e.get('callee', {}).get('qn', '').split('::')[-1] in ('get', 'operator->', '_grab_bb_params_'):
            if e['callee']['qn'].endswith('_grab_bb_params_'):
                chain.append('bb_params')
                chain.append('_pimpl_')
                e = None
                break
            e = e['obj']
        elif k == 'This':
            break
        else:
            return None
    if not chain:
        return None
    chain.reverse()
    if chain[0] == '_pimpl_' and len(chain) > 1:
        return '_pimpl_.' + chain[1]
    return chain[0]


def guard_dominates_writes(rep, prog, cls, rule, guard_call, exempt, when_true_throws=True):
    """every non-const public method (other than `exempt`) writes members only after `if (guard()) throw`"""
    rec = prog.records.get(cls)
    if rec is None:
        raise AnalysisBroken('class %s not found' % cls)
    n = 0
    for m in rec['methods']:
        if m.get('const') or m.get('static') or m.get('ctor') or m.get('dtor') or m['access'] != 'public' \
                or m['name'] in exempt or m.get('pure') or m.get('defaulted'):
            continue
        fns = prog.fns(m['qn'])
        fns = [f for f in fns if f['id'] == m['id']] or fns
        if not fns:
            continue
        fn = fns[0]
        w = member_writes(fn)
        # writes done by callees that are themselves guarded public setters are fine (set_x_by_label -> set_x); a guard folded
        # into a private helper (`_check_not_initialized_("set_x")`) is seen by expanding private helpers
        try:
            F = cppflow.Flow(fn, helpers=cppflow.private_helpers(prog, fn))
        except AnalysisBroken:
            F = cppflow.Flow(fn)
        guards = [(b, arm) for b, arm in F.throw_guards()
                  if any(nm.endswith(guard_call) for nm, _ in F.calls_in(b)) or cppflow.mentions(b.stmt[1], '_initialized_')]
        wnodes = [x for x in F.g.nodes if x.kind in ('assign', 'call') and _writes_member(x)]
        ok = True
        det = None
        if wnodes:
            if not guards:
                ok = False
                det = ['member written at line %d without an `if (%s()) throw` guard' % (wnodes[0].line, guard_call)]
            else:
                b, arm = guards[0]
                for x in wnodes:
                    if not (F.dominates(b, x) and x.id not in F.reach(b.succ[arm])):
                        ok = False
                        det = ['write at line %d is not dominated by the guard at line %d' % (x.line, b.line)]
        n += 1
        rep.add(rule, '%s::%s' % (cls.split('::')[-1], m['name']), where(fn),
                '%s(): members %s are written only after the `%s()` guard' % (m['name'], sorted(w) or '(none directly)', guard_call),
                ok, det, nontrivial=bool(wnodes))
    return n


def _writes_member(x):
    if x.kind == 'assign':
        l = x.stmt[1]
        return any(y[0] == 'fld' and y[1] == ('var', 'this') for y in ir.subexprs(l)) or \
            any(y[0] == 'fld' and y[2] == '_pimpl_' for y in ir.subexprs(l))
    if x.kind == 'call':
        nm = x.stmt[1]
        if nm.split('::')[-1] in ('push_back', 'clear', 'reset', 'insert', 'erase', 'emplace_back') and x.stmt[2]:
            return any(y[0] == 'fld' and y[1] == ('var', 'this') for y in ir.subexprs(x.stmt[2][0]))
    return False


def reset_complete(rep, prog, cls, reset_qn, rule, fields=None, ignore=()):
    """every data member of `cls` (and its bases) is assigned in the call closure of its reset routine"""
    rec = prog.records.get(cls)
    if rec is None:
        raise AnalysisBroken('class %s not found' % cls)
    allf = []

    def collect(r):
        for f in r['fields']:
            allf.append((f['name'], r['qn'], f['l'], f['ty']))
        for b in r['bases']:
            q = b['ty'].replace('struct ', '').replace('class ', '')
            br = prog.records.get(q) or prog.records.get('bxdecay0::' + q)
            if br:
                collect(br)
    collect(rec)
    written = {}
    seen = set()
    st = list(prog.fns(reset_qn))
    if not st:
        raise AnalysisBroken('reset routine %s not found' % reset_qn)
    while st:
        fn = st.pop()
        if id(fn) in seen:
            continue
        seen.add(id(fn))
        for name, line in member_writes(fn).items():
            written.setdefault(name, (fn, line))
        # loops over arrays: spthe1[i] = 0
        for n in astu.walk(fn['body']):
            if n['k'] == 'Bin' and n['op'] == '=' and n['a'].get('k') == 'Idx':
                r = root_ref(n['a'])
                if r is None:
                    nm = _member_name(n['a'])
                    if nm:
                        written.setdefault(nm, (fn, n['l']))
        for c in astu.calls(fn['body']):
            q = c['callee']['qn']
            if q in ('std::fill', 'std::fill_n', 'std::memset', 'memset') or q.endswith('::fill') or q.endswith('::assign'):
                # whole-array fills of a data member: std::fill(std::begin(m), std::end(m), v), m.fill(v), m.assign(n, v)
                for x in astu.walk({'k': 'X', 'args': c.get('args', []), 'obj': c.get('obj')}):
                    if x.get('k') == 'Member' and x.get('dk') == 'field' and x.get('base', {}).get('k') == 'This':
                        written.setdefault(x['name'], (fn, c.get('l')))
            if c['callee'].get('method') and (c['callee'].get('cls', '') in [x[1] for x in allf] or
                                              c['callee'].get('cls') == cls):
                st.extend(prog.fns(q))
    n = 0
    for name, owner, line, ty in allf:
        if name in ignore:
            continue
        n += 1
        ok = name in written or ('_pimpl_.' + name) in written
        rep.add(rule, '%s::%s' % (cls.split('::')[-1], name), where({'file': prog.records[owner]['file'], 'l': line}),
                '%s::%s (%s) is assigned by %s' % (owner.split('::')[-1], name, ty[:30], reset_qn.split('::')[-1] + '()'), ok,
                None if ok else ['no assignment to `%s` in the call closure of %s' % (name, reset_qn)])
    return n


def nothrow_calls(rep, prog, roots, rule, what):
    """THROW-PRECONDITION inside clean-up code: a project method that begins with `if (<getter>() is false) throw` (or the negation)
    states its precondition; in the clean-up functions `roots` (and the same-class functions they call) every call of such a method
    must be dominated by a test of that getter on the same object that excludes the throwing state.  Otherwise the clean-up itself can
    throw half-way and leave the object neither reset nor usable."""
    rep.rule(rule, what)
    seen, todo, n = set(), list(roots), 0
    while todo:
        fn = todo.pop()
        if id(fn) in seen or not fn.get('body'):
            continue
        seen.add(id(fn))
        F = cppflow.Flow(fn)
        for node in F.nodes(kind='call'):
            name = node.stmt[1]
            cands = [f for (qn, _), f in prog.functions.items() if qn.endswith('::' + name) and f.get('method') and f.get('body')]
            for c_ in cands:
                base = (fn.get('cls') or '').split('::pimpl_type')[0]
                if base and (c_.get('cls') or '').startswith(base) and c_ is not fn:
                    todo.append(c_)               # same class or its private implementation
            if len(cands) != 1 or not node.stmt[2]:
                continue
            callee = cands[0]
            FC = cppflow.Flow(callee)
            first = FC.g.nodes[FC.g.entry.succ[0]] if FC.g.entry.succ else None
            while first is not None and first.kind == 'branch' and first.succ[0] == first.succ[1]:
                first = FC.g.nodes[first.succ[0]]
            if first is None or first.kind != 'branch' or not any(FC.g.nodes[s_].kind == 'throw' for s_ in first.succ):
                continue
            c = first.stmt[1]
            neg = False
            while c[0] == 'op' and c[1] == 'not':
                neg = not neg
                c = c[2]
            if c[0] != 'call' or c[2:] != (('var', 'this'),):
                continue
            getter = c[1]
            throws_when_getter = (FC.g.nodes[first.succ[0]].kind == 'throw') != neg     # value of getter() that throws
            obj = node.stmt[2][0]
            n += 1
            ok = False
            def _conj(x):
                if x[0] == 'op' and x[1] == 'and':
                    return [y for z in x[2:] for y in _conj(z)]
                return [x]
            for b in F.nodes(kind='branch'):
              top = b.stmt[1]
              parts = _conj(top) if node.id in F.reach(b.succ[0]) and node.id not in F.reach(b.succ[1]) else [top]
              for t in parts:
                tneg = False
                while t[0] == 'op' and t[1] == 'not':
                    tneg = not tneg
                    t = t[2]
                if t[0] == 'call' and t[1] == getter and (t[2:] == (obj,) or (obj == ('var', 'this') and t[2:] == (('var', 'this'),)))\
                        and F.dominates(b, node):
                    # the arm on which the call lies has getter() == safe value
                    arm_true = node.id in F.reach(b.succ[0]) and node.id not in F.reach(b.succ[1])
                    arm_false = node.id in F.reach(b.succ[1]) and node.id not in F.reach(b.succ[0])
                    val = (arm_true != tneg) if (arm_true or arm_false) else None
                    if val is not None and val != throws_when_getter:
                        ok = True
            rep.add(rule, '%s->%s' % (fn['name'], name), where(fn, node.line),
                    '%s: %s(%s) is called only when %s() is %s (it throws otherwise)' %
                    (fn['name'], name, ir.fmt(obj)[:40], getter.split('::')[-1], 'false' if throws_when_getter else 'true'), ok,
                    None if ok else ['%s begins with `if (%s%s()) throw`; this call at line %d is not dominated by a test of %s() on the '
                                     'same object: the clean-up can throw half-way' %
                                     (name, '' if throws_when_getter else '!', getter.split('::')[-1], node.line, getter.split('::')[-1])])
    return n


def equality_complete(rep, prog, rule):
    """EQUALITY.complete: a member comparison of a record with another object of its own type covers every data member.

    For every class that defines `operator==` (or `operator!=`) taking a const reference to its own type: the data members compared
    with the same member of the other object (`f == o.f`, `f != o.f`), in the operator itself and in the same-class functions it
    hands the other object to, must be all the data members of the class.  A member left out makes two different objects compare
    equal - and whatever is skipped "because nothing changed" keeps running on the old value."""
    rep.rule(rule, 'an equality operator of a class compares every data member of the class with the same member of the other object '
             '(directly or through the same-class helpers it passes the other object to)')
    n = 0
    for qn, rec in sorted(prog.records.items()):
        ops = [f for (q, _), f in prog.functions.items() if f.get('cls') == qn and f['name'] in ('operator==', 'operator!=')
               and f.get('body') and len(f['params']) == 1 and qn.split('::')[-1] in f['params'][0].get('ty', '')]
        if not ops:
            continue
        fields = [f['name'] for f in rec.get('fields', [])]
        seen, todo, compared = set(), list(ops), set()
        while todo:
            fn = todo.pop()
            if id(fn) in seen:
                continue
            seen.add(id(fn))
            other = fn['params'][0]['name'] if fn['params'] else None
            for x in astu.walk(fn['body']):
                if x['k'] in ('Bin',) and x.get('op') in ('==', '!=') or (x['k'] == 'OpCall' and x.get('op') in ('==', '!=')):
                    a, b = (x['a'], x['b']) if x['k'] == 'Bin' else (x['args'][0], x['args'][1]) if len(x.get('args', [])) == 2 else (None, None)
                    if a is None:
                        continue
                    a, b = astu.strip_casts(a), astu.strip_casts(b)
                    for u, v in ((a, b), (b, a)):
                        if u['k'] == 'Member' and v['k'] == 'Member' and u['name'] == v['name'] and \
                                astu.strip_casts(v.get('base', {})).get('name') == other and \
                                astu.strip_casts(u.get('base', {})).get('k') in ('This', None):
                            compared.add(u['name'])
                if x['k'] in ('MCall', 'Call', 'OpCall') and x.get('callee', {}).get('cls') == qn:
                    if any(astu.strip_casts(a_).get('name') == other for a_ in x.get('args', [])) or \
                            (x['k'] == 'OpCall' and x.get('op') in ('==', '!=')):
                        for g in prog.fns(x['callee']['qn']):
                            if g.get('body') and g['params']:
                                todo.append(g)
        if not compared:
            continue
        n += 1
        missing = [f for f in fields if f not in compared]
        rep.add(rule, qn.split('::')[-1], where(ops[0]), '%s: operator== compares all %d data members' % (qn.split('::')[-1], len(fields)),
                not missing, None if not missing else ['not compared: %s - two objects that differ only there compare equal' % ', '.join(missing)])
    return n
