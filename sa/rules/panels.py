"""Composite Gauss-Legendre drivers (dgmlt1 / dgmlt2): buffer/flush structure of the node loop.

The Fortran routine evaluates the integrand in chunks of at most C = 64 nodes: nodes are appended to U/V and the buffer is
flushed when the fill count J reaches MV; MV starts at E(total) and is C afterwards.  Every node is summed exactly once iff
E = total (mod C) and 1 <= E <= C.  The congruence is decided in the ring Z/C (x mod C = x there); an interval evaluation
bounds E.  A violation is only reported with a concrete (NG, NI) witness found by folding E on integers; if neither proof
nor witness is found the rule is analysis-broken.
"""
from fractions import Fraction

from .. import ir
from ..framework import where
from ..project import AnalysisBroken
from . import cppflow, symflow
from .symalg import Poly


def _is(e, *shape):
    return isinstance(e, tuple) and e[:len(shape)] == shape


ONE = ir.num(1, 'i')


def _counted(F, b):
    """(var, lo expr, hi expr, inc node, init node) of a counted loop headed by branch b: `v <= hi`"""
    c = b.stmt[1]
    if not (_is(c, 'op', '<=') and c[2][0] == 'var'):
        return None
    v = c[2]
    incs = [n for n in F.nodes(kind='assign') if n.stmt[1] == v and n.stmt[2] == ('op', '+', v, ONE) and n.succ == [b.id]]
    inits = [n for n in F.nodes(kind='assign') if n.stmt[1] == v and n.succ == [b.id] and n not in incs]
    if len(incs) != 1 or len(inits) != 1:
        return None
    return v, inits[0].stmt[2], c[3], incs[0], inits[0]


def cong(e, total, C):
    """(a, b) with e = a*total + b (mod C), or None"""
    if e == total:
        return (1, 0)
    if e[0] == 'num' and e[1].denominator == 1:
        return (0, int(e[1]) % C)
    if _is(e, 'op', '+') and len(e) == 4:
        a, b = cong(e[2], total, C), cong(e[3], total, C)
        return None if a is None or b is None else ((a[0] + b[0]) % C, (a[1] + b[1]) % C)
    if _is(e, 'op', '-') and len(e) == 4:
        a, b = cong(e[2], total, C), cong(e[3], total, C)
        return None if a is None or b is None else ((a[0] - b[0]) % C, (a[1] - b[1]) % C)
    if _is(e, 'op', 'mod') and e[3] == ir.num(C, 'i'):
        return cong(e[2], total, C)
    if _is(e, 'op', '*') and len(e) == 4:
        a, b = cong(e[2], total, C), cong(e[3], total, C)
        if a is not None and b is not None:
            if a[0] == 0:
                return ((a[1] * b[0]) % C, (a[1] * b[1]) % C)
            if b[0] == 0:
                return ((b[1] * a[0]) % C, (b[1] * a[1]) % C)
    if _is(e, 'phi') or _is(e, 'op', '?:'):
        a, b = cong(e[2], total, C), cong(e[3], total, C)
        # `t % C == 0 ? C : t % C` style: both arms must be congruent to the same thing, the test arm under its assumption
        c = e[1]
        if _is(c, 'op', '==') and c[3] == ir.num(0, 'i') and _is(c[2], 'op', 'mod') and c[2][3] == ir.num(C, 'i') and \
                cong(c[2][2], total, C) == (1, 0) and a == (0, 0) and b == (1, 0):
            return (1, 0)
        return a if a is not None and a == b else None
    return None


def interval(e, total, C):
    """(lo, hi) with hi None = unbounded; None = unknown.  total >= 1"""
    if e == total:
        return (1, None)
    if e[0] == 'num' and e[1].denominator == 1:
        return (int(e[1]), int(e[1]))
    if _is(e, 'op', '+') and len(e) == 4:
        a, b = interval(e[2], total, C), interval(e[3], total, C)
        if a and b:
            return (a[0] + b[0], None if a[1] is None or b[1] is None else a[1] + b[1])
    if _is(e, 'op', '-') and len(e) == 4:
        a, b = interval(e[2], total, C), interval(e[3], total, C)
        if a and b and b[1] is not None:
            return (a[0] - b[1], None if a[1] is None else a[1] - b[0])
    if _is(e, 'op', 'mod') and e[3] == ir.num(C, 'i'):
        a = interval(e[2], total, C)
        if a and a[0] >= 0:
            return (0, C - 1)
    if _is(e, 'op', 'min') or _is(e, 'call', 'std::min'):
        a, b = interval(e[2], total, C), interval(e[3], total, C)
        if a and b:
            his = [x for x in (a[1], b[1]) if x is not None]
            return (min(a[0], b[0]), min(his) if his else None)
    if _is(e, 'phi') or _is(e, 'op', '?:'):
        a, b = interval(e[2], total, C), interval(e[3], total, C)
        if a and b:
            return (min(a[0], b[0]), None if a[1] is None or b[1] is None else max(a[1], b[1]))
    return None


def fold(e, env):
    """integer value of e (C++ semantics on the non-negative values that occur here), or None"""
    if e[0] == 'num' and e[1].denominator == 1:
        return int(e[1])
    if e[0] == 'var':
        return env.get(e[1])
    if e[0] in ('op', 'call', 'phi'):
        if e[0] == 'phi' or e[1] == '?:':
            c = fold(e[1] if e[0] == 'phi' else e[2], env)
            xs = e[2:] if e[0] == 'phi' else e[3:]
            if c is None:
                return None
            return fold(xs[0] if c else xs[1], env)
        a = [fold(x, env) for x in e[2:]]
        if any(x is None for x in a):
            return None
        o = e[1]
        try:
            if o == '+':
                return a[0] + a[1] if len(a) == 2 else a[0]
            if o == '-':
                return a[0] - a[1] if len(a) == 2 else -a[0]
            if o == 'neg':
                return -a[0]
            if o == '*':
                return a[0] * a[1]
            if o == 'mod':
                return int(Fraction(a[0]).__trunc__()) - a[1] * int(a[0] / a[1]) if a[1] else None
            if o == '/':
                return int(a[0] / a[1]) if a[1] else None
            if o in ('min', 'std::min'):
                return min(a)
            if o in ('max', 'std::max'):
                return max(a)
            if o in ('==', '!=', '<', '<=', '>', '>='):
                return int({'==': a[0] == a[1], '!=': a[0] != a[1], '<': a[0] < a[1], '<=': a[0] <= a[1], '>': a[0] > a[1],
                            '>=': a[0] >= a[1]}[o])
        except (ZeroDivisionError, IndexError):
            return None
    return None


def check(rep, prog, qn, groups):
    """groups: {order: first table index (0-based)} from the table rule"""
    fn = prog.fn(qn)
    short = qn.split('::')[-1]
    F = cppflow.Flow(fn)
    g = F.g
    loops = [(b, _counted(F, b)) for b in F.nodes(kind='branch')]
    loops = [(b, c) for b, c in loops if c is not None]
    stores = [n for n in F.nodes(kind='assign') if n.stmt[1][0] == 'idx']
    # inner loop = the counted loop whose body holds the two buffer stores; outer = the one containing the inner header
    def body_of(b):
        return {i for i in F.reach(b.succ[0]) if b.id in F.reach(i) and b.id in F.dom.get(i, ())}
    inner = [(b, c) for b, c in loops if sum(1 for s in stores if s.id in body_of(b)) >= 2 and
             not any(b2.id in body_of(b) and b2.id != b.id and sum(1 for s in stores if s.id in body_of(b2)) >= 2 for b2, c2 in loops)]
    if len(inner) != 1:
        raise AnalysisBroken('%s: node loop not found' % short)
    ib, (kv, klo, khi, kinc, kinit) = inner[0]
    outer = [(b, c) for b, c in loops if ib.id in body_of(b) and b.id != ib.id]
    if len(outer) != 1:
        raise AnalysisBroken('%s: outer (node index) loop not found' % short)
    ob, (iv, ilo, ihi, iinc, iinit) = outer[0]
    ibody = body_of(ib)
    R = symflow.Resolve(F, symbols={c[0][1] for b, c in loops})
    # ---- fill
    fills = [s for s in stores if s.id in ibody and not any(s.id in body_of(b) for b, c in loops if b.id in ibody and b.id != ib.id)]
    jv = None
    okfill, why = False, None
    if len(fills) == 2:
        subs = {s.stmt[1][2] for s in fills}
        if len(subs) == 1:
            sub = subs.pop()
            if _is(sub, 'op', '-') and sub[2][0] == 'var' and sub[3] == ONE:
                jv = sub[2]
    if jv is not None:
        incs = [n for n in F.nodes(kind='assign') if n.stmt[1] == jv and n.stmt[2] == ('op', '+', jv, ONE) and n.id in ibody
                and not any(n.id in body_of(b) for b, c in loops if b.id in ibody and b.id != ib.id)]
        okfill = len(incs) == 1 and incs[0].id == ib.succ[0] and all(F.dominates(incs[0], s) for s in fills)
        why = None if okfill else 'fill counter increments in the node loop: %d' % len(incs)
    rep.add('PANELS.fill', short, where(fn, ib.line), 'each (node, panel) iteration increments the fill count once, first, and stores weight and '
            'abscissa at that slot', okfill, why)
    if not okfill:
        return
    wstore = [s for s in fills if _is(s.stmt[2], 'idx')]
    ustore = [s for s in fills if s not in wstore]
    # weight index = node index
    okw = len(wstore) == 1 and len(ustore) == 1 and wstore[0].stmt[2][2] == ('op', '-', iv, ONE)
    uval = R.subst(ustore[0].stmt[2], ustore[0]) if ustore else None
    tidx = {x[2] for x in ir.subexprs(uval) if _is(x, 'idx')} if uval else set()
    okw = okw and tidx == {('op', '-', iv, ONE)}
    tabs = {x[1] for x in ir.subexprs(uval) if _is(x, 'idx')} if uval else set()
    rep.add('PANELS.pairing', short, where(fn, wstore[0].line if wstore else ib.line), 'the weight %s[I-1] and the node %s[I-1] of one slot carry the '
            'same table index' % (wstore[0].stmt[2][1] if wstore else '?', sorted(tabs)[0] if tabs else '?'), okw)
    # ---- node map: U = A + (K-1) D + R (1 + T),  D = (B - A)/NI, R = D/2
    a_, b_ = fn['params'][1]['name'], fn['params'][2]['name']
    ints = [p['name'] for p in fn['params'] if p.get('ty', '').replace('const ', '') == 'int']
    if khi[0] != 'var' or khi[1] not in ints or len(ints) != 2:
        raise AnalysisBroken('%s: panel count parameter not recognised' % short)
    ni = khi[1]
    ratios = []

    def sym(e):
        if e[0] == 'var':
            return Poly.sym(e[1])
        if _is(e, 'idx'):
            return Poly.sym('T')
        if _is(e, 'op', '/'):
            ratios.append((symflow.poly(e[2], sym), symflow.poly(e[3], sym)))
            return Poly.sym('D')
        raise AnalysisBroken('unexpected term %s' % ir.fmt(e))
    okmap, why = False, None
    try:
        p = symflow.poly(uval, sym)
        A, D, K, T = Poly.sym(a_), Poly.sym('D'), Poly.sym(kv[1]), Poly.sym('T')
        half = Poly.const(Fraction(1, 2))
        okmap = p == A + (K - Poly.const(1)) * D + half * D * (T + Poly.const(1)) and \
            all(r == (Poly.sym(b_) - A, Poly.sym(ni)) for r in ratios) and bool(ratios)
        why = None if okmap else 'abscissa = %r with D = %r' % (p, ratios[:1])
    except AnalysisBroken as ex:
        why = str(ex)
    rep.add('PANELS.node-map', short, where(fn, ustore[0].line if ustore else ib.line), 'abscissa = A + (K-1) D + (D/2)(1 + t_I), D = (B - A)/NI: node t_I of '
            '[-1,1] mapped affinely onto panel K', okmap, why)
    okk = klo == ONE and khi == ('var', ni)
    rep.add('PANELS.panel-loop', short, where(fn, ib.line), 'the panel index K runs 1..NI', okk, '%s..%s' % (ir.fmt(klo), ir.fmt(khi)))
    # ---- group selection
    ilo_v, ihi_v = R.subst(ilo, iinit), R.subst(ihi, ob)
    pairs = set()
    ng = [x for x in ints if x != ni][0]
    okgrp = True
    for ngval in (6, 8, 7, 5):
        lo, hi = fold(_unphi(ilo_v), {ng: ngval}), fold(_unphi(ihi_v), {ng: ngval})
        if lo is None or hi is None:
            okgrp = False
            break
        order = hi - lo + 1
        pairs.add((ngval, order, lo - 1))
        if order not in groups or groups[order] != lo - 1 or (ngval in groups and order != ngval):
            okgrp = False
    rep.add('PANELS.group', short, where(fn, ob.line), 'the node index runs over exactly one tabulated rule: NG = 8 -> the 8-point group, anything else -> the '
            '6-point group (NG, order, first index: %s)' % sorted(pairs), okgrp)
    # ---- flush
    fb = [b for b in F.nodes(kind='branch') if b.id in ibody and _is(b.stmt[1], 'op', '==') and b.stmt[1][2] == jv and b.stmt[1][3][0] == 'var']
    if len(fb) != 1:
        rep.add('PANELS.flush', short, where(fn, ib.line), 'the buffer is flushed when the fill count reaches MV', False, '%d tests of the fill count' % len(fb))
        return
    fb = fb[0]
    mv = fb.stmt[1][3]
    arm = {i for i in F.reach(fb.succ[0]) if fb.succ[0] in F.dom.get(i, ())} if g.preds()[fb.succ[0]] == [fb.id] else set()
    calls = [g.nodes[i] for i in arm if g.nodes[i].kind == 'call' and g.nodes[i].stmt[1].startswith('indirect:')]
    sums = [g.nodes[i] for i in arm if g.nodes[i].kind == 'assign' and g.nodes[i].stmt[1][0] == 'var' and _is(g.nodes[i].stmt[2], 'op', '+') and
            g.nodes[i].stmt[2][2] == g.nodes[i].stmt[1] and _is(g.nodes[i].stmt[2][3], 'op', '*')]
    resets = [g.nodes[i] for i in arm if g.nodes[i].kind == 'assign' and g.nodes[i].stmt[1] == jv and g.nodes[i].stmt[2] == ir.num(0, 'i')]
    chunk = [g.nodes[i] for i in arm if g.nodes[i].kind == 'assign' and g.nodes[i].stmt[1] == mv and g.nodes[i].stmt[2][0] == 'num']
    okfl = len(calls) == 1 and len(sums) == 1 and len(resets) == 1 and len(chunk) == 1 and resets[0].succ == [fb.succ[1]]
    detail = None
    C = None
    if okfl:
        C = int(chunk[0].stmt[2][1])
        cargs = calls[0].stmt[2]
        bufs = {wstore[0].stmt[1][1], ustore[0].stmt[1][1]}
        prod = sums[0].stmt[2][3]
        sl = [b for b, c in loops if sums[0].id in body_of(b) and b.id in arm]
        oksum = len(sl) == 1 and _counted(F, sl[0])[1] == ONE and _counted(F, sl[0])[2] == mv and _counted(F, sl[0])[0] == jv and \
            {x[1] for x in ir.subexprs(prod) if _is(x, 'idx')} == {wstore[0].stmt[1][1], cargs[2][1] if cargs[2][0] == 'var' else '?'} and \
            {x[2] for x in ir.subexprs(prod) if _is(x, 'idx')} == {('op', '-', jv, ONE)}
        okcall = cargs[0] == mv and cargs[1] == ('var', ustore[0].stmt[1][1]) and F.dominates(calls[0], sums[0])
        dims = _array_dims(fn, bufs | {cargs[2][1]})
        okdim = all(d == C for d in dims.values()) and len(dims) == 3
        okfl = oksum and okcall and okdim
        detail = None if okfl else 'sum loop %s, call %s, buffer sizes %s vs chunk %s' % (oksum, okcall, dims, C)
    rep.add('PANELS.flush', short, where(fn, fb.line), 'on J == MV: the integrand is evaluated on the MV buffered abscissae, the MV products weight * value are '
            'added, then MV = buffer size and J = 0', okfl, detail)
    if not okfl:
        return
    # ---- chunking arithmetic
    mv0 = [n for n in F.nodes(kind='assign') if n.stmt[1] == mv and n.id not in arm]
    j0 = [n for n in F.nodes(kind='assign') if n.stmt[1] == jv and n.stmt[2] == ir.num(0, 'i') and n.id not in arm and F.dominates(n, ob)]
    if len(mv0) != 1 or not F.dominates(mv0[0], ob) or len(j0) != 1:
        rep.add('PANELS.chunking', short, where(fn, ob.line), 'MV and J are initialised once before the node loops', False)
        return
    E = mv0[0].stmt[2]
    m0 = _trip(ilo, ihi)
    total = None
    for cand in (('op', '*', m0, ('var', ni)), ('op', '*', ('var', ni), m0)):
        if any(x == cand for x in ir.subexprs(E)):
            total = cand
    proof = False
    if total is not None:
        proof = cong(E, total, C) == (1, 0) and (interval(E, total, C) or (0, None))[0] >= 1 and \
            (interval(E, total, C) or (0, None))[1] is not None and interval(E, total, C)[1] <= C
    witness = None
    if not proof:
        Ev = R.subst(E, mv0[0])
        for ngval in (6, 8):
            for nival in range(1, 4 * C + 1):
                env = {ng: ngval, ni: nival}
                val = fold(_unphi_env(Ev, env), env)
                order = 8 if ngval == 8 else 6
                t = order * nival
                if val is None:
                    continue
                if val % C != t % C or not (1 <= val <= C):
                    witness = 'NG=%d NI=%d: %d nodes, first flush at %d (needs %d mod %d, within 1..%d)' % (ngval, nival, t, val, t % C or C, C, C)
                    break
            if witness:
                break
        if witness is None:
            raise AnalysisBroken('%s: cannot decide the chunking arithmetic of MV = %s (no proof, no witness)' % (short, ir.fmt(E)))
    rep.add('PANELS.chunking', short, where(fn, mv0[0].line), 'first flush size MV = %s satisfies MV = (number of nodes) mod %d and 1 <= MV <= %d for every NG, NI: '
            'every buffered node is flushed exactly once' % (ir.fmt(E), C, C), proof, witness)
    # ---- result scale
    ret = [n for n in g.nodes if n.kind == 'return']
    oks = False
    if len(ret) == 1 and ret[0].stmt[1] is not None:
        v = ret[0].stmt[1]
        svar = sums[0].stmt[1]
        if _is(v, 'op', '*') and svar in v[2:]:
            other = [x for x in v[2:] if x != svar][0]
            try:
                rat2 = []

                def sym2(e):
                    if e[0] == 'var':
                        return Poly.sym(e[1])
                    if _is(e, 'op', '/'):
                        rat2.append((symflow.poly(e[2], sym2), symflow.poly(e[3], sym2)))
                        return Poly.sym('D')
                    raise AnalysisBroken('unexpected')
                pr = symflow.poly(R.subst(other, ret[0]), sym2)
                oks = pr == Poly.const(Fraction(1, 2)) * Poly.sym('D') and rat2 == [(Poly.sym(b_) - Poly.sym(a_), Poly.sym(ni))]
            except AnalysisBroken:
                oks = False
        s0 = [n for n in F.nodes(kind='assign') if n.stmt[1] == svar and n.id not in arm]
        oks = oks and len(s0) == 1 and s0[0].stmt[2][0] == 'num' and s0[0].stmt[2][1] == 0 and F.dominates(s0[0], ob)
    rep.add('PANELS.scale', short, where(fn, ret[0].line if ret else None), 'result = (D/2) * sum, the sum starting at 0', oks)


def _trip(lo, hi):
    """hi - lo + 1 for lo = 1 + c, hi = m + c"""
    if _is(lo, 'op', '+') and _is(hi, 'op', '+') and lo[2] == ONE and lo[3] == hi[3]:
        return hi[2]
    if lo == ONE:
        return hi
    raise AnalysisBroken('panels: outer loop bounds %s..%s not of the form 1+c..m+c' % (ir.fmt(lo), ir.fmt(hi)))


def _unphi(e):
    return e


def _unphi_env(e, env):
    return e


def _array_dims(fn, names):
    from .. import astu
    out = {}
    for n in astu.walk(fn['body']):
        if n['k'] == 'Decl':
            for v in n['vars']:
                if v['name'] in names:
                    ty = v.get('ty', '')
                    if '[' in ty:
                        try:
                            out[v['name']] = int(ty[ty.index('[') + 1:ty.index(']')])
                        except ValueError:
                            out[v['name']] = None
    return out
