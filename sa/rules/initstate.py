"""DEF-BEFORE-USE: decay0_generator::_init_ re-assigns its working state before consulting it (forward must-dataflow)."""
from .. import ir
from ..framework import where
from . import cppflow

GEN = 'bxdecay0::decay0_generator'


def def_before_use(rep, prog):
    rep.rule('DEF-BEFORE-USE', 'in _init_ every read of the working state of the private implementation (bb_params, '
             'use_dbd_ga) is preceded on every path by an assignment made in _init_ itself: nothing of a previous '
             '(possibly failed) initialisation is consulted')
    ini = prog.fn(GEN + '::_init_')
    FI = cppflow.Flow(ini)

    def defines(x):
        d = set()
        if x.kind == 'assign':
            l = ir.fmt(x.stmt[1])
            if l.endswith('.bb_params'):
                d.add('bb_params')
            if l.endswith('.use_dbd_ga'):
                d.add('use_dbd_ga')
        if x.kind == 'call' and x.stmt[1] == 'bbpars::reset':
            d.add('bb_params')
        return d

    def reads(x):
        r = set()
        exprs = list(FI.exprs(x))
        if x.kind == 'assign':
            exprs = [x.stmt[2]] + ([x.stmt[1]] if not ir.fmt(x.stmt[1]).endswith(('.bb_params', '.use_dbd_ga')) else [])
        for e in exprs:
            t = ir.fmt(e)
            if '_grab_bb_params_' in t or '.bb_params' in t:
                r.add('bb_params')
            if 'use_dbd_ga' in t:
                r.add('use_dbd_ga')
        if x.kind == 'assign' and ('_grab_bb_params_' in ir.fmt(x.stmt[1]) or '.bb_params.' in ir.fmt(x.stmt[1])):
            r.add('bb_params')       # a field store into the struct presupposes the struct was re-initialised
        if x.kind == 'call' and x.stmt[1] == 'bbpars::reset':
            r.discard('bb_params')
        return r
    g = FI.g
    IN = {x.id: None for x in g.nodes}
    preds = g.preds()
    order = g.rpo()
    OUT = {}
    changed = True
    while changed:
        changed = False
        for i in order:
            x = g.nodes[i]
            ps = [OUT[p] for p in preds[i] if p in OUT]
            inn = set.intersection(*ps) if ps else set()
            out = inn | defines(x)
            if IN[i] != inn or OUT.get(i) != out:
                IN[i], OUT[i] = inn, out
                changed = True
    seen_fields = set()
    for i in order:
        x = g.nodes[i]
        for f in reads(x):
            if f in (IN[i] or set()):
                seen_fields.add(f)
                continue
            rep.add('DEF-BEFORE-USE', '_init_:%s:%s' % (f, ir.fmt_stmt(x.stmt)[:40]), where(ini, x.line),
                    '_init_: `%s` is assigned in _init_ before this read' % f, False,
                    ['line %d reads %s of the private implementation, which no statement of _init_ has assigned on some '
                     'path to it: a value left by an earlier initialisation is used' % (x.line, f)])
    for f in ('bb_params', 'use_dbd_ga'):
        rep.add('DEF-BEFORE-USE', '_init_:' + f, where(ini), '_init_ assigns `%s` before every read of it' % f,
                not any(i.rule == 'DEF-BEFORE-USE' and not i.ok and (':' + f + ':') in i.key for i in rep.instances))
