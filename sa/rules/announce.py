"""READER.announce-stable: once has_next_event() has announced an event, asking again (without loading) announces it again.

"Whenever the reader announces a next event, loading it succeeds" is usually exercised with the canonical loop
`while (has_next) load`.  A reader whose has_next_event() changes state (it may close a file, open the next one, or - in a
look-ahead design - fetch the event) can answer `true` and, polled a second time before the load, answer `false`: the announced
event is lost for every caller that guards the loop with an `if`, polls twice, or consults is_terminated() in between.

Decided by abstract interpretation of has_next_event() and the private methods it reaches, over the product of
  fin (null / open), _terminated_ (0 / 1), end-of-file knowledge of the open stream (unknown / known not at eof),
  every other boolean-like data member that is only assigned literals or results of such methods,
with least-fixpoint summaries (input state -> set of (output state, return value)).  From every state of the class invariant
the first call is interpreted; from every output state with return value `true` the call is interpreted again: a definite
`false` among the second answers is the violation; an unknown answer is "cannot decide"."""
from .. import ir
from ..framework import where
from . import cppflow

FIN = 'operator->(this._pimpl_).fin'
BOOL = 'std::unique_ptr::operator bool(%s)' % FIN
DEREFS = ('operator*(%s)' % FIN, 'operator->(%s)' % FIN)
PURE = ('is_terminated', 'is_debug', 'is_trace', 'is_configured')


class Interp:
    def __init__(self, prog, cls='bxdecay0::event_reader'):
        self.flows = {}
        for k, f in prog.functions.items():
            if f.get('cls') == cls and f.get('body'):
                self.flows[f['name']] = (f, cppflow.Flow(f, keep_io=True))
        self.summ = {}
        self.lost = False

    # state: (f, t, e, members) ; in-body: + locals, ret handled at return
    def cond(self, c, st, loc):
        flip = False
        while c[0] == 'op' and c[1] == 'not' and len(c) == 3:
            c, flip = c[2], not flip
        v = self.value(c, st, loc)
        if v is None:
            return True, True
        v = bool(v)
        if flip:
            v = not v
        return v, not v

    def value(self, c, st, loc):
        t = ir.fmt(c)
        if c[0] == 'num':
            return 1 if c[1] != 0 else 0
        if t == BOOL or t == FIN:
            return 1 if st[0] == 'V' else 0
        if t in ('this._terminated_', 'event_reader::is_terminated(this)'):
            return st[1]
        if t in ('event_reader::is_configured(this)', 'this._configured_'):
            return 1                # the reader is configured: the property is about a reader in use
        if t.startswith('std::basic_ios::eof(') and any(d in t for d in DEREFS):
            return 0 if st[2] == 'no' else None
        if c[0] == 'op' and c[1] == 'not' and len(c) == 3:
            v = self.value(c[2], st, loc)
            return None if v is None else 1 - v
        mem = dict(st[3])
        if t in mem:
            return mem[t]
        if c[0] == 'var':
            return dict(loc).get(c[1])
        return None

    def run(self, name, st, stack=()):
        key = (name, st)
        if key in stack:
            return self.summ.get(key, frozenset())
        if key in self.summ and not stack:
            return self.summ[key]
        fn, F = self.flows[name]
        self.summ.setdefault(key, frozenset())
        for _ in range(12):
            outs, seen = set(), set()
            work = [(F.g.entry.id if hasattr(F.g.entry, 'id') else 0, st, frozenset())]
            while work:
                nid, s, loc = work.pop()
                if (nid, s, loc) in seen:
                    continue
                seen.add((nid, s, loc))
                if len(seen) > 40000:
                    self.lost = True
                    break
                n = F.g.nodes[nid]
                nxt = [(x, s, loc) for x in n.succ]
                if n.stmt is not None:
                    if n.kind == 'throw':
                        continue
                    if n.kind == 'return':
                        e = n.stmt[1]
                        if e is not None and isinstance(e, tuple) and e[0] == 'call' and e[1].split('::')[-1] in self.flows \
                                and e[1].split('::')[-1] not in PURE:
                            for (s2, r) in self.run(e[1].split('::')[-1], s, stack + (key,)):
                                outs.add((s2, r))
                        else:
                            outs.add((s, self.value(e, s, loc) if isinstance(e, tuple) else None))
                        continue
                    if n.kind == 'call':
                        cal, args = n.stmt[1], n.stmt[2]
                        short = cal.split('::')[-1]
                        if cal.endswith('unique_ptr::reset') and args and ir.fmt(args[0]) == FIN:
                            s2 = ('V' if len(args) > 1 and ir.fmt(args[1]).startswith('new(') else 'N', s[1], '?', s[3])
                            nxt = [(x, s2, loc) for x in n.succ]
                        elif cal.startswith('event_reader::') and short in self.flows and short not in PURE:
                            res = self.run(short, s, stack + (key,))
                            nxt = [(x, s2, loc) for x in n.succ for (s2, r) in res]
                        elif cal.startswith('operator>>') and any(d in ir.fmt_stmt(n.stmt) for d in DEREFS):
                            only_ws = len(args) == 2 and ir.fmt(args[1]) == 'std::ws' and ir.fmt(args[0]) in DEREFS
                            if not only_ws:
                                s2 = (s[0], s[1], '?', s[3])
                                nxt = [(x, s2, loc) for x in n.succ]
                    elif n.kind == 'assign':
                        lhs, rhs = n.stmt[1], n.stmt[2]
                        lt = ir.fmt(lhs)
                        rv, res = None, None
                        if isinstance(rhs, tuple) and rhs[0] == 'call' and rhs[1].split('::')[-1] in self.flows and rhs[1].split('::')[-1] not in PURE:
                            res = self.run(rhs[1].split('::')[-1], s, stack + (key,))
                        else:
                            rv = self.value(rhs, s, loc)
                        cases = [(s, rv)] if res is None else list(res)
                        nxt = []
                        for (s2, r) in cases:
                            if lt == 'this._terminated_':
                                for b in ((r,) if r is not None else (0, 1)):
                                    nxt += [(x, (s2[0], b, s2[2], s2[3]), loc) for x in n.succ]
                            elif lhs[0] == 'var':
                                l2 = frozenset(p for p in loc if p[0] != lhs[1]) | ({(lhs[1], r)} if r is not None else frozenset())
                                nxt += [(x, s2, l2) for x in n.succ]
                            elif lt.startswith('this.') or lt.startswith('operator->(this._pimpl_).'):
                                m2 = frozenset(p for p in s2[3] if p[0] != lt) | ({(lt, r)} if r is not None else frozenset())
                                nxt += [(x, (s2[0], s2[1], s2[2], m2), loc) for x in n.succ]
                            else:
                                nxt += [(x, s2, loc) for x in n.succ]
                    elif n.kind == 'branch' and len(n.succ) == 2:
                        mt, mf = self.cond(n.stmt[1], s, loc)
                        c = n.stmt[1]
                        flip = False
                        while c[0] == 'op' and c[1] == 'not' and len(c) == 3:
                            c, flip = c[2], not flip
                        is_eof = ir.fmt(c).startswith('std::basic_ios::eof(')
                        nxt = []
                        for side_true, ok_ in ((True, mt), (False, mf)):
                            if not ok_:
                                continue
                            s2 = s
                            if is_eof and ((side_true and flip) or (not side_true and not flip)):
                                s2 = (s[0], s[1], 'no', s[3])      # the eof() test was false on this edge
                            nxt.append((n.succ[0] if side_true else n.succ[1], s2, loc))
                work.extend(nxt)
            outs = frozenset(outs)
            if outs <= self.summ[key]:
                return self.summ[key]
            self.summ[key] = self.summ[key] | outs
        self.lost = True
        return self.summ[key]


def check(rep, prog, rule='READER.announce-stable'):
    rep.rule(rule, 'has_next_event() answered `true` => has_next_event() asked again, with no load in between, answers `true`: abstract '
             'interpretation of the reader over (fin, terminated, eof knowledge, boolean members) with fixpoint summaries carrying the '
             'return value; a definite `false` on the second poll is reported (the announced event would be lost), an unknown answer is '
             'not decided')
    it = Interp(prog)
    if 'has_next_event' not in it.flows:
        rep.cannot_decide(rule, 'bxdecay0/event_reader.cc', 'has_next_event not found')
        return 0
    fn = it.flows['has_next_event'][0]
    n1 = n2 = 0
    bad, unk = [], []
    for s in (('V', 0, '?', frozenset()), ('V', 0, 'no', frozenset())):
        for (s1, r1) in sorted(it.run('has_next_event', s), key=str):
            n1 += 1
            if r1 != 1:
                continue
            for (s2, r2) in sorted(it.run('has_next_event', s1), key=str):
                n2 += 1
                if r2 == 0:
                    bad.append((s, s1, s2))
                elif r2 is None:
                    unk.append((s, s1))

    def show(s):
        return '(fin %s, terminated=%s, %s%s)' % ('open' if s[0] == 'V' else 'null', bool(s[1]), 'not at eof' if s[2] == 'no' else 'eof unknown',
                                                  ''.join(', %s=%s' % (k.split('.')[-1], v) for k, v in sorted(s[3])))
    if it.lost:
        rep.cannot_decide(rule, where(fn), 'the interpretation did not converge within its bounds')
    elif bad:
        s, s1, s2 = bad[0]
        rep.add(rule, 'has_next_event', where(fn), 'a second poll of has_next_event() confirms the first', False,
                ['from %s the first call answers true and leaves %s; asked again it answers false (state %s): the announced event is never '
                 'delivered to a caller that polls twice' % (show(s), show(s1), show(s2))])
    elif unk:
        rep.cannot_decide(rule, where(fn), 'the second answer from %s is not determined by the tracked state' % show(unk[0][1]))
    else:
        rep.add(rule, 'has_next_event', where(fn), 'a second poll of has_next_event() confirms the first (%d first-call outcomes, %d second-call '
                'outcomes interpreted)' % (n1, n2), True)
    rep.analysed['has_next_event outcomes interpreted (first / second poll)'] = '%d / %d' % (n1, n2)
    return n1
