"""Composite Simpson rule decay0_tsimpr(f, a, b, h): weight pattern and exactness on cubics for every panel count.

The routine computes s = f(a) + f(b) + sum_{j=1}^{m-1} 2 f(a + 2jh) + sum_{j=1}^{m} 4 f(a + (2j-1)h), result s*h/3 with
h = (b-a)/(2m).  The rule extracts the two loops (bounds, weights, abscissa formulas) from the lowered function and then
proves, with Faulhaber's closed forms for sum j^p (p <= 3), that for f = x^k, k = 0..3, the result equals
(b^(k+1) - a^(k+1))/(k+1) as a polynomial identity in a, h, m after substituting b = a + 2mh.
"""
from fractions import Fraction

from .. import ir
from ..framework import where
from ..project import AnalysisBroken
from . import cppflow, symflow
from .symalg import Poly


def _is(e, *shape):
    return isinstance(e, tuple) and e[:len(shape)] == shape


def faulhaber(p, n):
    """sum_{j=1}^{n} j^p as a Poly in n (Poly)"""
    one = Poly.const(1)
    if p == 0:
        return n
    if p == 1:
        return n * (n + one) * Poly.const(Fraction(1, 2))
    if p == 2:
        return n * (n + one) * (n * Poly.const(2) + one) * Poly.const(Fraction(1, 6))
    if p == 3:
        s = n * (n + one) * Poly.const(Fraction(1, 2))
        return s * s
    raise AnalysisBroken('faulhaber: power %d' % p)


def sum_poly(expr_in_j, jsym, n):
    """sum_{j=1}^{n} expr(j) where expr is a Poly in jsym (degree <= 3) and other symbols"""
    out = Poly()
    rest = expr_in_j
    # split by power of j
    bypow = {}
    for k, v in rest.t.items():
        d = dict(k)
        pw = d.pop(jsym, 0)
        bypow.setdefault(pw, {})[tuple(sorted(d.items()))] = v
    for pw, t in bypow.items():
        out = out + Poly(t) * faulhaber(pw, n)
    return out


def ppow(p, k):
    r = Poly.const(1)
    for _ in range(k):
        r = r * p
    return r


def check(rep, prog):
    rep.rule('SIMPSON', 'decay0_tsimpr: end points weight 1, even interior nodes weight 2 (j = 1..m-1), odd nodes weight 4 (j = 1..m), '
             'scale h/3 with h = (b-a)/(2m); for f = 1, x, x^2, x^3 the result equals the exact integral for every a, h, m '
             '(polynomial identity via closed-form sums)')
    fn = prog.fn('bxdecay0::decay0_tsimpr')
    F = cppflow.Flow(fn)
    g = F.g
    fpar, a_, b_ = (p['name'] for p in fn['params'][:3])
    R = symflow.Resolve(F)
    # accumulation statements s := s + w * f(x)
    accs = []
    svar = None
    for n in F.nodes(kind='assign'):
        r = n.stmt[2]
        if n.stmt[1][0] == 'var' and _is(r, 'op', '+') and r[2] == n.stmt[1]:
            t = r[3]
            if _is(t, 'op', '*') and t[2][0] == 'num' and _is(t[3], 'call') and t[3][1].startswith('indirect:'):
                accs.append((n, t[2][1], t[3][2]))
                svar = n.stmt[1]
    if len(accs) != 2 or svar is None:
        raise AnalysisBroken('tsimpr: expected 2 weighted accumulation loops, found %d' % len(accs))
    init = [n for n in F.nodes(kind='assign') if n.stmt[1] == svar and n not in [a[0] for a in accs]]
    ok0 = len(init) == 1 and _is(init[0].stmt[2], 'op', '+') and \
        sorted(ir.fmt(x[2]) for x in init[0].stmt[2][2:] if _is(x, 'call')) == sorted([a_, b_])
    rep.add('SIMPSON', 'end-points', where(fn, init[0].line if init else None), 's starts as f(a) + f(b) (weight 1 each)', ok0)
    hsym, msym, asym = Poly.sym('h'), Poly.sym('m'), Poly.sym(a_)
    terms = []
    okloops = True
    detail = []
    for n, w, x in accs:
        # enclosing counted loop
        hb = [b for b in F.nodes(kind='branch') if n.id in F.reach(b.succ[0]) and b.id in F.reach(n.id) and _is(b.stmt[1], 'op', '<=')]
        if len(hb) != 1:
            okloops = False
            detail.append('loop of line %d not found' % n.line)
            continue
        jv = hb[0].stmt[1][2]
        hi = hb[0].stmt[1][3]
        inits = [q for q in F.nodes(kind='assign') if q.stmt[1] == jv and q.succ == [hb[0].id] and q.stmt[2][0] == 'num']
        if len(inits) != 1 or inits[0].stmt[2][1] != 1:
            okloops = False
            detail.append('loop at line %d does not start at 1' % hb[0].line)
            continue

        def sym(e, _jv=jv):
            if e == _jv:
                return Poly.sym('j')
            if e == ('var', a_):
                return asym
            if e[0] == 'var' and e[1] == 'h':
                return hsym
            if e[0] == 'var' and e[1] == 'm':
                return msym
            if _is(e, 'call') and len(e) == 3 and e[1] in ('double', 'unsigned long', 'size_t', 'std::size_t'):
                return symflow.poly(e[2], sym)
            raise AnalysisBroken('unexpected term %s' % ir.fmt(e))
        try:
            xp = symflow.poly(R.subst(x, n) if False else _expand_local(F, R, x, n), sym)
            hip = symflow.poly(hi, sym)
        except AnalysisBroken as ex:
            okloops = False
            detail.append(str(ex))
            continue
        terms.append((Fraction(w), xp, hip))
    want = {(Fraction(2), 'even'), (Fraction(4), 'odd')}
    got = set()
    for w, xp, hip in terms:
        j = Poly.sym('j')
        if xp == asym + Poly.const(2) * j * hsym and hip == msym - Poly.const(1):
            got.add((w, 'even'))
        elif xp == asym + (Poly.const(2) * j - Poly.const(1)) * hsym and hip == msym:
            got.add((w, 'odd'))
        else:
            detail.append('weight %s at x = %r for j = 1..%r' % (w, xp, hip))
    rep.add('SIMPSON', 'weights', where(fn), 'weight 2 at a + 2jh for j = 1..m-1 and weight 4 at a + (2j-1)h for j = 1..m', okloops and got == want,
            '; '.join(detail) or None)
    # h = (b - a)/(2 m) and result s*h/3
    hdef = [n for n in F.nodes(kind='assign') if n.stmt[1] == ('var', 'h')]
    okh = len(hdef) == 1 and _is(hdef[0].stmt[2], 'op', '/') and ir.fmt(hdef[0].stmt[2][2]) == '(%s - %s)' % (b_, a_) and \
        ir.fmt(hdef[0].stmt[2][3]).replace('double(', '').replace(')', '').replace('(', '') in ('2 * m', 'm * 2')
    ret = [n for n in g.nodes if n.kind == 'return' and n.stmt[1] is not None]
    okr = len(ret) == 1 and ir.fmt(ret[0].stmt[1]) in ('((s * h) / 3.)', '((h * s) / 3.)', '(s * (h / 3.))')
    rep.add('SIMPSON', 'scale', where(fn, ret[0].line if ret else None), 'h = (b - a)/(2m) and the result is s h / 3', okh and okr,
            None if okh and okr else 'h := %s; return %s' % (ir.fmt(hdef[0].stmt[2]) if hdef else '?', ir.fmt(ret[0].stmt[1]) if ret else '?'))
    if not (okloops and got == want and ok0 and okh and okr):
        return
    # exactness on cubics
    b = asym + Poly.const(2) * msym * hsym
    for k in range(4):
        s = ppow(asym, k) + ppow(b, k)
        for w, xp, hip in terms:
            s = s + Poly.const(w) * sum_poly(ppow(xp, k), 'j', hip)
        res = s * hsym * Poly.const(Fraction(1, 3))
        exact = (ppow(b, k + 1) - ppow(asym, k + 1)) * Poly.const(Fraction(1, k + 1))
        rep.add('SIMPSON', 'exact:x^%d' % k, where(fn), 'for f = x^%d the rule returns (b^%d - a^%d)/%d for every a, h, m' % (k, k + 1, k + 1, k + 1),
                res == exact, None if res == exact else 'difference %r' % (res - exact))


def _expand_local(F, R, x, n):
    """x is a local defined in the loop body just before the accumulation: substitute its definition (not the loop counter)"""
    if x[0] == 'var':
        ds = sorted(R.IN[n.id].get(x[1], ()))
        if len(ds) == 1:
            return F.g.nodes[ds[0]].stmt[2]
    return x
