"""Energy-sum window forwarding in decay0_generator::_init_: each bound reaches the engine on its own.

`set_decay_dbd_esum_range(emin, emax)` accepts a one-sided window (the other bound NaN = engine default).  The bound `_energy_min_`
must therefore be copied into `bb_params.ebb1` under a condition that depends on `_energy_min_` only (and on the mode), and likewise
`_energy_max_` -> `ebb2`; a store guarded by the *other* bound silently ignores a one-sided window.
"""
from .. import astu, ir
from ..framework import where
from ..project import AnalysisBroken
from . import cppflow

GEN = 'bxdecay0::decay0_generator'


def _cond_fields(prog, c, depth=0):
    """data members of the generator a condition depends on, looking through const member functions (one return expression)"""
    out = set()
    for x in ir.subexprs(c):
        if x[0] == 'fld' and x[1] == ('var', 'this'):
            out.add(x[2])
        if x[0] == 'call' and x[1].startswith('decay0_generator::') and depth < 2:
            for f in prog.fns(GEN + '::' + x[1].split('::')[-1]):
                for n in astu.walk(f['body']):
                    if n['k'] == 'Member' and n.get('base', {}).get('k') == 'This':
                        out.add(n['name'])
    return out


def forward(rep, prog, rule):
    fn = prog.fn(GEN + '::_init_')
    F = cppflow.Flow(fn)
    for field, bound in (('ebb1', '_energy_min_'), ('ebb2', '_energy_max_')):
        stores = [n for n in F.nodes(kind='assign') if n.stmt[1][0] == 'fld' and n.stmt[1][2] == field and
                  any(x[0] == 'fld' and x[2] == bound for x in ir.subexprs(n.stmt[2]))]
        if len(stores) != 1:
            rep.cannot_decide(rule, where(fn), 'expected one store of %s into bb_params.%s in _init_, found %d' % (bound, field, len(stores)))
            continue
        s = stores[0]
        guards = [b for b in F.nodes(kind='branch') if F.dominates(b, s) and b.succ[0] != b.succ[1] and
                  (s.id in F.reach(b.succ[0])) != (s.id in F.reach(b.succ[1]))]
        deps = set()
        for b in guards:
            deps |= _cond_fields(prog, b.stmt[1])
        other = {'_energy_min_', '_energy_max_'} - {bound}
        ok = bound in deps and not (deps & other)
        rep.add(rule, 'one-sided:' + field, where(fn, s.line), 'bb_params.%s receives %s under a condition on %s alone (window fields in the guards: %s): '
                'a one-sided window is honoured' % (field, bound, bound, sorted(d for d in deps if d.startswith('_energy_'))), ok)
