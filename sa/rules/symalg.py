"""Algebraic normal form of straight-line C++ helper functions (vector/matrix arithmetic).

The functions handled have no branches and no loops: their value is a fixed polynomial expression of their inputs.
`Alg` folds that expression from the d0ast JSON into polynomials over symbols (one symbol per scalar input, `c:<a>` /
`s:<a>` for cos/sin of an angle symbol), inlining project callees.  No path is explored and nothing is executed: a
branch, loop or unknown call raises AnalysisBroken (exit 2).  The normal form reduces s^2 -> 1 - c^2 per angle, so
trigonometric identities of rotation matrices are decided by polynomial identity.
"""
from fractions import Fraction

from ..project import AnalysisBroken
from .. import astu


class Poly:
    __slots__ = ('t',)

    def __init__(self, t=None):
        self.t = {k: v for k, v in (t or {}).items() if v != 0}

    @staticmethod
    def const(c):
        return Poly({(): Fraction(c)})

    @staticmethod
    def sym(name):
        return Poly({((name, 1),): Fraction(1)})

    def __add__(self, o):
        t = dict(self.t)
        for k, v in o.t.items():
            t[k] = t.get(k, 0) + v
        return Poly(t)

    def __neg__(self):
        return Poly({k: -v for k, v in self.t.items()})

    def __sub__(self, o):
        return self + (-o)

    def __mul__(self, o):
        t = {}
        for k1, v1 in self.t.items():
            for k2, v2 in o.t.items():
                d = dict(k1)
                for s, e in k2:
                    d[s] = d.get(s, 0) + e
                k = tuple(sorted((s_, e_) for s_, e_ in d.items() if e_ != 0))
                t[k] = t.get(k, 0) + v1 * v2
        return Poly(t).reduce()

    def reduce(self):
        """s:<a>^2 -> 1 - c:<a>^2"""
        cur = self
        while True:
            hit = None
            for k in cur.t:
                for s, e in k:
                    if s.startswith('s:') and e >= 2:
                        hit = (k, s, e)
                        break
                if hit:
                    break
            if not hit:
                return cur
            k, s, e = hit
            coef = cur.t[k]
            rest = dict(k)
            rest[s] = e - 2
            if rest[s] == 0:
                del rest[s]
            base = Poly({tuple(sorted(rest.items())): coef})
            c = Poly.sym('c:' + s[2:])
            t = dict(cur.t)
            del t[k]
            cur = Poly(t) + _rawmul(base, Poly.const(1) - _rawmul(c, c))

    def is_const(self):
        return all(k == () for k in self.t)

    def value(self):
        return self.t.get((), Fraction(0))

    def __eq__(self, o):
        return isinstance(o, Poly) and self.t == o.t

    def __hash__(self):
        return hash(tuple(sorted(self.t.items())))

    def coeff_of(self, symname):
        """(coefficient polynomial of the first power of `symname`, remainder)"""
        co, rem = {}, {}
        for k, v in self.t.items():
            d = dict(k)
            if d.get(symname) == 1:
                del d[symname]
                co[tuple(sorted(d.items()))] = v
            elif symname in d:
                raise AnalysisBroken('symalg: non-linear in %s' % symname)
            else:
                rem[k] = v
        return Poly(co), Poly(rem)

    def symbols(self):
        return {s for k in self.t for s, _ in k}

    def subst(self, facts):
        """replace symbols by constants ({name: Fraction})"""
        out = Poly()
        for k, v in self.t.items():
            term = Poly.const(v)
            for s, e in k:
                base = Poly.const(facts[s]) if s in facts else Poly.sym(s)
                if e < 0:
                    if s in facts:
                        if facts[s] == 0:
                            raise AnalysisBroken('symalg: substitution divides by zero')
                        base = Poly.const(1 / Fraction(facts[s]))
                        e = -e
                    else:
                        term = _rawmul(term, Poly({((s, e),): Fraction(1)}))
                        continue
                for _ in range(e):
                    term = _rawmul(term, base)
            out = out + term
        return out.reduce()

    def __repr__(self):
        if not self.t:
            return '0'
        out = []
        for k, v in sorted(self.t.items()):
            m = '*'.join(s if e == 1 else '%s^%d' % (s, e) for s, e in k)
            out.append(('%s*%s' % (v, m)) if m and v != 1 else (m or str(v)))
        return ' + '.join(out)


def _rawmul(a, b):
    t = {}
    for k1, v1 in a.t.items():
        for k2, v2 in b.t.items():
            d = dict(k1)
            for s, e in k2:
                d[s] = d.get(s, 0) + e
            k = tuple(sorted((s_, e_) for s_, e_ in d.items() if e_ != 0))
            t[k] = t.get(k, 0) + v1 * v2
    return Poly(t)


class _Return(Exception):
    def __init__(self, v):
        self.v = v


def _copy(v):
    return {k: _copy(x) for k, x in v.items()} if isinstance(v, dict) else v


class Alg:
    def __init__(self, prog, depth=8):
        self.prog = prog
        self.depth = depth
        self.plan = None
        self.trace = []

    def bad(self, fn, n, what):
        raise AnalysisBroken('symalg: %s in %s line %s: %s' % (what, fn['qn'], n.get('l'), astu.src(n)
                             if n.get('k') not in ('Compound', 'If', 'For', 'While', 'ForRange', 'Decl') else n.get('k')))

    def call(self, fn, args, depth=0):
        """args: list of values (Poly or struct dict); by-reference parameters share the dict"""
        if depth > self.depth:
            raise AnalysisBroken('symalg: inlining depth exceeded at %s' % fn['qn'])
        env = {}
        for p, a in zip(fn['params'], args):
            ty = p.get('ty', '')
            byref = ty.endswith('&') and not ty.startswith('const')
            env[p['name']] = a if (byref or not isinstance(a, dict)) else a   # const ref / value: never written (checked below)
            if isinstance(a, dict) and not byref:
                env[p['name']] = _copy(a)
        try:
            self.stmt(fn, fn['body'], env, depth)
        except _Return as r:
            return r.v
        return None

    def paths(self, fn, make_args, limit=64):
        """every path through the `if`s of fn (and of the callees it inlines): [(decisions, value)] with
        decisions = [(line, condition text, taken?, condition node)]; loops stay unsupported"""
        out = []
        self.plan = []
        try:
            while True:
                self.trace = []
                v = self.call(fn, make_args())
                out.append((list(self.trace), v))
                if len(out) > limit:
                    raise AnalysisBroken('symalg: more than %d paths through %s' % (limit, fn['qn']))
                plan = [t[2] for t in self.trace]
                while plan and plan[-1] is False:
                    plan.pop()
                if not plan:
                    break
                plan[-1] = False
                self.plan = plan
        finally:
            self.plan = None
        return out

    def stmt(self, fn, s, env, depth):
        k = s['k']
        if k == 'Compound':
            for c in s['s']:
                self.stmt(fn, c, env, depth)
        elif k == 'Decl':
            for v in s['vars']:
                if 'init' in v and v['init'].get('k') not in ('Ctor',) or ('init' in v and v['init'].get('args')):
                    env[v['name']] = self.ex(fn, v['init'], env, depth)
                else:
                    env[v['name']] = {}          # default-constructed aggregate: fields appear when written
        elif k == 'Expr':
            self.ex(fn, s['e'], env, depth)
        elif k == 'Return':
            raise _Return(self.ex(fn, s['e'], env, depth) if s.get('e') else None)
        elif k == 'Null':
            pass
        elif k == 'If' and getattr(self, 'plan', None) is not None and not s.get('init'):
            # path enumeration (see `paths`): the condition is not interpreted, both arms are explored in turn
            idx = len(self.trace)
            if idx >= len(self.plan):
                self.plan.append(True)
            take = self.plan[idx]
            self.trace.append((s.get('l'), astu.src(s['c']), take, s['c']))
            arm = s['t'] if take else s.get('e')
            if arm:
                self.stmt(fn, arm, env, depth)
        else:
            self.bad(fn, s, 'control flow (the function is no longer straight-line)')

    def lval(self, fn, e, env):
        """(container dict, key)"""
        if e['k'] == 'Ref':
            return env, e['name']
        if e['k'] == 'Member':
            b = self.ex(fn, e['base'], env, 0)
            if not isinstance(b, dict):
                self.bad(fn, e, 'member of a non-aggregate')
            return b, e['name']
        self.bad(fn, e, 'unsupported assignment target')

    def ex(self, fn, e, env, depth):
        k = e['k']
        if k == 'Num':
            return Poly.const(astu.dec(e['v']))
        if k == 'Ref':
            if e['name'] in env:
                return env[e['name']]
            self.bad(fn, e, 'reference to a non-local')
        if k in ('Cast', 'DefaultArg', 'Paren'):
            return self.ex(fn, e['e'], env, depth)
        if k == 'Member':
            b = self.ex(fn, e['base'], env, depth)
            if isinstance(b, dict):
                if e['name'] not in b:
                    self.bad(fn, e, 'read of a field that was never written')
                return b[e['name']]
            self.bad(fn, e, 'member of a non-aggregate')
        if k == 'Un':
            v = self.ex(fn, e['e'], env, depth)
            if e['op'] == '-' and isinstance(v, Poly):
                return -v
            if e['op'] == '+' and isinstance(v, Poly):
                return v
            self.bad(fn, e, 'unary operator')
        if k == 'Bin':
            op = e['op']
            if op == '=':
                v = self.ex(fn, e['b'], env, depth)
                c, key = self.lval(fn, e['a'], env)
                c[key] = _copy(v) if isinstance(v, dict) else v
                return v
            a, b = self.ex(fn, e['a'], env, depth), self.ex(fn, e['b'], env, depth)
            if isinstance(a, Poly) and isinstance(b, Poly):
                if op == '+':
                    return a + b
                if op == '-':
                    return a - b
                if op == '*':
                    return a * b
                if op == '/' and b.is_const() and b.value() != 0:
                    return a * Poly.const(1 / b.value())
            self.bad(fn, e, 'binary operator')
        if k in ('Call', 'OpCall'):
            cal = e.get('callee', {})
            qn = cal.get('qn', '')
            args = [self.ex(fn, a, env, depth) for a in e['args']]
            if qn in ('cos', 'sin', 'std::cos', 'std::sin') and len(args) == 1 and isinstance(args[0], Poly):
                return trig(qn.split('::')[-1], args[0], lambda: self.bad(fn, e, 'cos/sin of a compound angle'))
            if cal.get('project'):
                tgt = [f for key, f in self.prog.functions.items() if key == (qn, cal.get('id'))] or \
                      [f for f in self.prog.fns(qn) if len(f['params']) == len(args)]
                if len(tgt) != 1:
                    self.bad(fn, e, 'call that does not resolve to one definition')
                return self.call(tgt[0], args, depth + 1)
            self.bad(fn, e, 'call of an unknown function')
        if k in ('Ctor', 'TempCtor'):
            if len(e['args']) == 1:        # copy/move construction
                v = self.ex(fn, e['args'][0], env, depth)
                return _copy(v) if isinstance(v, dict) else v
            if not e['args']:
                return {}
            self.bad(fn, e, 'constructor')
        if k in ('Temp', 'Bind', 'Materialize', 'ExprWithCleanups'):
            return self.ex(fn, e['e'], env, depth)
        self.bad(fn, e, 'expression kind %s' % k)


def trig(which, a, bad):
    """cos/sin of 0, of a symbol, or of a negated symbol"""
    if not a.t:
        return Poly.const(1 if which == 'cos' else 0)
    if len(a.t) == 1:
        (k, v), = a.t.items()
        if len(k) == 1 and k[0][1] == 1 and v in (1, -1):
            s = k[0][0]
            if which == 'cos':
                return Poly.sym('c:' + s)
            return Poly.sym('s:' + s) if v == 1 else -Poly.sym('s:' + s)
    bad()


def linear_map(vec, inputs):
    """3x3 coefficient matrix A (list of rows) with vec = A . inputs; AnalysisBroken when vec is not linear homogeneous"""
    rows = []
    for comp in ('x', 'y', 'z'):
        p = vec[comp]
        row = []
        for s in inputs:
            c, p = p.coeff_of(s)
            row.append(c)
        if p.t:
            raise AnalysisBroken('symalg: result is not a homogeneous linear map of the input vector')
        rows.append(row)
    return rows


def is_rotation(A):
    """A^T A = I and det A = +1 as polynomial identities"""
    one, zero = Poly.const(1), Poly()
    for i in range(3):
        for j in range(3):
            s = Poly()
            for k in range(3):
                s = s + A[k][i] * A[k][j]
            if s != (one if i == j else zero):
                return False, 'column %d . column %d = %r' % (i, j, s)
    det = (A[0][0] * (A[1][1] * A[2][2] - A[1][2] * A[2][1])
           - A[0][1] * (A[1][0] * A[2][2] - A[1][2] * A[2][0])
           + A[0][2] * (A[1][0] * A[2][1] - A[1][1] * A[2][0]))
    if det != one:
        return False, 'det = %r' % det
    return True, ''


def zero_angle_facts(decisions, params):
    """facts a path may assume: a taken test `<angle parameter> == 0` (either order, literal zero) fixes cos = 1, sin = 0.
    params: {source parameter name: symbol name}.  Other tests give no fact (the identity must then hold as it stands)."""
    facts = {}
    for line, text, taken, c in decisions:
        c = astu.strip_casts(c)
        while c['k'] == 'Paren':
            c = astu.strip_casts(c['e'])
        if c['k'] != 'Bin' or c['op'] not in ('==', '!='):
            continue
        if (c['op'] == '==') != taken:
            continue
        a, b = astu.strip_casts(c['a']), astu.strip_casts(c['b'])
        for x, y in ((a, b), (b, a)):
            if x['k'] == 'Ref' and x['name'] in params and astu.num_value(y) == 0:
                facts['c:' + params[x['name']]] = Fraction(1)
                facts['s:' + params[x['name']]] = Fraction(0)
    return facts


def describe(decisions):
    return ' and '.join('%s`%s` (line %s)' % ('' if t else 'not ', txt, l) for l, txt, t, c in decisions) or 'the only path'
