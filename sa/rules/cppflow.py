"""Control-flow helpers over C++ functions lowered to the common IR (dominance, throw guards, call sites)."""
from .. import cfg as cfgm, cpp2ir, ir
from ..project import AnalysisBroken


class Flow:
    def __init__(self, fn, sigs=None, keep_io=False, helpers=None):
        self.fn = fn
        tree, self.lower = cpp2ir.lower_function(fn, sigs)
        if helpers:
            from .. import tvrun
            tree = tvrun.inline_helpers(tree, helpers, sigs)
        g = cfgm.build(tree)
        self.g = cfgm.compact(g, drop=('nop',) if keep_io else ('nop', 'io'))
        self._dom = None
        self._pdom = None
        self._reach = {}

    @property
    def dom(self):
        if self._dom is None:
            self._dom = self.g.dominators()
        return self._dom

    @property
    def pdom(self):
        if self._pdom is None:
            self._pdom = self.g.postdominators()
        return self._pdom

    def nodes(self, pred=None, kind=None):
        return [n for n in self.g.nodes if (kind is None or n.kind == kind) and (pred is None or pred(n))]

    def reach(self, i):
        if i not in self._reach:
            self._reach[i] = self.g.reachable(i)
        return self._reach[i]

    def dominates(self, a, b):
        return a.id in self.dom.get(b.id, ())

    def exprs(self, n):
        s = n.stmt
        if s is None:
            return []
        if n.kind == 'assign':
            return [s[1], s[2]]
        if n.kind == 'call':
            return list(s[2])
        if n.kind in ('branch', 'eval'):
            return [s[1]]
        if n.kind == 'return' and s[1] is not None:
            return [s[1]]
        return []

    def calls_in(self, n):
        """(name, args) of every call in the node (statement-level and nested)"""
        out = []
        if n.kind == 'call':
            out.append((n.stmt[1], n.stmt[2]))
        for e in self.exprs(n):
            for x in ir.subexprs(e):
                if x[0] == 'call':
                    out.append((x[1], x[2:]))
        return out

    def call_nodes(self, name_pred):
        out = []
        for n in self.g.nodes:
            for name, args in self.calls_in(n):
                if name_pred(name):
                    out.append((n, name, args))
        return out

    def resolve_flags(self, c, depth=3):
        """substitute boolean locals that have one definition (`const bool many_body = modebb == 4 || ...;`) by that definition,
        so that rules reading a guard see the tests themselves whether or not they were hoisted into a named flag"""
        from .. import ir
        if depth == 0:
            return c
        defs = {}
        for n in self.g.nodes:
            if n.kind == 'assign' and n.stmt[1][0] == 'var':
                defs.setdefault(n.stmt[1][1], []).append(n.stmt[2])

        def f(x):
            if x[0] == 'var' and len(defs.get(x[1], ())) == 1:
                d = defs[x[1]][0]
                if d[0] == 'op' and d[1] in ('or', 'and', 'not', '==', '!=', '<', '<=', '>', '>='):
                    return self.resolve_flags(d, depth - 1)
            return x
        return ir.map_expr(f, c)

    def throw_guards(self):
        """[(branch node, arm index that throws)]: the arm reaches a throw passing only message-building nodes"""
        out = []
        for b in self.nodes(kind='branch'):
            for arm in (0, 1):
                i = b.succ[arm]
                steps = 0
                while steps < 12:
                    n = self.g.nodes[i]
                    if n.kind == 'throw':
                        out.append((b, arm))
                        break
                    if n.kind in ('assign', 'call', 'eval', 'io') and len(n.succ) == 1:
                        i = n.succ[0]
                        steps += 1
                        continue
                    break
        return out

    def guarded(self, node, cond_pred):
        """node can only be reached through the non-throwing arm of a throw guard whose condition satisfies
        cond_pred -> that guard (branch node, arm) or None"""
        for b, arm in self.throw_guards():
            if not cond_pred(b.stmt[1]):
                continue
            if not self.dominates(b, node) or b.id == node.id:
                continue
            if node.id in self.reach(b.succ[arm]) and not self._only_via(b, arm, node):
                continue
            return (b, arm)
        return None

    def _only_via(self, b, arm, node):
        # the throwing arm must not reach `node` at all (it ends in a throw)
        return node.id not in self.reach(b.succ[arm])


def private_helpers(prog, fn, exclude=()):
    """private member functions of fn's class and free functions of fn's file that fn may delegate to (validation / clean-up
    helpers extracted by a refactor); `exclude` names are kept as calls"""
    out = {}
    for f in prog.functions.values():
        if f is fn or f['name'] in exclude:
            continue
        same_cls = fn.get('cls') and f.get('cls') == fn.get('cls') and f.get('access') == 'private'
        local = not f.get('method') and f.get('file') == fn.get('file')
        if same_cls or local:
            if f['name'] in out:
                out[f['name']] = None       # overloaded: not expanded
            else:
                out[f['name']] = f
    return {k: v for k, v in out.items() if v is not None}


def mentions(e, name):
    for x in ir.subexprs(e):
        if x[0] == 'fld' and x[2] == name:
            return True
        if x[0] == 'var' and x[1] == name:
            return True
        if x[0] == 'call' and x[1].endswith(name):
            return True
    return False


def fmt(e):
    return ir.fmt(e)
