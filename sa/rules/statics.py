"""STATICS (immutable after initialisation) and GLOBAL-EFFECT (process-wide mutators, time/entropy sources)."""
from .. import astu
from ..framework import where
from ..project import AnalysisBroken, relpath

ASSIGN_OPS = ('=', '+=', '-=', '*=', '/=', '%=', '<<=', '>>=', '&=', '|=', '^=')


def root_ref(e):
    """the variable an lvalue expression designates (through member/element access), or None"""
    while e is not None:
        k = e.get('k')
        if k == 'Ref':
            return e
        if k == 'Member':
            e = e.get('base')
        elif k == 'Idx':
            e = e['a']
        elif k == 'OpCall' and e['op'] in ('[]', '*', '->') and e['args']:
            e = e['args'][0]
        elif k in ('Cast', 'DefaultArg'):
            e = e['e']
        elif k == 'Un' and e['op'] in ('*', '&'):
            e = e['e']
        elif k == 'MCall' and e.get('callee', {}).get('qn', '').split('::')[-1] in ('at', 'front', 'back', 'data',
                                                                                      'begin', 'end', 'operator[]'):
            e = e['obj']
        else:
            return None
    return None


def written_refs(body):
    """(Ref node, how, node) for every variable reference in a writing position inside `body`"""
    out = []
    for n in astu.walk(body):
        k = n['k']
        if k == 'Bin' and n['op'] in ASSIGN_OPS:
            r = root_ref(n['a'])
            if r is not None:
                out.append((r, 'assigned', n))
        elif k == 'Un' and n['op'] in ('++', '--'):
            r = root_ref(n['e'])
            if r is not None:
                out.append((r, 'incremented', n))
        elif k == 'OpCall':
            c = n.get('callee', {})
            if n['op'] in ASSIGN_OPS or n['op'] in ('++', '--'):
                r = root_ref(n['args'][0])
                if r is not None:
                    out.append((r, 'assigned', n))
            elif c.get('method') and not c.get('const') and n['args']:
                r = root_ref(n['args'][0])
                if r is not None:
                    out.append((r, 'non-const operator' + n['op'], n))
            pm = c.get('pm', [])
            off = 1 if c.get('method') else 0
            for i, a in enumerate(n['args'][off:]):
                if i < len(pm) and pm[i] in ('ref', 'ptr', 'rref'):
                    r = root_ref(a)
                    if r is not None:
                        out.append((r, 'passed by mutable reference', n))
        elif k == 'MCall':
            c = n.get('callee', {})
            if not c.get('const') and not c.get('static'):
                r = root_ref(n['obj'])
                if r is not None:
                    out.append((r, 'non-const member call %s' % c.get('qn', '?').split('::')[-1], n))
            pm = c.get('pm', [])
            for i, a in enumerate(n['args']):
                if i < len(pm) and pm[i] in ('ref', 'ptr', 'rref'):
                    r = root_ref(a)
                    if r is not None:
                        out.append((r, 'passed by mutable reference', n))
        elif k in ('Call', 'Ctor', 'TempCtor'):
            c = n.get('callee', {})
            pm = c.get('pm', [])
            for i, a in enumerate(n['args']):
                if i < len(pm) and pm[i] in ('ref', 'ptr', 'rref'):
                    r = root_ref(a)
                    if r is not None:
                        out.append((r, 'passed by mutable reference', n))
    return out


def static_initialisers(fn):
    """{static local id: initialiser expression} of a function"""
    out = {}
    for n in astu.walk(fn['body']):
        if n['k'] == 'Decl':
            for v in n['vars']:
                if v.get('dk') == 'static_local' and 'init' in v:
                    out[v['id']] = (v['name'], v['init'])
    return out


def _contains(tree, node):
    for x in astu.walk(tree):
        if x is node:
            return True
    return False


def check_statics(rep, prog, cg, rule='STATICS.immutable'):
    """every non-const static-storage variable: no write after its initialisation, unless the writer is an
    internal function all of whose call sites lie in the initialiser of one and the same function-local static"""
    rep.rule(rule, 'every variable with static storage duration is either const, or never written outside its own '
             'initialiser, or written only by internal code reachable solely from the initialiser of ONE function-local '
             'static (C++11 guarantees that initialiser runs once, under a guard)')
    writes = {}          # static id -> [(function key, how, line)]
    for key, fn in prog.functions.items():
        inits = static_initialisers(fn)
        for r, how, node in written_refs(fn['body']):
            if r.get('dk') in ('global', 'static_local', 'static_member'):
                writes.setdefault((r.get('qn'), r['id']), []).append((key, how, node.get('l')))
    n = 0
    for (qn, sid), s in sorted(prog.statics.items()):
        if s.get('const') or s.get('constexpr'):
            continue
        if any(t in s['ty'] for t in ('std::mutex', 'std::atomic', 'std::once_flag', 'std::recursive_mutex')):
            continue          # synchronisation objects are meant to be shared
        if relpath(s['file']).startswith(('/', '$BUILD')) and 'BinReloc' in s['file']:
            pass
        n += 1
        ws = writes.get((qn, sid), [])
        loc = '%s:%d' % (relpath(s['file']), s['l'])
        if not ws:
            rep.add(rule, '%s@%s' % (qn, s.get('func', '')), loc,
                    'static `%s` (%s) is never written after its initialiser' % (qn, s['ty'][:40]), True,
                    nontrivial=False)
            continue
        bad = []
        for key, how, line in ws:
            fn = prog.functions[key]
            ok, why = _init_confined(prog, cg, key)
            if not ok:
                bad.append('%s at %s:%s in %s — %s' % (how, relpath(fn['file']), line, fn['qn'], why))
        rep.add(rule, '%s@%s' % (qn, s.get('func', '')), loc,
                'static `%s` (%s): %d write(s), all confined to one guarded initialiser' % (qn, s['ty'][:40], len(ws)),
                not bad, bad or None)
    return n


def _init_confined(prog, cg, key):
    """function `key` is internal and every chain of callers ends in the initialiser of one single static local"""
    fn = prog.functions[key]

    def internal(f):
        # BinReloc.c is a vendored C helper whose symbols are macro-mangled per build and only used by
        # relocatable_lib.cc: its functions are internal by convention
        return f.get('anon_ns') or f.get('static_linkage') or f['file'].endswith('BinReloc.c')
    if not internal(fn):
        return False, 'the writer has external linkage: any caller (any thread) can execute the write'
    guards = set()
    seen = set()
    st = [key]
    while st:
        k = st.pop()
        if k in seen:
            continue
        seen.add(k)
        callers = cg.callers.get(k, set())
        if not callers:
            if k == key:
                return True, 'never called'       # dead internal code: no thread can execute the write
            continue
        for c in callers:
            cf = prog.functions[c]
            inits = static_initialisers(cf)
            sites = [x for x in astu.calls(cf['body']) if x['callee']['qn'] == k[0]]
            for site in sites:
                g = [sid for sid, (name, init) in inits.items() if _contains(init, site)]
                if g:
                    guards.add((c, g[0]))
                else:
                    if internal(cf):
                        st.append(c)
                    else:
                        return False, 'reached from %s outside any static initialiser' % cf['qn']
    if len(guards) <= 1:
        return True, None
    return False, 'reached through %d different guarded initialisers: %s' % (
        len(guards), sorted('%s::%s' % (c[0], g) for c, g in guards))


MUTATORS = {'gsl_set_error_handler_off', 'gsl_set_error_handler', 'setenv', 'putenv', 'unsetenv', 'setlocale',
            'std::setlocale', 'srand', 'std::srand', 'signal', 'std::signal', 'std::set_terminate',
            'std::locale::global', 'chdir', 'umask'}
ENTROPY = {'rand', 'std::rand', 'random', 'drand48', 'lrand48', 'time', 'std::time', 'clock', 'std::clock',
           'gettimeofday', 'clock_gettime', 'std::chrono::_V2::system_clock::now', 'std::chrono::_V2::steady_clock::now',
           'std::random_device::random_device', 'std::random_device::operator()', 'getpid'}


# C library functions that keep their result or scan state in a hidden process-wide static (not reentrant): the same as a shared
# mutable static variable, one call site is enough
NONREENTRANT = {'strtok', 'std::strtok', 'localtime', 'std::localtime', 'gmtime', 'std::gmtime', 'ctime', 'std::ctime', 'asctime',
                'std::asctime', 'rand', 'std::rand', 'random', 'drand48', 'lrand48', 'mrand48', 'erand48', 'tmpnam', 'std::tmpnam',
                'strerror', 'std::strerror', 'readdir', 'getpwnam', 'getpwuid', 'gethostbyname', 'ttyname', 'getlogin', 'ecvt',
                'fcvt', 'gcvt', 'basename', 'dirname', 'mbrtowc', 'wcstombs', 'std::wcstombs', 'getopt', 'lgamma', 'lgammaf', 'lgammal'}


def nonreentrant_sites(prog, keys):
    out = []
    for key in sorted(keys):
        fn = prog.functions[key]
        for c in astu.calls(fn['body']):
            if c['callee']['qn'] in NONREENTRANT:
                out.append((fn, c['callee']['qn'], c.get('l')))
    return out


def effect_sites(prog, keys):
    """[(function, callee qn, line, kind)] over the given functions"""
    out = []
    for key in sorted(keys):
        fn = prog.functions[key]
        trees = [fn['body']] + [i_['init'] for i_ in fn.get('inits', []) if isinstance(i_.get('init'), dict)]
        for t_ in trees:
            for c in astu.calls(t_):
                q = c['callee']['qn']
                if q in MUTATORS:
                    out.append((fn, q, c.get('l'), 'mutator', c))
                elif q in ENTROPY:
                    out.append((fn, q, c.get('l'), 'entropy', c))
    return out


_PROG = [None]          # set by the checks that use the RAII extension below


def _static_mutex_of(e, prog):
    """identity of the static-storage mutex designated by a lock constructor's argument: a static variable itself, or a call of a
    project function that returns a reference to its function-local static mutex"""
    e = astu.strip_casts(e)
    r = root_ref(e)
    if r is not None and r.get('dk') in ('global', 'static_local', 'static_member'):
        return (r.get('id'), r.get('qn') or r.get('name'))
    if e.get('k') in ('Call', 'MCall') and e.get('callee', {}).get('project') and prog is not None:
        for f in prog.fns(e['callee']['qn']):
            for n in astu.walk(f['body']):
                if n['k'] == 'Return' and n.get('e') is not None:
                    rr = root_ref(astu.strip_casts(n['e']))
                    if rr is not None and rr.get('dk') == 'static_local' and 'mutex' in rr.get('ty', ''):
                        return (rr.get('id'), rr.get('qn') or rr.get('name'))
    return None


def _raii_held(fn, site):
    """locks held at a site of a constructor / destructor of a class that owns lock members (an RAII sentry).  Members are
    initialised in declaration order (the order of fn['inits']), whatever the order written in the initialiser list: a call in the
    initialiser of member k holds only the lock members initialised before it; the constructor body and the destructor body hold all
    of them.  -> list of (id, name), or None when fn is not such a constructor/destructor"""
    prog = _PROG[0]
    if prog is None or not (fn.get('ctor') or fn.get('dtor')) or not fn.get('cls'):
        return None
    ctors = [f for f in prog.functions.values() if f.get('cls') == fn['cls'] and f.get('ctor') and f.get('inits')]
    if not ctors:
        return None
    inits = (fn if fn.get('ctor') and fn.get('inits') else ctors[0])['inits']
    locks = []          # (position, identity)
    for pos, i_ in enumerate(inits):
        e = i_.get('init')
        if isinstance(e, dict) and e.get('k') == 'Ctor' and any(t in e.get('ty', '') for t in ('lock_guard', 'unique_lock', 'scoped_lock')):
            for a in e.get('args', []):
                m = _static_mutex_of(a, prog)
                if m is not None:
                    locks.append((pos, m))
    if not locks:
        return None
    if fn.get('ctor'):
        for pos, i_ in enumerate(fn.get('inits', [])):
            if isinstance(i_.get('init'), dict) and _contains(i_['init'], site):
                return [m for p_, m in locks if p_ < pos]
    return [m for p_, m in locks]


RESOURCE = {'gsl_set_error_handler_off': 'the GSL error handler', 'gsl_set_error_handler': 'the GSL error handler',
            'setenv': 'the environment', 'putenv': 'the environment', 'unsetenv': 'the environment',
            'setlocale': 'the C locale', 'std::setlocale': 'the C locale', 'std::locale::global': 'the global C++ locale',
            'srand': 'the C random seed', 'std::srand': 'the C random seed', 'signal': 'the signal dispositions',
            'std::signal': 'the signal dispositions', 'std::set_terminate': 'the terminate handler',
            'chdir': 'the working directory', 'umask': 'the file mode mask'}


def held_mutexes(fn, site):
    """identities (declaration ids) of the static-storage mutexes on which a std::lock_guard / unique_lock / scoped_lock is alive
    at the call site (constructed earlier in the same or an enclosing block)"""
    out = []
    raii = _raii_held(fn, site)
    if raii is not None:
        return raii

    def scan(stmt, held):
        k = stmt.get('k')
        if k == 'Compound':
            h = list(held)
            for s in stmt['s']:
                if s['k'] == 'Decl':
                    for v in s['vars']:
                        if any(t in v['ty'] for t in ('lock_guard', 'unique_lock', 'scoped_lock')) and 'init' in v:
                            for a in v['init'].get('args', []):
                                r = root_ref(a)
                                if r is not None and r.get('dk') in ('global', 'static_local', 'static_member'):
                                    h.append((r.get('id'), r.get('qn') or r.get('name')))
                if _contains(s, site):
                    if s['k'] in ('Compound', 'If', 'While', 'For', 'Do', 'Try', 'Switch', 'ForRange', 'Label'):
                        for c in astu.children(s):
                            if _contains(c, site) or c is site:
                                scan(c, h)
                                return
                    out.extend(h)
                    return
            return
        if _contains(stmt, site):
            for c in astu.children(stmt):
                if _contains(c, site) or c is site:
                    scan(c, held)
                    return
            out.extend(held)
    scan(fn['body'], [])
    return out


def lock_dominates(fn, site):
    """a std::lock_guard / std::unique_lock / scoped_lock on a static-storage mutex is constructed earlier in the same
    (or an enclosing) block as the call site"""
    def scan(stmt, held):
        k = stmt.get('k')
        if k == 'Compound':
            h = held
            for s in stmt['s']:
                if s['k'] == 'Decl':
                    for v in s['vars']:
                        if any(t in v['ty'] for t in ('lock_guard', 'unique_lock', 'scoped_lock')) and 'init' in v:
                            args = v['init'].get('args', [])
                            r = root_ref(args[0]) if args else None
                            if r is not None and r.get('dk') in ('global', 'static_local', 'static_member'):
                                h = True
                if _contains(s, site):
                    if s['k'] in ('Compound', 'If', 'While', 'For', 'Do', 'Try', 'Switch', 'ForRange', 'Label'):
                        return any(scan(c, h) for c in astu.children(s)) or (h and _direct(s, site))
                    return h
            return False
        if _contains(stmt, site):
            return any(scan(c, held) for c in astu.children(stmt)) or held and _direct(stmt, site)
        return False

    def _direct(s, site):
        return True
    raii = _raii_held(fn, site)
    if raii is not None:
        return bool(raii)
    return scan(fn['body'], False)


def check_frozen_inputs(rep, prog, cg, roots, rule='STATICS.frozen-input'):
    """a function-local static (const or not) on a generation path whose initialiser reads a parameter, a member of `this` or a
    non-constant local: the value computed for the first caller is kept for every later caller and every other instance"""
    rep.rule(rule, 'no function-local static reachable from the generation entry points is initialised from a parameter, a data '
             'member or a non-constant local of the enclosing function: such an initialiser runs once, for the first caller, and its '
             'value is then imposed on every other instance and thread (`static const double c = std::cos(aperture)`)')
    keys = set(cg.reachable(roots)) | set(roots)
    n = 0
    for key in sorted(keys):
        fn = prog.functions.get(key)
        if fn is None or not fn.get('body'):
            continue
        consts = {}
        for d in astu.walk(fn['body']):
            if d['k'] == 'Decl':
                for v in d['vars']:
                    if v.get('dk') != 'static_local' and v.get('const') and 'init' in v and \
                            astu.strip_casts(v['init']).get('k') in ('Num', 'Str', 'Bool', 'Chr'):
                        consts[v.get('id')] = v
        for d in astu.walk(fn['body']):
            if d['k'] != 'Decl':
                continue
            for v in d['vars']:
                if v.get('dk') != 'static_local' or 'init' not in v:
                    continue
                n += 1
                inside = {id(x) for x in astu.walk(v['init'])}
                outer = {p_.get('id') for p_ in fn['params']} | {p_.get('name') for p_ in fn['params']}
                for x in astu.walk(fn['body']):
                    if id(x) in inside:
                        continue
                    if x['k'] == 'Decl':
                        outer |= {w.get('id') for w in x['vars']}
                    elif x['k'] == 'ForRange' and isinstance(x.get('var'), dict):
                        outer.add(x['var'].get('id'))
                deps = []
                for x in astu.walk(v['init']):
                    if x['k'] == 'This':
                        deps.append('this')
                    elif x['k'] == 'Ref' and x.get('dk') in ('param', 'local') and x.get('id') in outer and x.get('id') not in consts:
                        if x.get('dk') == 'param' and _same_constant_everywhere(prog, cg, key, x.get('name'), 0):
                            continue
                        deps.append(x.get('name'))
                rep.add(rule, '%s:%s' % (fn['name'], v['name']), where(fn, v.get('l')),
                        '%s: static `%s` is initialised from constants only' % (fn['qn'].split('::', 1)[-1], v['name']), not deps,
                        None if not deps else ['the initialiser reads %s: the first call fixes the value for the whole process'
                                               % ', '.join(sorted(set(deps)))], nontrivial=bool(deps) or True)
    return n


def _same_constant_everywhere(prog, cg, key, pname, depth, want=None):
    """every call site in the project passes one and the same literal for parameter `pname` of function `key` (a caller that
    forwards its own parameter is followed, three levels deep).  Returns the literal's source text, or None."""
    fn = prog.functions[key]
    pos = [i for i, p in enumerate(fn['params']) if p['name'] == pname]
    if not pos or depth > 3:
        return None
    pos = pos[0]
    vals = set()
    for ck in cg.callers.get(key, set()):
        caller = prog.functions[ck]
        for c in astu.calls(caller['body']):
            if (c['callee']['qn'], c['callee'].get('id')) != key and c['callee']['qn'] != key[0]:
                continue
            if pos >= len(c.get('args', [])):
                return None
            a = astu.strip_casts(c['args'][pos])
            while a['k'] in ('DefaultArg', 'Paren'):
                a = astu.strip_casts(a['e'])
            if a['k'] in ('Num', 'Bool', 'Str'):
                vals.add(astu.src(a))
            elif a['k'] == 'Ref' and a.get('dk') == 'param':
                v = _same_constant_everywhere(prog, cg, ck, a['name'], depth + 1)
                if v is None:
                    return None
                vals.add(v)
            else:
                return None
    if len(vals) == 1:
        return vals.pop()
    return None
