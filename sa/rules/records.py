"""Writer/reader agreement on the ASCII event record (C11) and output ordering helpers (C13)."""
from .. import astu, ir
from ..project import AnalysisBroken


def _fixed_extent(e):
    """N when e is a data member / variable of type T[N]"""
    import re
    if not isinstance(e, dict):
        return None
    e = astu.strip_casts(e)
    m = re.search(r'\[(\d+)\]\s*$', str(e.get('ty', '')))
    if e.get('k') in ('Member', 'Ref') and m:
        return int(m.group(1))
    return None


def inserted_operands(fn, stream_name):
    """operands inserted into `stream_name` with operator<<, in source order: [(text, node, guarded_by_flag)]"""
    out = []

    def flatten(e):
        if e['k'] == 'OpCall' and e['op'] == '<<' and len(e['args']) == 2:
            return flatten(e['args'][0]) + [e['args'][1]]
        return [e]

    def visit(stmt, guard):
        k = stmt.get('k')
        if k == 'Compound':
            for s in stmt['s']:
                visit(s, guard)
        elif k == 'If':
            visit(stmt['t'], astu.src(stmt['c']))
            if stmt.get('e'):
                visit(stmt['e'], 'else ' + astu.src(stmt['c']))
        elif k == 'ForRange' and _fixed_extent(stmt.get('range')) is not None and isinstance(stmt.get('var'), dict):
            # range-for over a fixed-extent array member: one insertion sequence per element, in index order
            n = _fixed_extent(stmt['range'])
            before = len(out)
            visit(stmt['body'], guard)
            body_ops = out[before:]
            del out[before:]
            vname = stmt['var']['name']
            base = astu.src(stmt['range'])
            for i in range(n):
                for text, node, g in body_ops:
                    out.append(('%s[%d]' % (base, i) if text == vname else text, node, g))
        elif k in ('For', 'ForRange', 'While', 'Do'):
            visit(stmt['body'], (guard or '') + '@loop')
        elif k == 'Expr':
            e = stmt['e']
            if e['k'] == 'OpCall' and e['op'] == '<<':
                ops = flatten(e)
                if astu.src(ops[0]).split('.')[-1] == stream_name or astu.src(ops[0]) == stream_name:
                    for o in ops[1:]:
                        o2 = astu.strip_casts(o)
                        if o2['k'] in ('Str', 'Chr'):
                            continue
                        if o2['k'] == 'Call' and o2.get('callee', {}).get('qn') in ('std::endl', 'std::flush'):
                            continue
                        if o2['k'] == 'Ref' and o2.get('qn', '') in ('std::endl', 'std::flush'):
                            continue
                        out.append((astu.src(o2), o2, guard))
            elif e['k'] == 'MCall':
                out.append(('call:' + e['callee']['qn'].split('::')[-1] + '(' + ','.join(astu.src(a) for a in e['args']) + ')@'
                            + astu.src(e['obj']), e, guard))
    visit(fn['body'], None)
    return out


def setter_field(prog, qn):
    """the data member a setter assigns from its parameter: 'set_px' -> '_momentum_[0]'"""
    fns = prog.fns(qn)
    if not fns:
        return None
    for n in astu.walk(fns[0]['body']):
        if n['k'] == 'Bin' and n['op'] == '=' and astu.root_of(n['a']) is not None:
            return astu.src(n['a'])
        if n['k'] == 'OpCall' and n['op'] == '=' and n['args'] and astu.root_of(n['args'][0]) is not None:
            return astu.src(n['args'][0])
    return None
