"""decay0_gauss: the GSL QNG call asks for exactly the relative tolerance the caller gave (absolute floor 0), relaxed only by
the documented bounded retry.  This is the structural part of "the adaptive quadrature meets the relative tolerance it is asked
for": with a non-zero absolute tolerance QNG may stop long before the relative one is met on integrals of small magnitude."""
from .. import ir
from ..framework import where
from ..project import AnalysisBroken
from . import cppflow, symflow


def _is(e, *shape):
    return isinstance(e, tuple) and e[:len(shape)] == shape


def check(rep, prog):
    rep.rule('QNG.tolerance', 'decay0_gauss calls gsl_integration_qng with epsabs = 0 on every path and with epsrel = the '
             'caller\'s tolerance, multiplied only by the retry factor after GSL_ETOL, at most a fixed number of times')
    fn = prog.fn('bxdecay0::decay0_gauss')
    F = cppflow.Flow(fn)
    g = F.g
    calls = [n for n in g.nodes if n.stmt is not None and any(nm == 'gsl_integration_qng' for nm, a in F.calls_in(n))]
    if len(calls) != 1:
        raise AnalysisBroken('decay0_gauss: expected one gsl_integration_qng call, found %d' % len(calls))
    c = calls[0]
    args = [a for nm, a in F.calls_in(c) if nm == 'gsl_integration_qng'][0]
    if len(args) < 5:
        raise AnalysisBroken('gsl_integration_qng: unexpected arity')
    R = symflow.Resolve(F)
    relp = fn['params'][3]['name']

    def defs_of(e):
        if e[0] != 'var':
            return [(None, e)]
        ds = sorted(R.IN[c.id].get(e[1], ()))
        return [(g.nodes[d], g.nodes[d].stmt[2]) for d in ds] if ds else [(None, e)]
    absd = defs_of(args[3])
    okabs = all(v[0] == 'num' and v[1] == 0 for n, v in absd)
    rep.add('QNG.tolerance', 'epsabs', where(fn, c.line), 'the absolute tolerance handed to QNG is 0 on every path (%s)' %
            sorted({ir.fmt(v) for n, v in absd}), okabs)
    reld = defs_of(args[4])
    bad = []
    nretry = 0
    for n, v in reld:
        if v == ('var', relp):
            continue
        if n is not None and _is(v, 'op', '*') and args[4] in v[2:] and any(x[0] == 'num' and x[1] >= 1 for x in v[2:]):
            # relaxed only after GSL_ETOL
            guard = [b for b in F.nodes(kind='branch') if b.succ[0] == n.id and 'status' in ir.fmt(b.stmt[1])]
            if guard:
                nretry += 1
                continue
        bad.append(ir.fmt(v))
    rep.add('QNG.tolerance', 'epsrel', where(fn, c.line), 'the relative tolerance is the caller\'s `%s`, relaxed only on the retry path' % relp,
            not bad and any(v == ('var', relp) for n, v in reld), '; '.join(bad) or None)
    # bounded retry: some exit test of the loop compares a counter, incremented once per failed attempt, with a constant
    def conj(c):
        if _is(c, 'op', 'and') or _is(c, 'op', 'or'):
            out = []
            for x in c[2:]:
                out += conj(x)
            return out
        return [c]
    inloop = [b for b in F.nodes(kind='branch') if b.id in F.reach(c.id) and c.id in F.reach(b.id)]
    okb = False
    # the tests that decide the loop: its branch conditions, and what is assigned inside the loop to a flag those conditions read
    flagvars = {x for b in inloop for x in ir.subexprs(b.stmt[1]) if x[0] == 'var'}
    tests = [(b, F.resolve_flags(b.stmt[1])) for b in inloop]
    tests += [(n, n.stmt[2]) for n in F.nodes(kind='assign') if n.stmt[1] in flagvars and n.id in F.reach(c.id) and c.id in F.reach(n.id)
              and n.stmt[2][0] == 'op']
    for b, cond_ in tests:
        for t in conj(cond_):
            if _is(t, 'op', 'not'):
                t = t[2]
            if not (_is(t, 'op') and t[1] in ('<', '<=', '>', '>=') and len(t) == 4):
                continue
            for cnt, lim in ((t[2], t[3]), (t[3], t[2])):
                if cnt[0] != 'var':
                    continue
                limv = R.subst(lim, b)
                if limv[0] != 'num':
                    continue
                incs = [n for n in F.nodes(kind='assign') if n.stmt[1] == cnt and n.stmt[2] == ('op', '+', cnt, ir.num(1, 'i')) and
                        n.id in F.reach(c.id) and c.id in F.reach(n.id)]
                if len(incs) == 1:
                    okb = True
    if not okb:
        # a comparison with a constant whose other side is not a plain counter variable (`++count < 2` inside the test, a helper
        # call, ...) is a bound this rule does not read: undecided.  No comparison with a constant at all: unbounded, a violation.
        odd = [t for b, cond_ in tests for t in conj(cond_)
               for t in ([t[2]] if _is(t, 'op', 'not') else [t])
               if _is(t, 'op') and t[1] in ('<', '<=', '>', '>=') and len(t) == 4 and
               ((t[3][0] == 'num' and t[2][0] != 'var') or (t[2][0] == 'num' and t[3][0] != 'var'))]
        if odd:
            rep.cannot_decide('QNG.tolerance', where(fn, c.line), 'bounded-retry: the retry test `%s` bounds something that is not a '
                              'plain counter variable' % ir.fmt(odd[0])[:60])
            return
    rep.add('QNG.tolerance', 'bounded-retry', where(fn, c.line), 'a failed integration is retried a bounded number of times (an exit test of the '
            'loop compares a per-attempt counter with a constant)', okb)
