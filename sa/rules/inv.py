"""INV: a pointer/reference bound to an element of an event's particle vector must not be used after a call that
may grow that vector (reallocation invalidates it)."""
from .. import astu, cfg as cfgm, cpp2ir, ir
from ..framework import where

ELEMENT_SOURCES = ('event::grab_last_particle', 'event::grab_particles', 'event::get_particles', 'event::get_last_particle')
ELEM_METHODS = ('back', 'front', 'at', 'operator[]', 'data', 'begin', 'end')
GROWERS = {'bxdecay0::event::add_particle', 'bxdecay0::event::reset'}
VEC_MUTATORS = ('push_back', 'emplace_back', 'insert', 'erase', 'clear', 'resize', 'reserve', 'pop_back', 'assign',
                'swap', 'shrink_to_fit')


def may_add_set(prog, cg):
    """short names of functions that can (transitively) append to / restructure an event's particle vector"""
    base = set()
    for key, fn in prog.functions.items():
        if key[0] in GROWERS:
            base.add(key)
        for c in astu.calls(fn['body']):
            q = c['callee']['qn']
            if q.split('::')[-1] in VEC_MUTATORS and c['k'] == 'MCall':
                o = c['obj']
                if o.get('k') == 'MCall' and o.get('callee', {}).get('qn') == 'bxdecay0::event::grab_particles':
                    base.add(key)
                if o.get('k') == 'Member' and o.get('name') == '_particles_':
                    base.add(key)
    seen = set(base)
    st = list(base)
    while st:
        k = st.pop()
        for c in cg.callers.get(k, ()):
            if c not in seen:
                seen.add(c)
                st.append(c)
    names = set()
    for k in seen:
        fn = prog.functions[k]
        if fn.get('method'):
            names.add(cpp2ir.short(fn.get('cls', '')) + '::' + fn['name'])
        else:
            names.add(cpp2ir.short(k[0]))
    return names


def _is_element_expr(e):
    """does the expression denote (the address of / a reference to) an element of an event's particle vector?"""
    for x in ir.subexprs(e):
        if x[0] == 'call' and x[1] in ('event::grab_last_particle', 'event::get_last_particle'):
            return True
        if x[0] == 'call' and x[1].split('::')[-1] in ELEM_METHODS and any(
                y[0] == 'call' and y[1] in ('event::grab_particles', 'event::get_particles') for y in ir.subexprs(x)):
            return True
        if x[0] == 'op' and x[1] in ('[]', 'elem') and any(
                y[0] == 'call' and y[1] in ('event::grab_particles', 'event::get_particles') for y in ir.subexprs(x)):
            return True
        if x[0] == 'idx' and x[1] in ('_particles_', '._particles_'):
            return True
    return False


def check_function(rep, fn, adders, sigs, rule):
    tree, lo = cpp2ir.lower_function(fn, sigs, keep_bindings=True)
    g = cfgm.compact(cfgm.build(tree), drop=('nop', 'io'))
    binds = {}
    for n in g.nodes:
        if n.kind == 'assign' and n.stmt[1][0] == 'var':
            r = n.stmt[2]
            if (r[0] == 'op' and r[1] in ('bind', 'addr') and _is_element_expr(r)) or \
                    (r[0] == 'op' and r[1] == 'addr' and _is_element_expr(r)):
                binds[n.id] = n.stmt[1][1]
    if not binds:
        return 0
    bound_vars = set(binds.values())

    def kills(n):
        names = []
        if n.kind == 'call':
            names.append(n.stmt[1])
        for e in ([n.stmt[2]] if n.kind == 'assign' else [n.stmt[1]] if n.kind in ('branch', 'eval') else
                  list(n.stmt[2]) if n.kind == 'call' else []):
            for x in ir.subexprs(e):
                if x[0] == 'call':
                    names.append(x[1])
        return [x for x in names if x in adders]

    def uses(n):
        out = set()
        exprs = []
        if n.kind == 'assign':
            exprs = [n.stmt[2]] + ([n.stmt[1]] if n.stmt[1][0] != 'var' else [])
        elif n.kind == 'call':
            exprs = list(n.stmt[2])
        elif n.kind in ('branch', 'eval'):
            exprs = [n.stmt[1]]
        elif n.kind == 'return' and n.stmt[1] is not None:
            exprs = [n.stmt[1]]
        for e in exprs:
            for x in ir.subexprs(e):
                if x[0] == 'var' and x[1] in bound_vars:
                    out.add(x[1])
        return out

    # forward may-analysis: fact = (var, bind node, kill node or None)
    IN = {n.id: set() for n in g.nodes}
    OUT = {n.id: set() for n in g.nodes}
    preds = g.preds()
    order = g.rpo()
    viol = {}
    changed = True
    while changed:
        changed = False
        for i in order:
            n = g.nodes[i]
            inn = set()
            for p in preds[i]:
                inn |= OUT[p]
            out = set(inn)
            # uses are evaluated before the node's own effects (arguments are read, then the callee runs)
            for (v, b, k) in inn:
                if k is not None and v in uses(n) and not (n.kind == 'assign' and n.stmt[1] == ('var', v)
                                                            and i in binds):
                    # a comparison with nullptr / a plain copy of the pointer value is not a dereference
                    if _only_null_tests(n, v):
                        continue
                    viol.setdefault((b, v), (k, i))
            ks = kills(n)
            if ks:
                out = {(v, b, (k if k is not None else i)) for (v, b, k) in out}
            if i in binds:
                v = binds[i]
                out = {f for f in out if f[0] != v} | {(v, i, None)}
            elif n.kind == 'assign' and n.stmt[1][0] == 'var' and n.stmt[1][1] in bound_vars:
                # re-pointed / reset to null: the old binding is gone
                v = n.stmt[1][1]
                if n.stmt[2][0] == 'var' and n.stmt[2][1] in bound_vars:
                    src = n.stmt[2][1]
                    out = {f for f in out if f[0] != v} | {(v, b, k) for (s_, b, k) in out if s_ == src}
                else:
                    out = {f for f in out if f[0] != v}
            if inn != IN[i] or out != OUT[i]:
                IN[i], OUT[i] = inn, out
                changed = True
    for bid, v in sorted(binds.items()):
        b = g.nodes[bid]
        hit = viol.get((bid, v))
        later = any(kills(g.nodes[j]) for j in g.reachable(bid) if j != bid)
        det = None
        if hit:
            k, u = g.nodes[hit[0]], g.nodes[hit[1]]
            det = ['bound at line %d: %s' % (b.line, ir.fmt_stmt(b.stmt)[:100]),
                   'the vector may grow at line %d: %s' % (k.line, ir.fmt_stmt(k.stmt)[:100]),
                   'then used at line %d: %s' % (u.line, ir.fmt_stmt(u.stmt)[:100])]
        rep.add(rule, '%s:%s' % (fn['name'], v), where(fn, b.line),
                '%s: `%s` bound to a particle of the event is not used after the vector may have grown' %
                (fn['name'], v), hit is None, det, nontrivial=later)
    return len(binds)


def _only_null_tests(n, v):
    """the node only compares v with null / copies it"""
    if n.kind == 'branch':
        for x in ir.subexprs(n.stmt[1]):
            if x[0] == 'var' and x[1] == v:
                pass
        txt = ir.fmt(n.stmt[1])
        import re
        rest = re.sub(r'\(?0 (!=|==) %s\)?|\(?%s (!=|==) 0\)?' % (re.escape(v), re.escape(v)), '', txt)
        return v not in re.findall(r'[A-Za-z_][A-Za-z_0-9]*', rest)
    if n.kind == 'assign' and n.stmt[2] == ('var', v):
        return True
    return False


def check_all(rep, prog, cg, sigs, keys, rule='INV.use-after-invalidate'):
    rep.rule(rule, 'forward dataflow per function: a pointer/reference bound to an element of an event\'s particle vector '
             '(&grab_last_particle(), grab_particles()[i], back(), range-for reference) is dead after any call that may '
             'append to the vector (call-graph summary may_add); using it afterwards is a use-after-free')
    adders = may_add_set(prog, cg)
    n = 0
    for k in sorted(keys):
        n += check_function(rep, prog.functions[k], adders, sigs, rule)
    return n, adders
