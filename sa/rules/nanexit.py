"""NaN polarity of rejection-loop exits.

A rejection loop `do { draw ... } while (r > f)` leaves the loop when the comparison is *unordered* (one operand is NaN),
whereas `while (true) { draw ...; if (r <= f) break; }` stays in the loop for ever on the same input: `!(r > f)` and
`r <= f` differ exactly on NaN.  For a loop that draws deviates this is the difference between one degraded event and
an unbounded number of deviates.  The rule is relative to the reference: a port unit may not contain more rejection
loops that stay on unordered comparisons than the reference unit it ports, except loops whose compared operands are
polynomials of literals and deviates (which cannot be NaN).

Everything is computed on the *raw* CFGs (before `tv.rewrite_cfg`), because the TV normal form pushes negations
through comparisons (which is the identity this rule is about).
"""
from .. import ir, tv

ORDERED = {'<', '<=', '>', '>=', '=='}


def nanval(e, subst=None, depth=0):
    """value of the boolean expression when every real comparison in it is unordered; None = not determined"""
    if e[0] == 'num':
        return e[1] != 0
    if e[0] == 'var' and subst and e[1] in subst and depth < 4:
        return nanval(subst[e[1]], subst, depth + 1)
    if e[0] != 'op':
        return None
    op = e[1]
    if op in ORDERED:
        return False
    if op == '!=':
        return True
    if op == 'not':
        v = nanval(e[2], subst, depth)
        return None if v is None else (not v)
    if op in ('and', 'or'):
        vs = [nanval(x, subst, depth) for x in e[2:]]
        if op == 'and':
            if any(v is False for v in vs):
                return False
            return None if any(v is None for v in vs) else True
        if any(v is True for v in vs):
            return True
        return None if any(v is None for v in vs) else False
    return None


def _natural(preds, tail, head):
    body = {head, tail}
    st = [tail]
    while st:
        x = st.pop()
        if x == head:
            continue
        for p in preds[x]:
            if p not in body:
                body.add(p)
                st.append(p)
    return body


def _compared(e, subst, depth=0):
    """operands of the real comparisons the boolean expression is built from"""
    if e[0] == 'var' and subst and e[1] in subst and depth < 4:
        return _compared(subst[e[1]], subst, depth + 1)
    if e[0] != 'op':
        return []
    if e[1] in ORDERED or e[1] == '!=':
        return list(e[2:4])
    if e[1] in ('not', 'and', 'or'):
        return [y for x in e[2:] for y in _compared(x, subst, depth)]
    return []


def nan_free(e, defs, seen=(), ints=()):
    """the expression is a polynomial of literals, deviates and integers (through locals all of whose definitions are)"""
    k = e[0]
    if k in ('num', 'draw'):
        return True
    if k in ('var', 'idx') and e[1] in ints:
        return True
    if k == 'var':
        if e[1] in seen or e[1] not in defs:
            return False
        return all(nan_free(d, defs, seen + (e[1],), ints) for d in defs[e[1]])
    if k == 'op':
        if e[1] in ('+', '-', '*', 'neg', 'real', 'abs'):
            return all(nan_free(x, defs, seen, ints) for x in e[2:])
        if e[1] == '/' and e[3][0] == 'num' and e[3][1] != 0:
            return nan_free(e[2], defs, seen, ints)
        if e[1] == '**' and e[3][0] == 'num' and e[3][1].denominator == 1 and e[3][1] >= 0:
            return nan_free(e[2], defs, seen, ints)
    return False


def rejection_loops(g, ints=()):
    """-> [dict(line, trapped, decided, exits=[(text, stays)], nanfree)] for every natural loop that draws a deviate"""
    dom = g.dominators()
    preds = g.preds()
    loops = {}
    for n in g.nodes:
        for h in n.succ:
            if h in dom.get(n.id, ()):
                loops.setdefault(h, set()).update(_natural(preds, n.id, h))
    defs = {}
    for n in g.nodes:
        if n.kind == 'assign' and n.stmt[1][0] == 'var':
            defs.setdefault(n.stmt[1][1], []).append(n.stmt[2])
        elif n.kind in ('assign', 'call'):
            d = tv.node_def(n)
            if d:
                defs.setdefault(d, []).append(('unknown',))
    out = []
    for h, body in sorted(loops.items()):
        if not any(g.nodes[i].stmt is not None and sum(ir.count_draws(e) for e in tv._stmt_exprs(g.nodes[i]))
                   for i in body):
            continue
        exits = [g.nodes[i] for i in body if g.nodes[i].kind == 'branch' and any(s not in body for s in g.nodes[i].succ)]
        if any(x.stmt[1][0] == 'op' and x.stmt[1][1] == 'more' for x in exits):
            continue
        # boolean temporaries assigned once inside the loop stand for their definition
        subst = {}
        for i in body:
            n = g.nodes[i]
            if n.kind == 'assign' and n.stmt[1][0] == 'var':
                subst.setdefault(n.stmt[1][1], []).append(n.stmt[2])
        subst = {k: v[0] for k, v in subst.items() if len(v) == 1 and len(defs.get(k, ())) <= 2}
        trapped, decided, desc, operands = True, True, [], []
        for x in exits:
            v = nanval(x.stmt[1], subst)
            operands += _compared(x.stmt[1], subst)
            if v is None:
                decided = False
                trapped = False
                desc.append((ir.fmt(x.stmt[1])[:60], None))
                continue
            s = x.succ[0] if v else x.succ[1]
            desc.append((ir.fmt(x.stmt[1])[:60], s in body))
            if s not in body:
                trapped = False
        if not exits:
            trapped = False
        out.append(dict(line=g.nodes[h].line, trapped=trapped, decided=decided, exits=desc,
                        nanfree=bool(operands) and all(nan_free(o, defs, (), ints) for o in operands)))
    return out
