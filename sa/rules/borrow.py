"""LIFETIME.borrowed: an argument handed in by reference or by pointer is not kept beyond the call.

Every generation entry point of the library takes its deviate source and its event as reference parameters whose lifetime is the
caller's business (`shoot(prng_, event_)`, `initialize(prng_)`, `operator()(prng_, event_)`).  A class that stores the address of
such an argument in a data member (or a static) and dereferences it in a later call reads a dead object as soon as the caller's
object is gone - the classic "initialise with a temporary engine, shoot with another" use-after-scope, which no test of the suite
exercises because they all keep one engine alive.  The rule is structural: every *store* of a borrowed argument is enumerated and
must be one of the reviewed borrowers (constructor-bound back-references whose documented contract is "outlives me").

A store is one of
  - `member = &param` / `member = param` (param of pointer type) / `static = ...`,  through `this`, a pimpl or any object path,
  - a constructor initialiser `member(param)` of a reference or pointer member from a reference/pointer parameter or `&param`,
  - `member.push_back(&param)` and friends (insert/emplace/emplace_back/push_front) on a data member.
Smart-pointer parameters (ownership is transferred or shared) and by-value parameters are not borrowed.
"""
from .. import astu
from ..framework import where

# (class qn, member) -> reason the borrow is sound
REVIEWED = {
    ('bxdecay0::std_random', '_generator_'):
        'documented wrapper: the constructor binds the caller\'s engine for the wrapper\'s whole life (std_random.h)',
    ('bxdecay0::event_reader::pimpl_type', 'reader'):
        'back-reference from the private implementation to the event_reader that owns it (same lifetime)',
}

_GROW = ('push_back', 'emplace_back', 'insert', 'emplace', 'push_front', 'emplace_front', 'assign', 'reset')


def _borrowed(e, params):
    """the parameter whose address/reference `e` denotes, or None"""
    e = astu.strip_casts(e)
    if e is None:
        return None
    if e.get('k') == 'Un' and e.get('op') == '&':
        x = astu.strip_casts(e['e'])
        if x is not None and x.get('k') == 'Ref' and x.get('dk') == 'param' and x.get('id') in params:
            p = params[x['id']]
            if p['ty'].rstrip().endswith('&'):          # address of a by-value parameter is a different (worse) defect: also reported
                return p
            return p
        return None
    if e.get('k') == 'Ref' and e.get('dk') == 'param' and e.get('id') in params:
        p = params[e['id']]
        ty = p['ty'].strip()
        if ty.endswith('*') or ty.endswith('* const'):
            return p
        return None
    if e.get('k') == 'Call' and astu.callee(e) in ('std::addressof', 'std::ref', 'std::cref') and e.get('args'):
        x = astu.strip_casts(e['args'][0])
        if x is not None and x.get('k') == 'Ref' and x.get('dk') == 'param' and x.get('id') in params:
            return params[x['id']]
    return None


def _field_of(e):
    """(owner-ish text, field name, field qn) when `e` designates a data member (through any object path) or a static"""
    e = astu.strip_casts(e)
    if e is None:
        return None
    if e.get('k') == 'Member' and e.get('dk') == 'field':
        if _local_object(e.get('base')):
            return None                 # a field of a by-value local: dies with the call
        return ('member', e['name'], e.get('qn') or e['name'])
    if e.get('k') == 'Ref' and e.get('dk') in ('global', 'static_local', 'static_member', 'static'):
        return ('static', e['name'], e.get('qn') or e['name'])
    if e.get('k') in ('Idx',):
        return _field_of(e['a'])
    if e.get('k') == 'OpCall' and e.get('op') == '[]':
        return _field_of(e['args'][0])
    return None


def _local_object(b):
    """the object path is rooted in a local variable held by value (not a reference, pointer or smart pointer)"""
    x = b
    while x is not None:
        x = astu.strip_casts(x)
        k = x.get('k')
        if k == 'Member':
            x = x.get('base')
        elif k == 'Idx':
            x = x['a']
        elif k == 'OpCall' and x.get('op') == '[]':
            x = x['args'][0]
        elif k == 'Ref':
            ty = x.get('ty', '').strip()
            return x.get('dk') == 'local' and not (ty.endswith('&') or '*' in ty or 'ptr<' in ty)
        else:
            return False
    return False


def check(rep, prog, keys, rule='LIFETIME.borrowed'):
    rep.rule(rule, 'no function keeps the address of (or a pointer handed in as) one of its arguments in a data member or static beyond '
             'the call, except the reviewed constructor-bound borrowers: a later call would dereference an object whose lifetime '
             'belongs to the earlier caller (deviate sources and events are passed per call)')
    nfun = nsite = 0
    for k in sorted(keys):
        fn = prog.functions[k]
        if not fn.get('body') and not fn.get('inits'):
            continue
        params = {p['id']: p for p in fn.get('params', []) if 'id' in p}
        refp = {i: p for i, p in params.items()
                if p['ty'].rstrip().endswith('&') or p['ty'].rstrip().endswith('*') or p['ty'].rstrip().endswith('* const')}
        if not refp:
            continue
        nfun += 1
        cls = fn.get('cls', '')
        sites = []          # (line, kind, member name, member qn, param)
        for ini in fn.get('inits', []) or []:
            if 'field' not in ini or not ini.get('written'):
                continue
            init = ini.get('init')
            x = astu.strip_casts(init)
            p = _borrowed(x, params)
            if p is None and x is not None and x.get('k') == 'Ref' and x.get('dk') == 'param' and x.get('id') in refp:
                fty = _field_type(prog, cls, ini['field'])
                if fty.rstrip().endswith('&') or '*' in fty:
                    p = refp[x['id']]
            if p is None and x is not None and x.get('k') == 'InitList' and len(x.get('elts', [])) == 1:
                p = _borrowed(x['elts'][0], params)
            if p is not None:
                sites.append((ini.get('l', fn['l']), 'constructor initialiser', ini['field'], ini.get('qn', ini['field']), p))
        for x in astu.walk(fn.get('body') or {}):
            kx = x['k']
            if kx == 'Bin' and x.get('op') == '=':
                f = _field_of(x['a'])
                p = _borrowed(x['b'], params)
                if f and p is not None:
                    sites.append((x.get('l', fn['l']), 'assignment', f[1], f[2], p))
            elif kx == 'OpCall' and x.get('op') == '=' and len(x.get('args', [])) == 2:
                f = _field_of(x['args'][0])
                p = _borrowed(x['args'][1], params)
                if f and p is not None:
                    sites.append((x.get('l', fn['l']), 'assignment', f[1], f[2], p))
            elif kx == 'MCall' and x.get('callee', {}).get('qn', '').split('::')[-1] in _GROW:
                f = _field_of(x.get('obj'))
                if f:
                    for a in x.get('args', []):
                        p = _borrowed(a, params)
                        if p is not None:
                            sites.append((x.get('l', fn['l']), 'container/handle store', f[1], f[2], p))
        for line, kind, mname, mqn, p in sites:
            nsite += 1
            owner = mqn.rsplit('::', 1)[0] if '::' in mqn else cls
            key = (owner, mname)
            ok = key in REVIEWED and bool(fn.get('ctor'))
            if not ok and fn.get('ctor'):
                # a constructor-bound borrow lives as long as the object: sound for a scoped helper object, unsound for a long-lived
                # one; which of the two an unreviewed class is cannot be read from the store itself
                rep.cannot_decide(rule, where(fn, line), 'constructor of %s binds its argument `%s` to member `%s`: not in the reviewed '
                                  'table of borrowers (review the class\'s lifetime contract and list it)' % (fn.get('cls', '?'), p['name'], mname))
                continue
            rep.add(rule, '%s:%s<-%s' % (fn['qn'], mname, p['name']), where(fn, line),
                    '%s stores its argument `%s` (%s) in `%s::%s` by %s: %s' % (
                        fn['qn'], p['name'], p['ty'], owner, mname, kind,
                        REVIEWED[key] if ok else 'NOT a reviewed borrower'), ok,
                    None if ok else ['`%s` is handed in per call; a later member function that reads `%s` dereferences the earlier '
                                     'caller\'s object (use after scope when that object is gone)' % (p['name'], mname)])
    rep.analysed['functions with a reference/pointer parameter scanned for stores of it'] = nfun
    return nsite


def _field_type(prog, cls, name):
    r = prog.records.get(cls)
    if r:
        for f in r['fields']:
            if f['name'] == name:
                return f['ty']
    return ''
