"""Reaching-definition resolution of scalar locals on a lowered C++ function (rules/cppflow.Flow), and conversion of the
resolved expression to the polynomial normal form of rules/symalg.

`Resolve.value(var, node)` is the expression of `var` on entry to `node` with every local replaced by its reaching
definition; two reaching definitions are joined into ('phi', cond, then, else) when they are the two sides of one
if-without-else (definition d0 dominates the branch, d1 sits on its true arm); anything else stays ('var', name).
No path is enumerated: this is def-use substitution, the same thing a reader does when unfolding locals.
"""
from fractions import Fraction

from .. import ir
from ..project import AnalysisBroken
from .symalg import Poly


class Resolve:
    def __init__(self, F, symbols=()):
        self.F = F
        self.symbols = set(symbols)
        g = F.g
        defs = {}
        for n in g.nodes:
            if n.kind == 'assign' and n.stmt[1][0] == 'var':
                defs.setdefault(n.stmt[1][1], set()).add(n.id)
        self.defs = defs
        IN = {n.id: {} for n in g.nodes}
        OUT = {n.id: {} for n in g.nodes}
        preds = g.preds()
        order = g.rpo()
        changed = True
        while changed:
            changed = False
            for i in order:
                n = g.nodes[i]
                new_in = {}
                for p in preds[i]:
                    for v, s in OUT[p].items():
                        new_in.setdefault(v, set()).update(s)
                out = {v: set(s) for v, s in new_in.items()}
                if n.kind == 'assign' and n.stmt[1][0] == 'var':
                    out[n.stmt[1][1]] = {i}
                if new_in != IN[i] or out != OUT[i]:
                    IN[i], OUT[i] = new_in, out
                    changed = True
        self.IN = IN

    def value(self, var, node, _busy=frozenset()):
        if var in self.symbols:
            return ('var', var)
        ds = sorted(self.IN[node.id].get(var, ()))
        if not ds:
            return ('var', var)
        if any((var, d) in _busy for d in ds):
            return ('var', var)
        if all(self.F.g.nodes[d].stmt[2] == ('draw',) for d in ds):
            return ('var', var)            # a named deviate keeps its identity
        if len(ds) == 1:
            d = self.F.g.nodes[ds[0]]
            return self.subst(d.stmt[2], d, _busy | {(var, d.id)})
        if len(ds) == 2:
            for d0, d1 in (ds, ds[::-1]):
                b = self._if_then(d0, d1)
                if b is not None:
                    n0, n1 = self.F.g.nodes[d0], self.F.g.nodes[d1]
                    busy = _busy | {(var, d0), (var, d1)}
                    keep = lambda n: ('var', var) if n.stmt[2] == ('draw',) else self.subst(n.stmt[2], n, busy)
                    return ('phi', self.subst(b.stmt[1], b, _busy | {(var, d1)}), keep(n1), keep(n0))
        return ('var', var)

    def _if_then(self, d0, d1):
        """branch b such that d0 dominates b, d1 is on b's true arm only, and b's false arm skips d1"""
        F = self.F
        for b in F.nodes(kind='branch'):
            if d0 in F.dom.get(b.id, ()) and b.id in F.dom.get(d1, ()) and b.id != d1:
                t, f = b.succ
                if d1 in self._reach_avoiding(t, d0) and d1 not in self._reach_avoiding(f, d0) and t != f:
                    return b
        return None

    def _reach_avoiding(self, start, avoid):
        seen = set()
        st = [start]
        while st:
            i = st.pop()
            if i in seen or i == avoid:
                continue
            seen.add(i)
            st.extend(self.F.g.nodes[i].succ)
        return seen

    def subst(self, e, node, _busy=frozenset()):
        def f(x):
            if x[0] == 'var':
                return self.value(x[1], node, _busy)
            return x
        return ir.map_expr(f, e)

    def at(self, e, node):
        return self.subst(e, node)


def poly(e, sym):
    """polynomial of an IR expression; `sym(e)` supplies a Poly for every non-arithmetic leaf (or raises)"""
    k = e[0]
    if k == 'num':
        return Poly.const(e[1])
    if k == 'op':
        o = e[1]
        if o == '+' and len(e) == 4:
            return poly(e[2], sym) + poly(e[3], sym)
        if o == '-' and len(e) == 4:
            return poly(e[2], sym) - poly(e[3], sym)
        if o in ('neg', '-') and len(e) == 3:
            return -poly(e[2], sym)
        if o == '+' and len(e) == 3:
            return poly(e[2], sym)
        if o == '*' and len(e) == 4:
            return poly(e[2], sym) * poly(e[3], sym)
        if o == '/' and len(e) == 4:
            d = None
            try:
                d = poly(e[3], lambda x: (_ for _ in ()).throw(AnalysisBroken('non-constant')))
            except AnalysisBroken:
                d = None
            if d is not None and d.is_const() and d.value() != 0:
                return poly(e[2], sym) * Poly.const(Fraction(1) / d.value())
    return sym(e)
