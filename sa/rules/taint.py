"""TAINT: values extracted from a stream / argv must be checked before they are used (C15, C14, C13)."""
import re

from .. import astu, ir
from ..framework import where
from . import cppflow

STATE_CALLS = ('fail', 'good', 'bad', 'eof', 'operator bool', 'operator!')


def extraction_nodes(F):
    """[(node, stream expr text, [extracted variable texts])]"""
    out = []
    for n in F.g.nodes:
        es = F.exprs(n)
        if n.kind == 'call':
            es = [('call', n.stmt[1]) + tuple(n.stmt[2])]
        for e in es:
            chain = _extraction_chain(e)
            if chain:
                out.append((n, chain[0], chain[1]))
                break
    return out


def _extraction_chain(e):
    """call operator>>(call operator>>(stream, a), b) -> (stream text, [a, b])"""
    vars_ = []
    x = e
    seen = False
    while x[0] == 'call' and x[1] in ('operator>>', 'basic_istream::operator>>', 'std::basic_istream::operator>>',
                                      'std::operator>>', 'getline', 'std::getline') and len(x) >= 4:
        seen = True
        if x[1].endswith('getline'):
            vars_.append(x[3])
            x = x[2]
            break
        arg = x[3]
        if not (arg[0] == 'var' and arg[1] in ('ws', 'std::ws')):
            vars_.append(arg)
        x = x[2]
    if not seen:
        return None
    vars_ = [v for v in vars_ if v[0] in ('var', 'fld', 'idx') or (v[0] == 'op' and v[1] == '[]')]
    return (ir.fmt(x), [ir.fmt(v) for v in reversed(vars_)])


def is_state_test(cond, stream):
    """the condition is true whenever the last extraction failed: `!s`, `s.fail()`, `!s.good()`, or a disjunction
    containing one of these.  A conjunction with anything else (e.g. `s.fail() && !s.eof()`) lets failures through."""
    def strong(c):
        t = ir.fmt(c)
        if stream not in t:
            return False
        if c[0] == 'op' and c[1] == 'or':
            return any(strong(x) for x in c[2:])
        if c[0] == 'op' and c[1] == 'not':
            x = c[2]
            tx = ir.fmt(x)
            # !s  /  !s.good()  / !(bool)s
            if x[0] in ('var', 'fld') or (x[0] == 'call' and (x[1].endswith('good') or 'operator bool' in x[1]
                                                              or x[1] in ('operator*', 'operator->'))) \
                    or (x[0] == 'op' and x[1] == 'deref'):
                return True
            return False
        if c[0] == 'call' and (c[1].endswith('::fail') or c[1].endswith('operator!')):
            return True
        return False
    return strong(cond)


def is_weak_state_test(cond, stream):
    t = ir.fmt(cond)
    return stream in t and any(s in t for s in ('fail', 'good', 'bad', 'eof', 'not('))


def check_extractions(rep, fn, rule, sigs=None):
    """every extraction is followed by a state test of the same stream before the extracted values are used"""
    F = cppflow.Flow(fn, sigs, keep_io=True)
    ex = extraction_nodes(F)
    n = 0
    guards = F.throw_guards()
    for node, stream, vs in ex:
        if not vs:
            continue
        n += 1
        # candidate tests: branches on the stream reachable from the extraction
        tests = [b for b in F.nodes(kind='branch') if is_state_test(b.stmt[1], stream.split('.')[-1].split('(')[-1].strip(')'))
                 and b.id in F.reach(node.id)]
        bad = None
        # nodes reachable from the extraction WITHOUT passing a state test of that stream
        cut = {t.id for t in tests}
        reach = set()
        st = list(node.succ)
        while st:
            i = st.pop()
            if i in reach:
                continue
            reach.add(i)
            if i in cut:
                continue
            st.extend(F.g.nodes[i].succ)
        ptypes = {p_['name']: p_.get('ty', '') for p_ in fn.get('params', [])}
        strings = {v for v in vs if 'string' in F.lower.locals.get(v, '') or 'string' in ptypes.get(v, '')}
        if any(x[0] == 'call' and x[1].endswith('getline') for e in
               ([('call', node.stmt[1]) + tuple(node.stmt[2])] if node.kind == 'call' else F.exprs(node))
               for x in ir.subexprs(e)):
            strings |= set(vs)          # std::getline only fills strings (left empty/unchanged on failure)
        for u in F.g.nodes:
            if u.id not in reach or u.id == node.id or u.stmt is None or u.id in cut:
                continue
            used = [v for v in vs if v not in strings and
                    any(v == ir.fmt(x) for e in _use_exprs(F, u) for x in ir.subexprs(e))]
            if not used:
                continue
            if any(x[0].id == u.id for x in ex):
                continue            # re-extraction into the same variable
            bad = (u, used)
            break
        rep.add(rule, '%s:%s' % (fn['name'], ','.join(vs)[:50]), where(fn, node.line),
                '%s: values extracted from `%s` (%s) are used only after the stream state was tested' %
                (fn['name'], stream[:30], ', '.join(vs)[:60]), bad is None,
                None if bad is None else ['`%s` is used at line %d (%s) with no test of `%s` in between' %
                                          (bad[1][0], bad[0].line, ir.fmt_stmt(bad[0].stmt)[:70], stream[:30])])
    return n


def _use_exprs(F, u):
    if u.kind == 'assign':
        out = [u.stmt[2]]
        l = u.stmt[1]
        if l[0] == 'idx':
            out += [x for x in l[2:] if isinstance(x, tuple)]
        elif l[0] == 'op' and l[1] == '[]':
            out.append(l[3])
        return out
    return F.exprs(u)


def tainted_sinks(fn, F, sources):
    """discover sinks of input-derived integers inside one function.
    sources: variable/field texts that hold input-derived values.  -> [(kind, node, text)]"""
    out = []
    names = set(sources)
    # propagate through plain copies and field stores
    changed = True
    while changed:
        changed = False
        for n in F.nodes(kind='assign'):
            r = ir.fmt(n.stmt[2])
            l = ir.fmt(n.stmt[1])
            if l not in names and any(_mentions_text(n.stmt[2], s) for s in names) and n.stmt[2][0] in ('var', 'fld', 'idx', 'op'):
                if n.stmt[2][0] == 'op' and n.stmt[2][1] not in ('-', '+', 'int', '*'):
                    continue
                names.add(l)
                changed = True
    for n in F.g.nodes:
        for e in F.exprs(n) + ([n.stmt[1]] if n.kind == 'assign' else []):
            for x in ir.subexprs(e):
                if x[0] == 'idx' and any(_mentions_text(i, s) for i in x[2:] for s in names):
                    out.append(('subscript', n, ir.fmt(x)))
                if x[0] == 'op' and x[1] == '[]' and any(_mentions_text(x[3], s) for s in names):
                    out.append(('subscript', n, ir.fmt(x)))
                if x[0] == 'op' and x[1] in ('/', 'mod') and len(x) == 4 and any(_mentions_text(x[3], s) for s in names):
                    out.append(('divisor', n, ir.fmt(x)))
                if x[0] == 'call' and x[1].split('::')[-1] in ('reserve', 'resize', 'assign') and \
                        any(_mentions_text(a, s) for a in x[3:] for s in names):
                    out.append(('allocation', n, ir.fmt(x)))
                if x[0] == 'op' and x[1] == 'new' :
                    pass
        if n.kind == 'call' and n.stmt[1].split('::')[-1] in ('reserve', 'resize') and \
                any(_mentions_text(a, s) for a in n.stmt[2][1:] for s in names):
            out.append(('allocation', n, ir.fmt_stmt(n.stmt)))
        if n.kind == 'branch' and any(_mentions_text(n.stmt[1], s) for s in names):
            # loop bound?
            if len(n.succ) == 2 and _stays_in_loop(F, n, n.succ[0]) != _stays_in_loop(F, n, n.succ[1]):
                out.append(('loop-bound', n, ir.fmt(n.stmt[1])))      # one arm stays in the loop headed here, the other leaves it
    return out, names


def _stays_in_loop(F, head, start):
    """from `start`, `head` is reached again through nodes it dominates (the natural loop of `head`)"""
    seen, st = set(), [start]
    while st:
        i = st.pop()
        if i == head.id:
            return True
        if i in seen or head.id not in F.dom.get(i, ()):
            continue
        seen.add(i)
        st.extend(F.g.nodes[i].succ)
    return False


def _mentions_text(e, s):
    return any(ir.fmt(x) == s for x in ir.subexprs(e))


def sanitised(F, node, names):
    """a branch on one of the names dominates the node"""
    for b in F.nodes(kind='branch'):
        if b.id != node.id and F.dominates(b, node) and any(_mentions_text(b.stmt[1], s) for s in names):
            t = ir.fmt(b.stmt[1])
            if any(op in t for op in ('<', '>', '==', '!=')):
                return b
    return None
