"""STATE.def-before-use for the double-beta parameter block inside genbbsub.

At an initialising call (istart = -1 or 0) genbbsub computes the fields of `bbpars` that decay0_bb consumes (Q value, daughter
level energy, K binding energy, Z, A, mode, start flag).  A field that the call itself assigns must not be read - by genbbsub's
own consistency checks or by decay0_bb - before that assignment on the same path: the value read would be the one left by a
previous initialisation, or the NaN of a freshly reset block (a NaN makes every `e0 <= El` style guard false and sends a
negative end-point energy, hence a negative table index, into decay0_bb).

Decided on the SCCP residual of the port's genbbsub for each double-beta name at (level 0, mode 1), for both initialising stages:
forward must-definition dataflow over the residual CFG.
"""
from .. import genbb, ir, sccp, tv
from ..framework import where


def check(rep, ctx, rule='STATE.def-before-use'):
    rep.rule(rule, 'in an initialising call of genbbsub no field of the double-beta parameter block is read (by genbbsub itself or '
             'by decay0_bb, whose inputs are the reference bb()\'s arguments) before the assignment the same call makes to it: no '
             'stale or NaN value of a previous/reset state reaches a consistency check or the kinematics')
    D = ctx.D
    bbu = ctx.units['bb']
    bb_inputs = {'.' + p.lower() for p in bbu.params}
    n = 0
    for name in sorted(ctx.dbd):
        for istart in (-1, 0):
            prep = genbb.prepare(D, {'i2bbs': 1, 'chnuclide': name, 'istart': istart})
            g = sccp.specialise(prep['gc'], genbb._cenv({'ilevel': 0, 'modebb': 1}), D.evc,
                                lambda c, p: tv._maywrite('c', c, p), nofold_calls=('bb',), clobber=genbb._cclob(D))
            written = {}
            for x in g.nodes:
                d = tv.node_def(x)
                if d and d.startswith('.') and x.kind == 'assign' and x.stmt[1][0] == 'var':
                    written.setdefault(d, x.line)
            preds = g.preds()
            order = g.rpo()
            OUT, IN = {}, {}
            changed = True
            while changed:
                changed = False
                for i in order:
                    x = g.nodes[i]
                    ps = [OUT[p] for p in preds[i] if p in OUT]
                    inn = set.intersection(*ps) if ps else set()
                    d = tv.node_def(x)
                    out = inn | ({d} if d and d.startswith('.') and x.kind == 'assign' and x.stmt[1][0] == 'var' else set())
                    if IN.get(i) != inn or OUT.get(i) != out:
                        IN[i], OUT[i] = inn, out
                        changed = True
            bad = []
            for i in order:
                x = g.nodes[i]
                if x.stmt is None:
                    continue
                reads = {u for u in tv.node_uses(x) if u.startswith('.')}
                if x.kind == 'call' and x.stmt[1] == 'bb':
                    reads |= bb_inputs
                for f in sorted(reads):
                    if f in written and f not in IN.get(i, set()):
                        # read before the call's own assignment (which comes later or on another path)
                        bad.append((x.line, f, written[f], ir.fmt_stmt(x.stmt)[:70]))
            n += 1
            stage = {-1: 'init', 0: 'init+generate'}[istart]
            rep.add(rule, '%s:%s' % (name, stage), where(D.fn, bad[0][0] if bad else D.fn['l']),
                    '%s %s: every field of the parameter block the call assigns is assigned before it is read' % (name, stage),
                    not bad, None if not bad else ['line %s reads `%s` (in `%s`), which this call assigns only at line %s'
                                                   % (l, f[1:], t, w) for l, f, w, t in bad[:4]])
    return n
