"""NULL.stream: the reader never dereferences its input stream handle while it is null.

event_reader keeps its current input file in `std::unique_ptr<std::ifstream> fin`; `_close_current_file_` resets it to null and the
functions that go on reading rely on a protocol between three methods: "after a close, either the reader is terminated or a new file
is opened", and "`_open_new_file_` throws when the reader is terminated".  Each method looks fine alone; whether `*fin` can be reached
with a null handle is a property of their composition.  This rule decides it by abstract interpretation over the four states
(fin null / non-null) x (terminated yes / no):

  * transfer: `fin.reset(new ...)` -> non-null, `fin.reset()` -> null, `_terminated_ = <literal>`, branches on `fin`, `!fin`,
    `_terminated_`, `is_terminated()` split the state set, every other branch keeps both successors; a throw ends the path;
  * calls of methods of the same class are replaced by their summaries (input state -> set of output states on normal return),
    computed as a least fixpoint (`_open_new_file_` is recursive);
  * the public entry points start from the class invariant I = {fin non-null, or terminated}; that I is inductive (every entry
    point that starts in I ends in I, and configuration establishes it) is checked too.

A dereference `*fin` / `fin->` in a state with fin null is the violation, reported with the chain of abstract states."""
from .. import ir
from ..framework import where
from ..project import AnalysisBroken
from . import cppflow

CLS = 'bxdecay0::event_reader'
DEREF = ('operator*(operator->(this._pimpl_).fin)', 'operator->(operator->(this._pimpl_).fin)')
BOOL = 'std::unique_ptr::operator bool(operator->(this._pimpl_).fin)'
I_STATES = frozenset({('V', 0), ('V', 1), ('N', 1)})


class _Interp:
    def __init__(self, prog):
        self.prog = prog
        self.flows = {}
        for k, f in prog.functions.items():
            if f.get('cls') == CLS and f.get('body'):
                self.flows[f['name']] = (f, cppflow.Flow(f, keep_io=True))
        self.summ = {}          # (method, state) -> frozenset(out states)
        self.errors = {}        # (method, line, text) -> state chain
        self.nderef = set()

    def _cond(self, c, st):
        """(may be true, may be false) of condition c in state st"""
        flip = False
        while c[0] == 'op' and c[1] == 'not' and len(c) == 3:
            c, flip = c[2], not flip
        t = ir.fmt(c)
        val = None
        if t == BOOL or t == 'operator->(this._pimpl_).fin':
            val = st[0] == 'V'
        elif t in ('this._terminated_', 'event_reader::is_terminated(this)'):
            val = st[1] == 1
        elif c[0] == 'var' and len(st) > 2:
            known = dict(st[2])
            if c[1] in known:
                val = known[c[1]] != 0
        if val is None:
            return True, True
        if flip:
            val = not val
        return val, not val

    @staticmethod
    def _local_flag(c):
        while c[0] == 'op' and c[1] == 'not' and len(c) == 3:
            c = c[2]
        return c[0] == 'var'

    def run(self, name, st, stack=()):
        key = (name, st)
        if key in self.summ and key not in stack:
            return self.summ[key]
        if key in stack:
            return self.summ.get(key, frozenset())
        fn, F = self.flows[name]
        self.summ.setdefault(key, frozenset())
        while True:
            outs = set()
            seen = set()
            work = [(F.g.entry.id if hasattr(F.g.entry, 'id') else 0, (st[0], st[1], frozenset(), False))]
            while work:
                nid, s = work.pop()
                if (nid, s) in seen:
                    continue
                seen.add((nid, s))
                n = F.g.nodes[nid]
                nxt = [(x, s) for x in n.succ]
                if n.stmt is not None:
                    text = ir.fmt_stmt(n.stmt)
                    if any(d in text for d in DEREF):
                        self.nderef.add((name, n.line))
                        if s[0] == 'N':
                            self.errors.setdefault((name, n.line, text[:90]), (fn, stack + (key,), (s[0], s[1]), s[3]))
                            continue                    # the path dies here (a crash)
                    if n.kind == 'throw':
                        continue
                    if n.kind == 'return':
                        outs.add((s[0], s[1], s[3]))
                        continue
                    if n.kind == 'call':
                        cal = n.stmt[1]
                        args = n.stmt[2]
                        if cal.endswith('unique_ptr::reset') and args and ir.fmt(args[0]) == 'operator->(this._pimpl_).fin':
                            s2 = ('V' if len(args) > 1 and ir.fmt(args[1]).startswith('new(') else 'N', s[1], s[2], s[3])
                            nxt = [(x, s2) for x in n.succ]
                        elif cal.startswith('event_reader::') and cal.split('::')[-1] in self.flows and args and ir.fmt(args[0]) == 'this' \
                                and cal.split('::')[-1] not in ('is_terminated', 'is_debug', 'is_trace', 'is_configured'):
                            res = self.run(cal.split('::')[-1], (s[0], s[1]), stack + (key,))
                            nxt = [(x, (r[0], r[1], s[2], s[3] or r[2])) for x in n.succ for r in res]
                    elif n.kind == 'assign' and ir.fmt(n.stmt[1]) == 'this._terminated_':
                        r = n.stmt[2]
                        if r[0] == 'num':
                            nxt = [(x, (s[0], 1 if r[1] != 0 else 0, s[2], s[3])) for x in n.succ]
                        else:
                            nxt = [(x, (s[0], b, s[2], s[3])) for x in n.succ for b in (0, 1)]
                    elif n.kind == 'assign' and n.stmt[1][0] == 'var':
                        # local flags assigned literals are tracked (loops driven by a boolean flag); anything else is forgotten
                        v = n.stmt[1][1]
                        env = frozenset(p for p in s[2] if p[0] != v)
                        if n.stmt[2][0] == 'num':
                            env = env | {(v, n.stmt[2][1])}
                        nxt = [(x, (s[0], s[1], env, s[3])) for x in n.succ]
                    elif n.kind == 'branch' and len(n.succ) == 2:
                        mt, mf = self._cond(n.stmt[1], s)
                        s_ = s
                        if mt and mf and self._local_flag(n.stmt[1]):
                            s_ = (s[0], s[1], s[2], True)        # a test of a local whose value this interpretation lost: paths from here may be infeasible
                        nxt = ([(n.succ[0], s_)] if mt else []) + ([(n.succ[1], s_)] if mf else [])
                work.extend(nxt)
            outs = frozenset(outs)
            if outs == self.summ[key]:
                return outs
            self.summ[key] = self.summ[key] | outs


def check(rep, prog, rule='NULL.stream'):
    rep.rule(rule, 'no path of the event reader dereferences the input stream handle `fin` while it is null: abstract interpretation of '
             'the reader\'s methods over (fin null/non-null) x (terminated) with fixpoint summaries of the private methods, from the '
             'class invariant "fin non-null or terminated", which is itself checked to be inductive')
    it = _Interp(prog)
    need = ('load_next_event', '_check_next_event_', '_open_new_file_', '_close_current_file_', '_at_configure_')
    missing = [m for m in need if m not in it.flows]
    if missing:
        rep.cannot_decide(rule, 'bxdecay0/event_reader.cc', 'methods %s not found: the reader has another shape than the one this rule interprets' % missing)
        return 0
    entries = [('load_next_event', sorted(I_STATES)), ('_check_next_event_', [s for s in sorted(I_STATES) if s[1] == 0]),
               ('_at_configure_', [('N', 0)])]
    exits = {}
    for m, sts in entries:
        for s in sts:
            exits.setdefault(m, set()).update((o[0], o[1]) for o in it.run(m, s))
    for m, outs in sorted(exits.items()):
        bad = sorted(o for o in outs if o not in I_STATES)
        fn = it.flows[m][0]
        if bad:
            rep.cannot_decide(rule, where(fn), '%s can end with fin null and the reader not terminated (%s): the invariant the entry states '
                              'are taken from is not inductive' % (m, bad))
        else:
            rep.add(rule, 'invariant:' + m, where(fn), '%s started in {fin non-null or terminated} ends in it (exit states %s)' % (m, sorted(outs)), True)
    for (m, line, text), (fn, chain, s, imp) in sorted(it.errors.items()):
        if imp:
            rep.cannot_decide(rule, where(fn, line), '%s: a null stream reaches `%s` only through a test of a local variable whose value the '
                              'interpretation does not track: the path may be infeasible' % (m, text[:60]))
            continue
        rep.add(rule, 'deref:%s:%s' % (m, text[:40]), where(fn, line), '%s: `%s` is executed only with a non-null stream' % (m, text[:70]), False,
                ['reached with fin null, terminated=%s through %s' % (bool(s[1]), ' -> '.join('%s(fin %s, terminated=%s)' % (c[0], 'null' if c[1][0] == 'N' else 'open', bool(c[1][1])) for c in chain) or m),
                 'a method called on the way returned normally with the stream closed where the caller relies on "opened or thrown"'])
    ok_sites = sorted(it.nderef - {(m, l) for (m, l, t) in it.errors})
    for m, l in ok_sites:
        rep.add(rule, 'deref:%s:%d' % (m, len([x for x in ok_sites if x[0] == m and x[1] <= l])), where(it.flows[m][0], l),
                '%s: the stream dereference at line %d is reached only with a non-null stream (all abstract paths)' % (m, l), True)
    rep.analysed['stream dereference sites interpreted'] = len(it.nderef)
    return len(it.nderef)
