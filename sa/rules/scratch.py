"""SCRATCH.def-before-use: per-event working members of an event operation are assigned before they are read, in every call.

An event operation (`i_event_op::operator()`) is applied to one event after the other.  A data member that the per-event code
*writes* is working state of one call (a result slot, an index found on the way); configuration members are written by the setters
only.  If the per-event code reads such a member on a path where this call has not assigned it yet, the value is the one the
previous event left - the event then depends on history.  Forward must-definition analysis on the CFG of the per-event method with
the private helpers of the class expanded: every read of a member that the method assigns is dominated, on every path, by an
assignment made in the same call."""
import re

from .. import ir
from ..framework import where
from ..project import AnalysisBroken
from . import cppflow

_MEM = re.compile(r'\bthis\.(_\w+_|\w+)')


def check(rep, prog, qn, rule='SCRATCH.def-before-use'):
    rep.rule(rule, 'in the per-event method of an event operation every data member that the method itself assigns is assigned, on every '
             'path, before it is read in the same call: nothing computed for the previous event is consulted')
    fn = prog.fn(qn)
    try:
        F = cppflow.Flow(fn, helpers=cppflow.private_helpers(prog, fn))
    except AnalysisBroken:
        F = cppflow.Flow(fn)
    g = F.g

    def lhs_member(x):
        if x.kind == 'assign':
            t = ir.fmt(x.stmt[1])
            m = re.fullmatch(r'this\.(\w+)', t)
            if m:
                return m.group(1)
        return None
    written = {lhs_member(x) for x in g.nodes if x.stmt is not None} - {None}
    if not written:
        rep.add(rule, fn['name'], where(fn), '%s assigns no data member (nothing can be carried from one event to the next)' % fn['name'], True,
                nontrivial=False)
        return 0

    def reads(x):
        out = set()
        es = list(F.exprs(x))
        if x.kind == 'assign' and lhs_member(x):
            es = [x.stmt[2]]
        for e in es:
            for m in _MEM.findall(ir.fmt(e)):
                if m in written:
                    out.add(m)
        return out
    preds = g.preds()
    order = g.rpo()
    IN, OUT = {}, {}
    changed = True
    while changed:
        changed = False
        for i in order:
            x = g.nodes[i]
            ps = [OUT[p] for p in preds[i] if p in OUT]
            inn = set.intersection(*ps) if ps else set()
            d = lhs_member(x) if x.stmt is not None else None
            out = inn | ({d} if d else set())
            if IN.get(i) != inn or OUT.get(i) != out:
                IN[i], OUT[i] = inn, out
                changed = True
    n = 0
    bad = {}
    for i in order:
        x = g.nodes[i]
        if x.stmt is None:
            continue
        for m in sorted(reads(x)):
            n += 1
            if m not in IN.get(i, set()):
                bad.setdefault(m, []).append(x)
    for m in sorted(written):
        xs = bad.get(m, [])
        rep.add(rule, '%s:%s' % (fn['name'], m), where(fn, xs[0].line if xs else fn['l']),
                '%s: the working member `%s` is assigned in this call before every read of it' % (fn['name'], m), not xs,
                None if not xs else ['line %d reads `%s` (`%s`) on a path where this call has not assigned it: the value is the one the '
                                     'previous event left' % (xs[0].line, m, ir.fmt_stmt(xs[0].stmt)[:70])])
    return n
