"""VECTOR.index: every std::vector subscript with a non-literal index is justified by the provenance of the index.

Accepted justifications (enumerated from what the library does, one obligation per site):
  J1 counter     the index is the counter of `for (i = 0; i < X.size(); i++)` and the subscripted container is X (or a
                 container whose size is related to X's by the reviewed relation table)
  J2 found       the index is a local whose only definitions are -1 and such a counter (a search result); the use is
                 dominated by the `== -1 -> throw` guard; `index - 1` additionally sits under `index > 0`
  J3 last        the index is a local whose only definitions are -1 and `X.size() - 1` captured after an append; the use
                 is under `index >= 0`; X never shrinks between capture and use (no reset/clear call in the function)
  J4 member-of   the index is the loop variable over a set filled only with position counters of a range-for over X, or a
                 local defined only as -1 / an element of such a set, used under `index >= 0`
  J5 reviewed    explicit table below, one reason per site
A site is a *violation* when a recognised idiom is there without its guard (sentinel not excluded, unsigned sentinel, `i - 1`
without `> 0`, *begin() of a possibly empty set, a shrinking container, a counter read after its loop = size()); a site whose index
has none of the enumerated provenances is *undecided* (exit 2), not a violation: nothing is known about it.
Sites inside a branch whose condition is a local bool that is the constant false on every path are dead and skipped.
"""
from .. import astu
from ..framework import where
from ..project import AnalysisBroken
from . import statics
from .scopes import parent_map, Locals

# (function name, rendered subscript) -> reason
REVIEWED = {
    ('_open_new_file_', '_config_.event_files[new_file_index]'):
        'bounded by the reader typestate: _open_new_file_ throws when _terminated_, and _close_current_file_ sets _terminated_ exactly when '
        'current_file_index + 1 == event_files.size(); configure() refuses an empty list (C11 READER rules)',
    ('_load_tabulated_pdf_', '->_pimpl_->tab_prob.e_samples[0][index1]'):
        'input-derived index: obligation carried by C15 TAINT.sink (index1 = prob_index / n2 with prob_index < n1*n2 checked)',
    ('_load_tabulated_pdf_', '->_pimpl_->tab_prob.e_samples[1][index2]'):
        'input-derived index: obligation carried by C15 TAINT.sink (index2 = prob_index % n2)',
}
# container subscripted -> container whose size bounds the index, with the place that establishes size(sub) >= size(bound)
SIZE_RELATION = {
    ('energies', 'e1_cprobs'): 'loader refuses e1_cprobs.size() != nsamples = energies.size() (C15 BOUNDS e1_cprobs.size)',
    ('e2_cprobs', 'e1_cprobs'): 'loader refuses fewer than nsamples rows (C15 BOUNDS rows.count)',
    ('energies', 'e2_cprobs[]'): 'row k has nsamples - k <= nsamples entries (C15 BOUNDS row.size)',
}


def _leaf(e):
    """last member / variable name of a container expression; rows of a 2-D table are rendered name[]"""
    e = astu.strip_casts(e)
    if e['k'] == 'OpCall' and e.get('op') == '[]':
        return _leaf(e['args'][0]) + '[]'
    if e['k'] == 'Member':
        return e['name']
    if e['k'] == 'Ref':
        return e['name']
    if e['k'] == 'MCall':
        return e['callee']['qn'].split('::')[-1] + '()'
    return astu.src(e)


def _deref(e, L):
    """follow local references (`const std::vector<double> & row = table[i]`) to the container expression"""
    e = astu.strip_casts(e)
    seen = 0
    while e['k'] == 'Ref' and e.get('dk') == 'local' and seen < 4:
        v = L.decl.get(e['id'])
        if v is None or 'init' not in v or '&' not in v.get('ty', ''):
            break
        e = astu.strip_casts(v['init'])
        seen += 1
    return e


def _same_container(a, b, L):
    a, b = _deref(a, L), _deref(b, L)
    sa, sb = astu.src(a), astu.src(b)
    norm = lambda s: s.replace('grab_particles()', 'P()').replace('get_particles()', 'P()')
    return norm(sa) == norm(sb)


def _guards(pm, node):
    """[(condition node, in-then?)] of the enclosing ifs, innermost first"""
    out = []
    x = node
    while id(x) in pm:
        par = pm[id(x)]
        if par['k'] == 'If' and x is not par.get('c'):
            out.append((par['c'], x is par.get('t')))
        x = par
    return out


def _conj(c):
    c = astu.strip_casts(c)
    if c['k'] == 'Paren':
        return _conj(c['e'])
    if c['k'] == 'Bin' and c['op'] == '&&':
        return _conj(c['a']) + _conj(c['b'])
    return [c]


def _under(pm, node, var, op, lit):
    """node sits in the then-arm of an if one of whose conjuncts is `var op lit`"""
    for c, then in _guards(pm, node):
        if not then:
            continue
        for t in _conj(c):
            t = astu.strip_casts(t)
            if t['k'] == 'Bin' and t['op'] == op and astu.src(astu.strip_casts(t['a'])) == var and astu.num_value(astu.strip_casts(t['b'])) == lit:
                return True
    return False


def _throw_guard_before(fn, pm, node, var):
    """an earlier top-level `if (var == -1) throw` in an enclosing block"""
    x = node
    while id(x) in pm:
        par = pm[id(x)]
        if par['k'] == 'Compound':
            for s in par['s']:
                if s is x:
                    break
                if s['k'] == 'If' and any(t['k'] == 'Bin' and t['op'] == '==' and astu.src(astu.strip_casts(t['a'])) == var and
                                          astu.num_value(astu.strip_casts(t['b'])) == -1 for t in _conj(s['c'])) and \
                        any(y['k'] == 'Throw' for y in astu.walk(s['t'])) and s.get('e') is None:
                    return True
        x = par
    return False


def _dead(pm, node, L):
    """inside `if (flag)` where flag is a local bool whose last assignment before the test is the literal false and no
    assignment to it follows anywhere"""
    for c, then in _guards(pm, node):
        c = astu.strip_casts(c)
        if then and c['k'] == 'Ref' and c.get('dk') == 'local':
            v = L.decl.get(c['id'])
            asg = L.assigns.get(c['id'], [])
            vals = ([v['init']] if v is not None and 'init' in v else []) + [a['b'] for a in asg]
            if vals and astu.src(astu.strip_casts(vals[-1])) == 'false' and all(a.get('l', 0) < c.get('l', 0) for a in asg):
                return True
    return False


def _counter_loop(pm, site, idx, L):
    """the enclosing for-loop whose counter is idx: returns the container expression of its bound, or None"""
    x = site
    while id(x) in pm:
        par = pm[id(x)]
        if par['k'] == 'For' and par.get('init') is not None and par['init']['k'] == 'Decl' and par['init']['vars'][0]['id'] == idx['id']:
            v = par['init']['vars'][0]
            c = astu.strip_casts(par['c'])
            inc = par.get('inc')
            ok = _nonneg_start(v) and c['k'] == 'Bin' and c['op'] == '<' and astu.strip_casts(c['a']).get('id') == idx['id'] \
                and inc is not None and inc['k'] == 'Un' and inc['op'] == '++' and \
                not any(r.get('id') == idx['id'] for r, how, n in statics.written_refs(par['body']))
            if not ok:
                return None
            b = astu.strip_casts(c['b'])
            if b['k'] == 'Ref' and b.get('dk') == 'local':
                # `const auto n = X.size(); for (i = 0; i < n; ...)`: the bound hoisted into a local that is never reassigned
                bv = L.decl.get(b['id'])
                if bv is not None and 'init' in bv and not L.assigns.get(b['id']) and \
                        not any(r.get('id') == b['id'] for r, how, n in statics.written_refs(par['body'])):
                    b = astu.strip_casts(bv['init'])
            if b['k'] == 'MCall' and b['callee']['qn'].endswith('::size'):
                return b['obj']
            return None
        x = par
    return None


def _nonneg_start(v):
    """the counter starts at a value >= 0: literal >= 0, an unsigned counter, or max(x, 0)"""
    i = astu.strip_casts(v.get('init')) if v.get('init') is not None else None
    if i is None:
        return False
    val = astu.num_value(i)
    if val is not None:
        return val >= 0
    ty = v.get('ty', '')
    if 'unsigned' in ty or 'size_t' in ty or 'size_type' in ty:
        return True
    if i['k'] == 'Call' and i['callee']['qn'] in ('std::max', 'max') and any(astu.num_value(astu.strip_casts(a)) is not None and
                                                                            astu.num_value(astu.strip_casts(a)) >= 0 for a in i['args']):
        return True
    return False


def _position_counter_sets(fn, L, pm):
    """{set variable id: container expr} for std::set<int> locals filled only by insert(counter) inside a range-for over the
    container, the counter starting at 0 and incremented once at the end of each iteration"""
    out = {}
    for n in astu.walk(fn['body']):
        if n['k'] == 'MCall' and n['callee']['qn'].endswith('::insert') and n['obj']['k'] == 'Ref' and 'std::set' in n['callee']['qn']:
            sid = n['obj']['id']
            arg = astu.strip_casts(n['args'][0])
            loop = None
            x = n
            while id(x) in pm:
                x = pm[id(x)]
                if x['k'] == 'ForRange':
                    loop = x
                    break
            ok = False
            if loop is not None and arg['k'] == 'Ref' and arg.get('dk') == 'local':
                v = L.decl.get(arg['id'])
                top = loop['body']['s'] if loop['body']['k'] == 'Compound' else [loop['body']]
                incs = [s for s in top if s['k'] == 'Expr' and s['e']['k'] == 'Un' and s['e']['op'] == '++' and
                        astu.strip_casts(s['e']['e']).get('id') == arg['id']]
                allw = [w for r, how, w in statics.written_refs(fn['body']) if r.get('id') == arg['id']]
                ok = v is not None and astu.num_value(v.get('init')) == 0 and len(incs) == 1 and top[-1] is incs[0] and len(allw) == 1 and \
                    not any(y['k'] == 'Continue' for y in astu.walk(loop['body'])) and v.get('l', 0) < loop.get('l', 0)
            if ok and out.get(sid, loop['range']) is not None:
                out[sid] = loop['range']
            else:
                out[sid] = None
    # any other mutator of the set invalidates it
    for n in astu.walk(fn['body']):
        if n['k'] == 'MCall' and n['obj']['k'] == 'Ref' and n['obj'].get('id') in out and not n['callee'].get('const') and \
                not n['callee']['qn'].endswith('::insert'):
            out[n['obj']['id']] = None
    return {k: v for k, v in out.items() if v is not None}


def check(rep, prog, keys):
    rep.rule('VECTOR.index', 'every std::vector subscript with a non-literal index has an index whose provenance bounds it by the size of the '
             'subscripted container (loop counter over its size; guarded search result; size()-1 captured after an append; member of a set of '
             'positions; or a reviewed site)')
    nsites = 0
    _PROG[0] = prog
    for key in sorted(keys):
        fn = prog.functions[key]
        sites = [n for n in astu.walk(fn['body']) if n['k'] == 'OpCall' and n.get('op') == '[]' and 'std::vector' in n['callee'].get('qn', '')
                 and astu.num_value(astu.strip_casts(n['args'][1])) is None]
        if not sites:
            continue
        L = Locals(fn)
        pm = parent_map(fn['body'])
        possets = _position_counter_sets(fn, L, pm)
        shrink = [c for c in astu.calls(fn['body']) if c['callee']['qn'].split('::')[-1] in ('reset', 'clear', 'pop_back', 'erase', 'resize')
                  and c['k'] == 'MCall']
        for s in sites:
            nsites += 1
            text = astu.src(s)
            w = where(fn, s.get('l'))
            keyname = '%s:%s@%s' % (fn['name'], text.replace('->_pimpl_->tab_prob.', '').replace('event_.grab_particles()', 'particles'), s.get('l'))
            if (fn['name'], text) in REVIEWED:
                rep.add('VECTOR.index', keyname, w, 'reviewed: ' + REVIEWED[(fn['name'], text)], True, nontrivial=False)
                continue
            if _dead(pm, s, L):
                rep.add('VECTOR.index', keyname, w, 'dead: under a local flag that is the constant false', True, nontrivial=False)
                continue
            cont = s['args'][0]
            idx = astu.strip_casts(s['args'][1])
            off = 0
            if idx['k'] == 'Bin' and idx['op'] == '-' and astu.num_value(astu.strip_casts(idx['b'])) == 1:
                idx, off = astu.strip_casts(idx['a']), -1
            if idx['k'] == 'Ref' and idx.get('dk') == 'param':
                # the bound is the caller's obligation: not decidable inside this function
                rep.cannot_decide('VECTOR.index', w, '%s is subscripted by the parameter %s of %s; the bound must come from the call sites, '
                                  'which this intraprocedural rule does not follow' % (text, idx['name'], fn['name']))
                continue
            if idx['k'] != 'Ref' or idx.get('dk') != 'local':
                rep.cannot_decide('VECTOR.index', w, '%s: index %s is not a local with a recognised provenance' % (text, astu.src(idx)))
                continue
            name = idx['name']
            ok, why = _justify(fn, L, pm, s, cont, idx, off, possets, shrink)
            if ok is None:
                # the provenance is none of the enumerated idioms: nothing is concluded (neither safe nor unsafe)
                rep.cannot_decide('VECTOR.index', w, '%s: %s' % (text, why))
                continue
            rep.add('VECTOR.index', keyname, w, '%s: %s' % (text, why), ok)
    return nsites


def _bounded_by(cont, bound, L):
    """container `cont` may be subscripted by an index valid for `bound`"""
    if _same_container(cont, bound, L):
        return 'same container'
    a, b = _leaf(_deref(cont, L)), _leaf(_deref(bound, L))
    r = SIZE_RELATION.get((a, b))
    return ('size(%s) >= size(%s): %s' % (a, b, r)) if r else None


def _past_the_end(fn, L, pm, asg, d, cont):
    """`idx = c` taken *after* a range-for over the subscripted container in which c (starting at 0) is incremented once per
    iteration: c equals the container's size there, so `container[idx]` is one past the end.  Returns the explanation or None."""
    if asg is None:
        return None
    v = L.decl.get(d['id'])
    if v is None or astu.num_value(v.get('init')) != 0:
        return None
    for loop in astu.walk(fn['body']):
        if loop['k'] != 'ForRange':
            continue
        top = loop['body']['s'] if loop['body']['k'] == 'Compound' else [loop['body']]
        incs = [s_ for s_ in top if s_['k'] == 'Expr' and s_['e']['k'] == 'Un' and s_['e']['op'] == '++' and
                astu.strip_casts(s_['e']['e']).get('id') == d['id']]
        if len(incs) != 1 or top[-1] is not incs[0]:
            continue
        if any(y['k'] in ('Continue', 'Break') for y in astu.walk(loop['body'])):
            continue
        allw = [w_ for r_, how, w_ in statics.written_refs(fn['body']) if r_.get('id') == d['id']]
        inside = any(x is asg for x in astu.walk(loop))
        if len(allw) == 1 and not inside and asg.get('l', 0) > loop.get('le', loop.get('l', 0)) and _same_container(cont, loop['range'], L):
            return ('index is assigned from %s after the loop over %s that increments it once per element: it equals %s.size(), '
                    'one past the last element' % (d['name'], astu.src(loop['range']), astu.src(loop['range'])))
    return None


def _justify(fn, L, pm, site, cont, idx, off, possets, shrink):
    name = idx['name']
    v = L.decl.get(idx['id'])
    # J1: enclosing for-loop counter
    bound = _counter_loop(pm, site, idx, L)
    if bound is not None:
        if off != 0:
            return False, 'counter %s used with offset %d' % (name, off)
        rel = _bounded_by(cont, bound, L)
        return (True if rel is not None else None), 'J1 counter of `for (%s = 0; %s < %s.size(); ++)`; %s' % (name, name, astu.src(bound), rel or 'the loop bound is the size of another container')
    # J4: range-for variable over a set of positions
    if v is not None and v.get('forrange') is not None:
        rng = astu.strip_casts(v['forrange']['range'])
        if rng['k'] == 'Ref' and rng.get('id') in possets and off == 0:
            rel = _bounded_by(cont, possets[rng['id']], L)
            return (True if rel is not None else None), 'J4 element of the set %s of positions in %s; %s' % (rng['name'], astu.src(possets[rng['id']]), rel)
        return None, 'range-for variable over %s, which is not a set of positions of the container' % astu.src(rng)
    if v is None:
        return None, 'index %s has no visible declaration' % name
    defs = ([v['init']] if 'init' in v else []) + [a['b'] for a in L.assigns.get(idx['id'], []) if a['op'] == '=']
    if any(a['op'] != '=' for a in L.assigns.get(idx['id'], [])) or \
            any(how != 'assigned' for r, how, n in statics.written_refs(fn['body']) if r.get('id') == idx['id']):
        return None, 'index %s is modified other than by plain assignment' % name
    kinds = set()
    bound_c = None
    for d in defs:
        d = astu.strip_casts(d)
        if astu.num_value(d) == -1:
            kinds.add('sentinel')
        elif d['k'] == 'Ref' and d.get('dk') == 'local':
            # search result: the right-hand side is a loop counter, assigned inside its loop
            asg = [a for a in L.assigns.get(idx['id'], []) if astu.strip_casts(a['b']) is d]
            b = _counter_loop(pm, asg[0], d, L) if asg else None
            if b is None:
                # copy of another captured index, taken under `other >= 0`
                cb = _captured_bound(fn, L, d)
                if cb is not None and asg and _under(pm, asg[0], d['name'], '>=', 0):
                    kinds.add('last')
                    if bound_c is not None and not _same_container(bound_c, cb, L):
                        return None, 'index %s mixes positions of different containers' % name
                    bound_c = cb
                    continue
                past = _past_the_end(fn, L, pm, asg[0] if asg else None, d, cont)
                if past:
                    return False, past
                return None, 'index %s is assigned from %s outside a `for (%s = 0; %s < X.size(); ++)` loop' % (name, d['name'], d['name'], d['name'])
            kinds.add('found')
            bound_c = b
        elif d['k'] == 'Bin' and d['op'] == '-' and astu.num_value(astu.strip_casts(d['b'])) == 1 and \
                astu.strip_casts(d['a'])['k'] == 'MCall' and astu.strip_casts(d['a'])['callee']['qn'].endswith('::size'):
            kinds.add('last')
            bound_c = astu.strip_casts(d['a'])['obj']
        elif d['k'] == 'OpCall' and d.get('op') == '*' and astu.strip_casts(d['args'][0])['k'] == 'MCall' and \
                astu.strip_casts(d['args'][0])['callee']['qn'].endswith('::begin') and \
                astu.strip_casts(d['args'][0])['obj'].get('id') in possets:
            # *S.begin(): needs S non-empty -> guarded by a size test at the assignment
            a = [x for x in L.assigns.get(idx['id'], []) if astu.strip_casts(x['b']) is d]
            sname = astu.strip_casts(d['args'][0])['obj']['name']
            nonempty = a and any(then and ('size' in astu.src(c) or 'empty' in astu.src(c)) for c, then in _guards(pm, a[0])) or \
                a and any(then and any(_size_alias(t, sname, L) for t in _conj(c)) for c, then in _guards(pm, a[0]))
            if not nonempty:
                return False, '*%s.begin() is taken without a non-empty test' % sname
            kinds.add('member')
            bound_c = possets[astu.strip_casts(d['args'][0])['obj']['id']]
        elif d['k'] == 'Call' and d['callee'].get('project') and _PROG[0] is not None:
            cb = _returns_last_index(_PROG[0], d)
            if cb is None:
                cb = _returns_found_index(_PROG[0], d)
                if cb is not None:
                    kinds.update(('found', 'sentinel'))
                    bound_c = cb
                    continue
            if cb is None:
                return None, 'index %s is defined by %s(), which does not return -1 or `size() - 1` of a container passed to it' % (name, d['callee']['qn'].split('::')[-1])
            kinds.update(('last', 'sentinel'))
            bound_c = cb
        else:
            return None, 'index %s is defined as %s' % (name, astu.src(d))
    if 'sentinel' not in kinds and len(defs) != 1:
        return None, 'index %s has several definitions and no sentinel' % name
    rel = _bounded_by(cont, bound_c, L) if bound_c is not None else None
    if rel is None:
        return None, 'index %s ranges over %s, which does not bound this container' % (name, astu.src(bound_c) if bound_c else '?')
    if 'sentinel' in kinds:
        ty = v.get('ty', '')
        unsigned = any(w in ty for w in ('unsigned', 'size_t', 'size_type', 'uint'))
        if unsigned and not _throw_guard_before(fn, pm, site, name) and not _definitely_assigned_before(pm, site, idx):
            return False, ('index %s is declared `%s`: the sentinel -1 wraps to the largest value and a `>= 0` / `> 0` guard is '
                           'always true, so the subscript is reached with the sentinel' % (name, ty))
        if off == 0:
            guarded = _under(pm, site, name, '>=', 0) or _throw_guard_before(fn, pm, site, name) or _under(pm, site, name, '>', 0) or \
                _definitely_assigned_before(pm, site, idx)
        else:
            guarded = _under(pm, site, name, '>', 0)
        if not guarded:
            return False, 'index %s may still be the sentinel -1 here (no `%s` guard)' % (name, '>= 0 / == -1 throw' if off == 0 else '> 0')
    elif off != 0:
        return False, 'index %s - 1 without a `> 0` guard' % name
    if 'last' in kinds and shrink:
        bad = [c for c in shrink if _same_container(c['obj'], bound_c, L) or 'event' in astu.src(c['obj'])]
        if bad:
            return False, 'the container may shrink (%s at line %s) between the capture of size()-1 and the use' % (bad[0]['callee']['qn'].split('::')[-1], bad[0].get('l'))
    tag = 'J2 search result' if 'found' in kinds else ('J3 size()-1 after an append' if 'last' in kinds else 'J4 member of a position set')
    return True, '%s, sentinel excluded by a guard; %s' % (tag, rel)


_PROG = [None]


def _returns_last_index(prog, call):
    """the callee returns only -1 or `P.get_particles().size() - 1` (directly or through a local so defined) where P is one of its
    reference parameters: -> the caller's container expression (argument.get_particles()), else None"""
    fs = [f for f in prog.fns(call['callee']['qn']) if len(f['params']) == len(call['args'])]
    if len(fs) != 1:
        return None
    f = fs[0]
    Lc = Locals(f)
    owner = None
    for n in astu.walk(f['body']):
        if n['k'] != 'Return' or n.get('e') is None:
            continue
        e = astu.strip_casts(n['e'])
        cands = [e]
        if e['k'] == 'Ref' and e.get('dk') == 'local':
            v = Lc.decl.get(e['id'])
            if v is None or any(a['op'] != '=' for a in Lc.assigns.get(e['id'], [])):
                return None
            cands = ([v['init']] if 'init' in v else []) + [a['b'] for a in Lc.assigns.get(e['id'], [])]
        for c in cands:
            c = astu.strip_casts(c)
            if astu.num_value(c) == -1:
                continue
            if c['k'] == 'Bin' and c['op'] == '-' and astu.num_value(astu.strip_casts(c['b'])) == 1:
                a = astu.strip_casts(c['a'])
                if a['k'] == 'MCall' and a['callee']['qn'].endswith('::size'):
                    o = astu.strip_casts(a['obj'])
                    if o['k'] == 'MCall' and o['callee']['qn'].endswith(('::get_particles', '::grab_particles')) and \
                            astu.strip_casts(o['obj'])['k'] == 'Ref' and astu.strip_casts(o['obj']).get('dk') == 'param':
                        pn = astu.strip_casts(o['obj'])['name']
                        if owner not in (None, pn):
                            return None
                        owner = pn
                        continue
            return None
    if owner is None:
        return None
    # the callee must not shrink the container
    if any(c['callee']['qn'].split('::')[-1] in ('reset', 'clear', 'pop_back', 'erase', 'resize') for c in astu.calls(f['body']) if c['k'] == 'MCall'):
        return None
    idx = [i for i, p_ in enumerate(f['params']) if p_['name'] == owner]
    arg = astu.strip_casts(call['args'][idx[0]])
    return {'k': 'MCall', 'callee': {'qn': 'bxdecay0::event::get_particles'}, 'obj': arg, 'args': []}


def _returns_found_index(prog, call):
    """the callee returns only -1 or the counter of `for (i = 0; i < V.size(); i++)` over one of its container parameters V (a search
    result): -> the caller's argument bound to V, else None"""
    fs = [f for f in prog.fns(call['callee']['qn']) if len(f['params']) == len(call['args'])]
    if len(fs) != 1:
        return None
    f = fs[0]
    Lc = Locals(f)
    pmc = parent_map(f['body'])
    owner = None
    nret = 0
    for n in astu.walk(f['body']):
        if n['k'] != 'Return' or n.get('e') is None:
            continue
        nret += 1
        e = astu.strip_casts(n['e'])
        cands = [(e, n)]
        if e['k'] == 'Ref' and e.get('dk') == 'local' and _counter_loop(pmc, n, e, Lc) is None:
            v = Lc.decl.get(e['id'])
            if v is None or any(a['op'] != '=' for a in Lc.assigns.get(e['id'], [])):
                return None
            cands = ([(v['init'], n)] if 'init' in v else []) + [(a['b'], a) for a in Lc.assigns.get(e['id'], [])]
        for c, at in cands:
            c = astu.strip_casts(c)
            if astu.num_value(c) == -1:
                continue
            if c['k'] == 'Ref' and c.get('dk') == 'local':
                b = _counter_loop(pmc, at, c, Lc)
                if b is not None:
                    b = astu.strip_casts(b)
                    if b['k'] == 'Ref' and b.get('dk') == 'param':
                        if owner not in (None, b['name']):
                            return None
                        owner = b['name']
                        continue
            return None
    if owner is None or nret == 0:
        return None
    idx = [i for i, p_ in enumerate(f['params']) if p_['name'] == owner]
    return call['args'][idx[0]]


def _captured_bound(fn, L, ref):
    """container X when the local `ref` is defined only as -1 or X.size() - 1"""
    v = L.decl.get(ref['id'])
    if v is None:
        return None
    defs = ([v['init']] if 'init' in v else []) + [a['b'] for a in L.assigns.get(ref['id'], [])]
    if any(a['op'] != '=' for a in L.assigns.get(ref['id'], [])):
        return None
    cont = None
    for d in defs:
        d = astu.strip_casts(d)
        if astu.num_value(d) == -1:
            continue
        if d['k'] == 'Bin' and d['op'] == '-' and astu.num_value(astu.strip_casts(d['b'])) == 1 and \
                astu.strip_casts(d['a'])['k'] == 'MCall' and astu.strip_casts(d['a'])['callee']['qn'].endswith('::size'):
            c = astu.strip_casts(d['a'])['obj']
            if cont is not None and not _same_container(cont, c, L):
                return None
            cont = c
        else:
            return None
    return cont


def _definitely_assigned_before(pm, site, idx):
    """an earlier statement of an enclosing block is an if / else-if chain with a final else in which every arm either
    assigns the index (non-sentinel) or leaves the function"""
    x = site
    while id(x) in pm:
        par = pm[id(x)]
        if par['k'] == 'Compound':
            for s in par['s']:
                if s is x:
                    break
                if s['k'] == 'If' and s.get('e') is not None:
                    arms = []
                    y = s
                    while y is not None and y['k'] == 'If':
                        arms.append(y['t'])
                        y = y.get('e')
                    if y is None:
                        continue
                    arms.append(y)
                    ok = True
                    for a in arms:
                        top = a['s'] if a['k'] == 'Compound' else [a]
                        assigns = any(t['k'] == 'Expr' and t['e']['k'] == 'Bin' and t['e']['op'] == '=' and
                                      astu.strip_casts(t['e']['a']).get('id') == idx['id'] and astu.num_value(astu.strip_casts(t['e']['b'])) != -1
                                      for t in top)
                        leaves = bool(top) and top[-1]['k'] in ('Return', 'Throw') or (bool(top) and top[-1]['k'] == 'Expr' and top[-1]['e']['k'] == 'Throw')
                        if not (assigns or leaves):
                            ok = False
                    if ok:
                        return True
        x = par
    return False


def _size_alias(t, sname, L):
    """`n == 1` / `n > 0` where n is a local initialised from S.size()"""
    t = astu.strip_casts(t)
    if t['k'] != 'Bin' or t['op'] not in ('==', '>', '>=', '!='):
        return False
    a = astu.strip_casts(t['a'])
    lit = astu.num_value(astu.strip_casts(t['b']))
    if a['k'] == 'Ref' and a.get('dk') == 'local' and lit is not None:
        v = L.decl.get(a['id'])
        if v is not None and 'init' in v and astu.src(astu.strip_casts(v['init'])) == sname + '.size()' and not L.assigns.get(a['id']):
            return (t['op'] == '==' and lit >= 1) or (t['op'] == '>' and lit >= 0) or (t['op'] == '>=' and lit >= 1)
    return False
