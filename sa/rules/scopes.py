"""AST scoping helpers: parent links, local declarations and the assignments to each local (by declaration id)."""
from .. import astu
from . import statics


def parent_map(root):
    pm = {}
    st = [root]
    while st:
        x = st.pop()
        for c in astu.children(x):
            pm[id(c)] = x
            st.append(c)
        # ForRange 'var' is a plain dict without 'k'
        if x.get('k') == 'ForRange' and isinstance(x.get('var'), dict) and 'init' in x['var']:
            pm[id(x['var']['init'])] = x
            st.append(x['var']['init'])
        if x.get('k') == 'Decl':
            for v in x['vars']:
                if 'init' in v:
                    pm[id(v['init'])] = x
                    st.append(v['init'])
    return pm


class Locals:
    def __init__(self, fn):
        self.fn = fn
        self.decl = {}
        self.assigns = {}
        for n in astu.walk(fn['body']):
            if n['k'] == 'Decl':
                for v in n['vars']:
                    self.decl[v['id']] = v
            elif n['k'] == 'ForRange' and isinstance(n.get('var'), dict):
                self.decl[n['var']['id']] = dict(n['var'], forrange=n)
            elif n['k'] == 'Bin' and n['op'] in statics.ASSIGN_OPS:
                r = statics.root_ref(n['a'])
                if r is not None:
                    self.assigns.setdefault(r['id'], []).append(n)
