"""Insertion chains (`s << a << b`) of a function, by the identity of the stream object, and the flow of text between
streams (`file << buffer.str()`).  Used by C13 (companion file)."""
from .. import astu

MANIP = ('std::endl', 'std::flush', 'std::ends')
LOG_STREAMS = ('std::clog', 'std::cerr', 'std::cout')


def _flatten(e):
    if e['k'] == 'OpCall' and e.get('op') == '<<' and len(e.get('args', [])) == 2:
        return _flatten(e['args'][0]) + [e['args'][1]]
    return [e]


def root_of(e):
    """the stream object an insertion chain starts from: ('local'|'global'|'field'|..., id or qualified name, display name)"""
    e = astu.strip_casts(e)
    while e['k'] in ('Paren',):
        e = astu.strip_casts(e['e'])
    if e['k'] == 'Ref':
        return (e.get('dk'), e.get('id') or e.get('qn'), e.get('qn') if e.get('dk') == 'global' else e.get('name'), e.get('ty', ''))
    if e['k'] == 'Member':
        return ('field', astu.src(e), astu.src(e), e.get('ty', ''))
    return (None, astu.src(e), astu.src(e), '')


def chains(fn):
    """every outermost `<<` chain whose left end is a stream: [dict(root=(dk, id, name, ty), ops=[operand nodes], l=line, node)]"""
    out = []
    inner = set()
    for e in astu.walk(fn['body']):
        if e['k'] == 'OpCall' and e.get('op') == '<<' and id(e) not in inner:
            ops = _flatten(e)
            x = e
            while x['k'] == 'OpCall' and x.get('op') == '<<' and len(x.get('args', [])) == 2:
                inner.add(id(x['args'][0]))
                x = x['args'][0]
            r = root_of(ops[0])
            if 'stream' not in r[3] and r[2] not in LOG_STREAMS:
                continue            # integer shift
            out.append(dict(root=r, ops=ops[1:], l=e.get('l'), node=e))
    return out


def is_manip(o):
    o = astu.strip_casts(o)
    return (o['k'] == 'Call' and o.get('callee', {}).get('qn') in MANIP) or (o['k'] == 'Ref' and o.get('qn', '') in MANIP) or \
        o['k'] in ('Str', 'Chr')


def setprecision_of(o):
    o = astu.strip_casts(o)
    if o['k'] == 'Call' and o.get('callee', {}).get('qn') == 'std::setprecision' and o.get('args'):
        return astu.num_value(astu.strip_casts(o['args'][0]))
    return None


def str_source(o):
    """`buf.str()` -> root of buf"""
    o = astu.strip_casts(o)
    while o['k'] in ('Temp', 'Bind', 'Materialize', 'ExprWithCleanups', 'Paren'):
        o = astu.strip_casts(o['e'])
    if o['k'] == 'MCall' and o['callee']['qn'].endswith('::str') and not o.get('args'):
        return root_of(o['obj'])
    return None


def precision_calls(fn):
    """[(root, N, line, node)] for `s.precision(N)`"""
    out = []
    for c in astu.calls(fn['body']):
        if c['k'] == 'MCall' and c['callee']['qn'].endswith('::precision') and len(c.get('args', [])) == 1:
            out.append((root_of(c['obj']), astu.num_value(astu.strip_casts(c['args'][0])), c.get('l'), c))
    return out


def is_floating(o):
    o = astu.strip_casts(o)
    t = (o.get('ty') or '').replace('const ', '').replace('&', '').strip()
    return t in ('double', 'float', 'long double')
