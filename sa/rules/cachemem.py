"""CACHE.invalidate: a lazily filled (`mutable`) data member is dropped by every function that changes what it was computed from.

A `mutable` member is by construction a cache: it is filled by a const accessor from other members of the object.  If a setter
changes one of those source members and leaves the cache alone, the object goes on answering from the old configuration - only
when the accessor happened to run between two configuration steps (a dump, a getter, a validity test), which no straight-line
test does.  For every mutable data member M of a library class: F = the methods that assign M; S = the data members F reads
(through the same-class methods F calls); every method that assigns a member of S (directly or through same-class methods it
calls) must also assign M.  Synchronisation objects (mutexes, once-flags) are not caches."""
from .. import astu
from ..framework import where

_SYNC = ('mutex', 'once_flag', 'atomic', 'condition_variable')


def _this_members(n, write):
    """names of data members of *this read (write=False) or assigned (write=True) in the subtree"""
    out = set()
    for x in astu.walk(n):
        tgt = None
        if x['k'] == 'Bin' and x['op'].endswith('=') and x['op'] not in ('==', '!=', '<=', '>='):
            tgt = x['a']
        elif x['k'] == 'OpCall' and x.get('op', '').endswith('=') and x['op'] not in ('==', '!=', '<=', '>=') and x.get('args'):
            tgt = x['args'][0]
        elif x['k'] == 'Un' and x.get('op') in ('++', '--'):
            tgt = x['e']
        elif x['k'] == 'MCall' and astu.callee(x).split('::')[-1] in ('clear', 'assign', 'reset', 'swap', 'erase', 'insert', 'push_back',
                                                                      'emplace_back', 'resize', 'append'):
            tgt = x.get('obj')
        if write:
            r = astu.root_of(astu.strip_casts(tgt)) if tgt is not None else None
            if r is None and tgt is not None:
                t = astu.strip_casts(tgt)
                r = t if (t.get('k') == 'Member' and t.get('dk') == 'field') else None
            if r is not None and r.get('base', {}).get('k') == 'This':
                out.add(r['name'])
        else:
            if x['k'] == 'Member' and x.get('dk') == 'field' and x.get('base', {}).get('k') == 'This':
                out.add(x['name'])
    return out


def check(rep, prog, rule='CACHE.invalidate'):
    rep.rule(rule, 'for every `mutable` data member M of a library class (a lazily filled cache): every method that assigns one of the '
             'members M is computed from - directly or through same-class methods - also assigns or clears M; otherwise the object keeps '
             'answering from the configuration it had when the cache was filled')
    ncache = 0
    for cqn, r in sorted(prog.records.items()):
        if '/bxdecay0/' not in r.get('file', '') and '/programs/' not in r.get('file', ''):
            continue
        muts = [f for f in r['fields'] if f.get('mutable') and not any(s in f['ty'] for s in _SYNC)]
        if not muts:
            continue
        methods = {k: f for k, f in prog.functions.items() if f.get('cls') == cqn and f.get('body')}
        byname = {}
        for k, f in methods.items():
            byname.setdefault(f['qn'], []).append(f)

        def closure(f, write, seen=None):
            seen = seen if seen is not None else set()
            if id(f) in seen:
                return set()
            seen.add(id(f))
            out = _this_members(f['body'], write)
            for c in astu.calls(f['body']):
                for g in byname.get(astu.callee(c), []):
                    if c['k'] == 'MCall' and astu.strip_casts(c.get('obj') or {}).get('k') not in ('This', None):
                        continue
                    out |= closure(g, write, seen)
            return out
        for m in muts:
            M = m['name']
            fills = [f for f in methods.values() if M in _this_members(f['body'], True) and not f.get('ctor')
                     and (_this_members(f['body'], False) - {M})]
            fills = [f for f in fills if any(x['k'] in ('Bin', 'OpCall') and M in _this_members(x, True) and
                                             (closure_reads(x, byname) - {M}) for x in astu.walk(f['body']))] or fills
            srcs = set()
            for f in fills:
                srcs |= closure(f, False)
            srcs -= {M}
            srcs = {s for s in srcs if not any(fl['name'] == s and fl.get('mutable') for fl in r['fields'])}
            ncache += 1
            if not fills or not srcs:
                rep.add(rule, '%s::%s' % (cqn, M), where({'file': r['file'], 'l': m['l']}),
                        '%s::%s is mutable but is not computed from other members' % (cqn, M), True, nontrivial=False)
                continue
            for f in sorted(methods.values(), key=lambda f_: f_['l']):
                if f in fills or f.get('ctor') or f.get('dtor'):
                    continue
                w_direct = _this_members(f['body'], True)
                if not (w_direct & srcs):
                    continue
                w_all = closure(f, True)
                ok = M in w_all
                rep.add(rule, '%s::%s:%s' % (cqn, M, f['name']), where(f),
                        '%s writes %s, from which the cache `%s` is computed (by %s), and drops the cache' %
                        (f['qn'], sorted(w_direct & srcs), M, ', '.join(sorted(g['name'] for g in fills))), ok,
                        None if ok else ['`%s` is filled once from %s and kept: after %s() the object still answers with the value '
                                         'computed from the old %s' % (M, sorted(srcs)[:6], f['name'], sorted(w_direct & srcs))])
    rep.analysed['mutable (cache) data members'] = ncache
    return ncache


def closure_reads(x, byname):
    out = _this_members(x, False)
    for c in astu.calls(x):
        for g in byname.get(astu.callee(c), []):
            out |= _this_members(g['body'], False)
    return out
