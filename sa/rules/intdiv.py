"""INTDIV.truncation: an integer / integer division whose value is converted to floating point.

`double El = levelE / 1000;` truncates to whole units before the conversion; the reference (and the intent) divide in floating point.
The rule expects zero instances: every int/int division of the library today feeds an integer (4 sites: bisection midpoints, a row
index, a panel count).  Positive controls: seeded/r3C06 and seeded/r3C08."""
from .. import astu, cpp2ir
from ..framework import where
from .scopes import parent_map

FLOAT = ('double', 'float', 'long double', 'const double', 'const float')


def check(rep, prog, keys, rule='INTDIV.truncation'):
    rep.rule(rule, 'no integer/integer division has its (truncated) quotient converted to floating point')
    n = 0
    bad = 0
    for key in sorted(keys):
        fn = prog.functions[key]
        pm = None
        for x in astu.walk(fn['body']):
            if x['k'] == 'Bin' and x['op'] == '/' and cpp2ir._int_valued(x['a']) and cpp2ir._int_valued(x['b']):
                n += 1
                pm = pm or parent_map(fn['body'])
                p = pm.get(id(x))
                while p is not None and p['k'] == 'Paren':
                    x, p = p, pm.get(id(p))
                floating = p is not None and ((p['k'] == 'Cast' and str(p.get('ty', '')).replace('const ', '').strip() in ('double', 'float', 'long double'))
                                              or (p['k'] == 'Decl' and any(v.get('init') is x and str(v.get('ty', '')).replace('const ', '').strip() in
                                                                            ('double', 'float', 'long double') for v in p['vars'])))
                if floating:
                    bad += 1
                rep.add(rule, '%s:%s' % (fn['name'], astu.src(x)[:40]), where(fn, x.get('l')), '%s: the quotient %s stays an integer (not converted to '
                        'floating point)' % (fn['name'], astu.src(x)[:60]), not floating,
                        None if not floating else 'both operands are integers: the division truncates before the value becomes a %s' % p.get('ty', 'double'))
    return n
