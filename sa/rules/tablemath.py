"""TABLE-MATH: exact rational arithmetic on the Gauss-Legendre tables of dgmlt1/dgmlt2.

On [-1,1] an n-point rule integrates every polynomial of degree <= 2n-1 exactly
iff  sum_i w_i t_i^k = int_{-1}^{1} t^k dt  for k = 0..2n-1.  The literals are
read from the AST with their source spelling and evaluated as exact decimals.
"""
from fractions import Fraction

from .. import astu
from ..framework import where
from ..project import AnalysisBroken

TOL = Fraction(1, 10 ** 13)      # the property's own tolerance (1e-13)


def _table(fn, name):
    v = astu.find_fn_static(fn, name)
    if v is None or 'init' not in v or v['init'].get('k') != 'InitList':
        raise AnalysisBroken('%s: table %s not found as an initialised array' % (fn['qn'], name))
    out = []
    for e in v['init']['elts']:
        x = astu.num_value(e)
        if x is None:
            raise AnalysisBroken('%s: table %s has a non-literal entry' % (fn['qn'], name))
        out.append((x, e['l']))
    return v, out


def _groups(fn):
    """(offset, order) pairs the routine can select: read from the assignments to M0/I0.
    The code: M0 = NG_; if (M0 != 8) M0 = 6; I0 = 0; if (M0 == 8) I0 = 6."""
    orders = set()
    offs = {}
    for n in astu.walk(fn['body']):
        if n['k'] == 'If':
            c = n['c']
            if c['k'] == 'Bin' and c['a'].get('name') == 'M0' and c['op'] in ('!=', '=='):
                lit = astu.num_value(c['b'])
                for a in astu.walk(n['t']):
                    if a['k'] == 'Bin' and a['op'] == '=' and a['a'].get('k') == 'Ref':
                        val = astu.num_value(a['b'])
                        if a['a']['name'] == 'M0' and c['op'] == '!=':
                            orders.add(int(lit))
                            orders.add(int(val))
                        if a['a']['name'] == 'I0' and c['op'] == '==':
                            offs[int(lit)] = int(val)
    if not orders:
        raise AnalysisBroken('%s: order selection (M0/I0) not recognised' % fn['qn'])
    return sorted((offs.get(o, 0), o) for o in orders)


def check_tables(rep, prog, fn_names=('bxdecay0::decay0_dgmlt1', 'bxdecay0::decay0_dgmlt2')):
    rep.rule('TABLE-MATH.moments',
             'for each selectable order n: |sum w_i t_i^k - int_{-1}^{1} t^k| <= 1e-13 for k=0..2n-1, exact rationals')
    rep.rule('TABLE-MATH.symmetry', 'nodes antisymmetric, weights symmetric within each group')
    rep.rule('TABLE-MATH.siblings', 'dgmlt1 and dgmlt2 carry identical W and T tables')
    tabs = {}
    for qn in fn_names:
        fn = prog.fn(qn)
        wv, W = _table(fn, 'W')
        tv, T = _table(fn, 'T')
        tabs[qn] = ([w for w, _ in W], [t for t, _ in T])
        groups = _groups(fn)
        short = qn.split('::')[-1]
        if len(W) != len(T) or any(off + n > len(W) for off, n in groups):
            rep.add('TABLE-MATH.moments', short + '.size', where(fn, wv['l']),
                    'tables W[%d], T[%d] cover the selectable groups %s' % (len(W), len(T), groups), False)
            continue
        for off, n in groups:
            w = W[off:off + n]
            t = T[off:off + n]
            for k in range(2 * n):
                s = sum(wi * ti ** k for (wi, _), (ti, _) in zip(w, t))
                exact = Fraction(2, k + 1) if k % 2 == 0 else Fraction(0)
                err = abs(s - exact)
                ok = err <= TOL
                det = None
                if not ok:
                    # locate the entry that breaks antisymmetry/symmetry, if any, for the message
                    bad = [(i, t[i][1]) for i in range(n) if t[i][0] != -t[n - 1 - i][0]] + \
                          [(i, w[i][1]) for i in range(n) if w[i][0] != w[n - 1 - i][0]]
                    det = ['moment k=%d: sum=%s exact=%s error=%.3e' % (k, float(s), float(exact), float(err))]
                    det += ['entry %d of the %d-point group (line %d) has no mirror partner' % (i + 1, n, l)
                            for i, l in bad]
                rep.add('TABLE-MATH.moments', '%s.n%d.k%d' % (short, n, k), where(fn, w[0][1]),
                        '%s: %d-point rule, moment %d exact to 1e-13' % (short, n, k), ok, det)
            for i in range(n):
                ok = t[i][0] == -t[n - 1 - i][0]
                rep.add('TABLE-MATH.symmetry', '%s.n%d.T%d' % (short, n, i), where(fn, t[i][1]),
                        '%s: node %d of %d-point rule is minus node %d' % (short, i + 1, n, n - i), ok,
                        None if ok else 'T=%s vs mirror %s' % (float(t[i][0]), float(t[n - 1 - i][0])))
                ok = w[i][0] == w[n - 1 - i][0]
                rep.add('TABLE-MATH.symmetry', '%s.n%d.W%d' % (short, n, i), where(fn, w[i][1]),
                        '%s: weight %d of %d-point rule equals weight %d' % (short, i + 1, n, n - i), ok)
    a, b = [tabs[q] for q in fn_names]
    fn = prog.fn(fn_names[1])
    rep.add('TABLE-MATH.siblings', 'W', where(fn), 'W tables of dgmlt1/dgmlt2 identical', a[0] == b[0])
    rep.add('TABLE-MATH.siblings', 'T', where(fn), 'T tables of dgmlt1/dgmlt2 identical', a[1] == b[1])
