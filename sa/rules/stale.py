"""STALE.derived: a flag computed once from a variable is not used after that variable changes.

decay0_divdif gathers its interpolation points in a loop that can lower NPTS; EXTRA = (NPTS != MPLUS) decides whether an extra
difference is built from T[M+1]/D[M+1].  If EXTRA is computed before the gather loop it describes a stale NPTS and entries that were
never written are averaged in.  The rule is general for the function: for every local that has exactly one definition, no variable
that definition reads may be assigned on a path from the definition to a later use of the local."""
from .. import ir
from ..framework import where
from ..project import AnalysisBroken
from . import cppflow


def check(rep, prog, qn, rule='STALE.derived'):
    rep.rule(rule, 'in %s a local computed once from other variables is never used after one of those variables has been '
             're-assigned (the flag would describe a stale value)' % qn.split('::')[-1])
    fn = prog.fn(qn)
    F = cppflow.Flow(fn)
    g = F.g
    defs = {}
    for n in F.nodes(kind='assign'):
        if n.stmt[1][0] == 'var':
            defs.setdefault(n.stmt[1][1], []).append(n)
    n_checked = 0
    for v, ds in sorted(defs.items()):
        if len(ds) != 1:
            continue
        d = ds[0]
        srcs = {x[1] for x in ir.subexprs(d.stmt[2]) if x[0] == 'var'} - {v}
        srcs = {s for s in srcs if s in defs}            # only locals/params that are assigned somewhere
        if not srcs:
            continue
        uses = [m for m in g.nodes if m.id != d.id and m.stmt is not None and m.id in F.reach(d.id) and
                any(('var', v) in set(ir.subexprs(e)) for e in F.exprs(m))]
        if not uses:
            continue
        n_checked += 1
        bad = []
        for s in sorted(srcs):
            for r in defs[s]:
                if r.id in F.reach(d.id) and r.id != d.id and any(u.id in F.reach(r.id) for u in uses):
                    # a loop that recomputes the local itself on the way is fine: the local has a single definition, so it is not
                    if not (d.id in F.reach(r.id) and all(d.id in F.dom.get(u.id, ()) and _passes(F, r, d, u) for u in uses if u.id in F.reach(r.id))):
                        bad.append('`%s` is re-assigned at line %d after `%s` was computed from it (line %d) and before its use at line %d'
                                   % (s, r.line, v, d.line, [u.line for u in uses if u.id in F.reach(r.id)][0]))
        rep.add(rule, '%s:%s' % (fn['name'], v), where(fn, d.line), '`%s := %s` still describes its operands wherever it is used' % (v, ir.fmt(d.stmt[2])[:60]),
                not bad, '; '.join(bad[:2]) or None)
    return n_checked


def _passes(F, r, d, u):
    """every path from the re-assignment r to the use u goes through the definition d again"""
    seen, st = set(), list(F.g.nodes[r.id].succ)
    while st:
        i = st.pop()
        if i in seen or i == d.id:
            continue
        if i == u.id:
            return False
        seen.add(i)
        st.extend(F.g.nodes[i].succ)
    return True
