"""Leave-condition of a structured rejection loop as a boolean formula over atoms (mini symbolic execution of one iteration).

The loop forms `while (true) { ...; if (ok) break; }`, `do { ...; rejected = ...; } while (rejected)`, `for (;;)` and mixtures
differ in shape but have one meaning: the predicate under which an iteration is the last one.  This module computes that predicate
from the AST of the loop, treating comparisons as atoms supplied by the caller (`atom_of`), boolean locals by their assignments in
the body (if/else merged as if-then-else), and `break` as leaving.  Equivalence with an expected formula is decided by truth table.
"""
import itertools

from .. import astu
from ..project import AnalysisBroken

T, F = ('T',), ('F',)


def f_not(a):
    if a == T:
        return F
    if a == F:
        return T
    if a[0] == 'not':
        return a[1]
    return ('not', a)


def f_and(a, b):
    if a == F or b == F:
        return F
    if a == T:
        return b
    if b == T:
        return a
    return ('and', a, b)


def f_or(a, b):
    if a == T or b == T:
        return T
    if a == F:
        return b
    if b == F:
        return a
    return ('or', a, b)


def f_ite(c, a, b):
    if a == b:
        return a
    return f_or(f_and(c, a), f_and(f_not(c), b))


def atoms(f, acc=None):
    acc = set() if acc is None else acc
    if f[0] == 'atom':
        acc.add(f[1])
    elif f[0] in ('not', 'and', 'or'):
        for x in f[1:]:
            atoms(x, acc)
    return acc


def ev(f, asg):
    k = f[0]
    if k == 'T':
        return True
    if k == 'F':
        return False
    if k == 'atom':
        return asg[f[1]]
    if k == 'not':
        return not ev(f[1], asg)
    if k == 'and':
        return ev(f[1], asg) and ev(f[2], asg)
    return ev(f[1], asg) or ev(f[2], asg)


def equivalent(f, g):
    """-> (True, None) or (False, counter-example assignment)"""
    names = sorted(atoms(f) | atoms(g), key=repr)
    if len(names) > 12:
        raise AnalysisBroken('loopsem: more than 12 atoms')
    for vals in itertools.product((False, True), repeat=len(names)):
        asg = dict(zip(names, vals))
        if ev(f, asg) != ev(g, asg):
            return False, asg
    return True, None


def show(f):
    k = f[0]
    if k in ('T', 'F'):
        return 'true' if k == 'T' else 'false'
    if k == 'atom':
        return f[1] if isinstance(f[1], str) else '%s' % (f[1],)
    if k == 'not':
        return '!(%s)' % show(f[1])
    return '(%s %s %s)' % (show(f[1]), '&&' if k == 'and' else '||', show(f[2]))


class LoopSem:
    """leave formula of one loop node.  `atom_of(expr, sem)` maps a non-boolean-structured condition (a comparison, a call) to a
    formula (usually ('atom', key)) or None = opaque; `on_assign(name, expr, sem)` lets the caller track non-boolean locals."""

    def __init__(self, loop, decl_of, atom_of, on_assign=None, pre_bool=None):
        self.loop = loop
        self.decl_of = decl_of            # id -> declaration (for const bool locals defined outside the loop)
        self.atom_of = atom_of
        self.on_assign = on_assign
        self.pre_bool = pre_bool          # booleans declared before the loop with a literal initialiser: name -> value
        self.env = {}                     # boolean locals -> formula
        self.left = F
        self.alive = T
        self.opaque = []
        self.carried = {}                 # loop-carried booleans -> value before the first iteration

    # ---- expressions
    def formula(self, e):
        e = astu.strip_casts(e)
        k = e['k']
        if k == 'Paren':
            return self.formula(e['e'])
        if k == 'Bool':
            return T if e['v'] else F
        if k == 'Num':
            v = astu.num_value(e)
            return T if v else F
        if k == 'Un' and e['op'] in ('!', 'not'):
            return f_not(self.formula(e['e']))
        if k == 'Bin' and e['op'] in ('&&', 'and'):
            return f_and(self.formula(e['a']), self.formula(e['b']))
        if k == 'Bin' and e['op'] in ('||', 'or'):
            return f_or(self.formula(e['a']), self.formula(e['b']))
        if k == 'Ref' and e.get('dk') == 'local':
            if e['name'] in self.env:
                return self.env[e['name']]
            d = self.decl_of(e.get('id'))
            if d is not None and 'init' in d and d.get('ty', '').replace('const ', '').strip() == 'bool' and not d.get('assigned'):
                return self.formula(d['init'])
            if d is not None and d.get('ty', '').strip() == 'bool' and d.get('assigned') and 'init' in d:
                # a boolean declared before the loop and assigned in it: its value at the start of an iteration is loop-carried
                i0 = astu.strip_casts(d['init'])
                if i0['k'] == 'Bool' or astu.num_value(i0) is not None:
                    self.carried[e['name']] = bool(i0['v']) if i0['k'] == 'Bool' else bool(astu.num_value(i0))
                    self.env[e['name']] = ('atom', 'carried:' + e['name'])
                    return self.env[e['name']]
        a = self.atom_of(e, self)
        if a is not None:
            return a
        self.opaque.append(astu.src(e))
        return ('atom', 'opaque:' + astu.src(e))

    # ---- statements
    def block(self, stmt, pc):
        k = stmt['k']
        if k == 'Compound':
            for s in stmt['s']:
                self.block(s, pc)
        elif k == 'Decl':
            for v in stmt['vars']:
                if 'init' in v:
                    self.assign(v['name'], v.get('ty', ''), v['init'], pc)
        elif k == 'Expr':
            e = stmt['e']
            if e['k'] == 'Bin' and e['op'] in ('=', '*=', '+=', '-=', '/=') and astu.strip_casts(e['a'])['k'] == 'Ref':
                a = astu.strip_casts(e['a'])
                self.assign(a['name'], a.get('ty', ''), e['b'], pc, op=e['op'])
        elif k == 'If':
            c = self.formula(stmt['c'])
            saved = dict(self.env)
            self.block(stmt['t'], f_and(pc, c))
            env_t = self.env
            self.env = dict(saved)
            if stmt.get('e'):
                self.block(stmt['e'], f_and(pc, f_not(c)))
            env_e = self.env
            merged = {}
            for name in set(env_t) | set(env_e):
                a, b = env_t.get(name), env_e.get(name)
                if (a is None or b is None) and name in self.carried:
                    a = a if a is not None else ('atom', 'carried:' + name)
                    b = b if b is not None else ('atom', 'carried:' + name)
                if a is None or b is None:
                    # declared in one arm only: local to that arm
                    continue
                merged[name] = f_ite(c, a, b)
            self.env = merged
        elif k == 'Break':
            self.left = f_or(self.left, f_and(pc, self.alive))
            self.alive = f_and(self.alive, f_not(pc))
        elif k == 'Continue':
            raise AnalysisBroken('loopsem: `continue` in the rejection loop')
        elif k in ('While', 'For', 'Do', 'ForRange', 'Switch', 'Goto', 'Return', 'Try'):
            raise AnalysisBroken('loopsem: nested control statement %s in the rejection loop' % k)

    def assign(self, name, ty, rhs, pc, op='='):
        is_bool = ty.replace('const ', '').strip() == 'bool'
        if is_bool and op == '=':
            new = self.formula(rhs)
            if name not in self.env and self.pre_bool is not None and name in self.pre_bool:
                self.carried[name] = self.pre_bool[name]
                self.env[name] = ('atom', 'carried:' + name)
            old = self.env.get(name)
            self.env[name] = new if (pc == T or old is None) else f_ite(pc, new, old)
        elif self.on_assign is not None:
            self.pc = f_and(pc, self.alive)           # condition under which this assignment executes (for the caller)
            self.on_assign(name, rhs, op, self)

    def run(self):
        w = self.loop
        cond = w.get('c')
        if w['k'] == 'Do':
            self.block(w['body'], T)
            c_end = self.formula(cond) if cond is not None else T
            return f_or(self.left, f_and(self.alive, f_not(c_end)))
        # while / for: the condition is evaluated before each iteration; a constant-true condition never ends the loop, a condition
        # over booleans assigned in the body is the do-while condition of the previous iteration (the loop is assumed entered)
        self.block(w['body'], T)
        c = self.formula(cond) if cond is not None else T
        return f_or(self.left, f_and(self.alive, f_not(c)))


def equivalent_loop(sem, leave, expected, invariant=()):
    """leave == expected on every reachable iteration: the loop-carried booleans start at their initialisers; an iteration that does not
    leave hands its end values to the next one; atoms named in `invariant` keep one value for the whole loop, all others are fresh in
    each iteration.  Exact finite-state exploration.  -> (True, None) or (False, counter-example dict)"""
    car = sorted(sem.carried)
    if not car:
        return equivalent(leave, expected)
    ends = {v: sem.env.get(v, ('atom', 'carried:' + v)) for v in car}
    names = sorted((atoms(leave) | atoms(expected) | set().union(*[atoms(f) for f in ends.values()])) -
                   {'carried:' + v for v in car}, key=repr)
    inv = [a for a in names if a in invariant]
    var = [a for a in names if a not in invariant]
    if len(names) + len(car) > 14:
        raise AnalysisBroken('loopsem: too many atoms')
    for ivals in itertools.product((False, True), repeat=len(inv)):
        base = dict(zip(inv, ivals))
        start = tuple(sem.carried[v] for v in car)
        seen, todo = {start}, [start]
        while todo:
            st = todo.pop()
            for vvals in itertools.product((False, True), repeat=len(var)):
                asg = dict(base)
                asg.update(zip(var, vvals))
                asg.update({'carried:' + v: x for v, x in zip(car, st)})
                lv = ev(leave, asg)
                if lv != ev(expected, asg):
                    return False, asg
                if not lv:
                    nxt = tuple(ev(ends[v], asg) for v in car)
                    if nxt not in seen:
                        seen.add(nxt)
                        todo.append(nxt)
    return True, None
