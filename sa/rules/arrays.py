"""Fixed-size array obligations (C08) and integer division guards."""
import re
from fractions import Fraction

from .. import astu, ir
from ..framework import where
from ..project import AnalysisBroken
from . import cppflow

INT_TY = re.compile(r'^(const )?(unsigned |signed )?(int|long|short|char|size_t|std::size_t|unsigned|unsigned int|'
                    r'unsigned long|long long|uint\w+|int\w+|std::\w*int\w*)( const)?$')


def extent_of(ty):
    m = re.search(r'\[(\d+)\]\s*$', ty or '')
    return int(m.group(1)) if m else None


def _ptr_aliases(fn):
    """local pointers initialised from an array (member) -> extent"""
    out = {}
    for n in astu.walk(fn['body']):
        if n['k'] == 'Decl':
            for v in n['vars']:
                init = v.get('init')
                if init is not None and v['ty'].rstrip().endswith('*'):
                    e = init
                    while e.get('k') in ('Cast',):
                        e = e['e']
                    ex = extent_of(e.get('ty', ''))
                    if ex:
                        out[v['id']] = ex
    return out


def _const_int(e):
    v = astu.num_value(e)
    if v is not None and v.denominator == 1:
        return int(v)
    if e.get('k') == 'Bin' and e['op'] in ('+', '-'):
        a, b = _const_int(e['a']), _const_int(e['b'])
        if a is not None and b is not None:
            return a + b if e['op'] == '+' else a - b
    return None


def _loops(fn):
    """[(loop var id, lo, hi inclusive, body)] for counted For loops with literal bounds"""
    out = []
    for n in astu.walk(fn['body']):
        if n['k'] == 'For' and n.get('init') and n.get('c') and n.get('inc'):
            init = n['init']
            var = lo = None
            if init['k'] == 'Decl' and len(init['vars']) == 1 and 'init' in init['vars'][0]:
                var, lo = init['vars'][0]['id'], _const_int(init['vars'][0]['init'])
            elif init['k'] == 'Expr' and init['e']['k'] == 'Bin' and init['e']['op'] == '=' and init['e']['a']['k'] == 'Ref':
                var, lo = init['e']['a']['id'], _const_int(init['e']['b'])
            c = n['c']
            if var is None or lo is None or c['k'] != 'Bin' or c['op'] not in ('<', '<=') or c['a'].get('id') != var:
                continue
            hi = _const_int(astu.strip_casts(c['b']))
            if hi is None:
                b = astu.strip_casts(c['b'])
                if b.get('k') in ('Ref', 'Member') and b.get('qn', '').endswith('SPSIZE'):
                    hi = 4300 if False else None
            if hi is None:
                continue
            if c['op'] == '<':
                hi -= 1
            inc = n['inc']
            if not (inc['k'] == 'Un' and inc['op'] == '++' and inc['e'].get('id') == var):
                continue
            out.append((var, lo, hi, n['body']))
    return out


def check_literal_and_counted(rep, prog, keys):
    rep.rule('ARRAY.literal', 'a literal subscript of an array with a declared extent is inside [0, extent)')
    rep.rule('ARRAY.counted', 'a subscript v+c of an array with a declared extent, v the induction variable of an '
             'enclosing counted loop with literal bounds, stays inside [0, extent)')
    nlit = ncnt = nother = 0
    other = {}
    for k in sorted(keys):
        fn = prog.functions[k]
        al = _ptr_aliases(fn)
        loops = _loops(fn)
        inloop = {}
        for var, lo, hi, body in loops:
            for x in astu.walk(body):
                if x['k'] == 'Idx':
                    inloop.setdefault(id(x), []).append((var, lo, hi))
        for n in astu.walk(fn['body']):
            if n['k'] != 'Idx':
                continue
            b = n['a']
            ext = extent_of(b.get('ty', ''))
            if ext is None and b.get('k') == 'Ref':
                ext = al.get(b.get('id'))
            if ext is None:
                continue
            ci = _const_int(n['i'])
            if ci is not None:
                nlit += 1
                if not 0 <= ci < ext:
                    rep.add('ARRAY.literal', '%s:%s[%d]' % (fn['name'], astu.src(b), ci), where(fn, n['l']),
                            '%s: %s[%d] within extent %d' % (fn['name'], astu.src(b), ci, ext), False)
                continue
            # v, v - c, v + c
            i = n['i']
            off = 0
            v = None
            if i['k'] == 'Ref':
                v = i['id']
            elif i['k'] == 'Bin' and i['op'] in ('+', '-') and i['a']['k'] == 'Ref' and _const_int(i['b']) is not None:
                v = i['a']['id']
                off = _const_int(i['b']) * (1 if i['op'] == '+' else -1)
            rng = [r for r in inloop.get(id(n), []) if r[0] == v]
            if v is not None and rng:
                ncnt += 1
                lo, hi = rng[-1][1] + off, rng[-1][2] + off
                ok = 0 <= lo and hi < ext
                rep.add('ARRAY.counted', '%s:%s[%s]' % (fn['name'], astu.src(b), astu.src(i)), where(fn, n['l']),
                        '%s: %s[%s] ranges over [%d, %d] within extent %d' % (fn['name'], astu.src(b), astu.src(i), lo, hi, ext), ok)
                continue
            nother += 1
            other.setdefault((fn['name'], astu.src(b)), set()).add(astu.src(i))
    rep.add('ARRAY.literal', 'all', 'bxdecay0/', '%d literal subscripts of fixed-extent arrays are in range' % nlit,
            not any(i.rule == 'ARRAY.literal' and not i.ok for i in rep.instances))
    return nlit, ncnt, other


def check_spectrum_tables(rep, prog):
    """the 4300-bin spectrum tables of decay0_bb: subscripts are in range because Q <= 4.299 MeV for every isotope,
    the default window ends at 4.3 MeV and is clamped to e0, and the loops run to int(e0*1000)"""
    rep.rule('ARRAY.spectrum', 'frozen obligation: spthe1/spthe2 subscripts of decay0_bb are below SPSIZE because '
             '(P1) max Qbb literal of genbbsub*1000+1 <= SPSIZE, (P2) default ebb2*1000 <= SPSIZE, (P3) the clamp '
             'ebb2 > e0 -> e0 dominates the loops, (P4) the first-lepton loop runs to int(e0*1000), (P5) the sites are the '
             'ones confirmed by reading')
    bb = prog.fn('bxdecay0::decay0_bb')
    gs = prog.fn('bxdecay0::genbbsub')
    sp = [s for (q, _), s in prog.statics.items() if q.endswith('bbpars::SPSIZE')]
    if not sp:
        raise AnalysisBroken('bbpars::SPSIZE not found')
    SP = int(astu.num_value(sp[0]['init']))
    qs = []
    for n in astu.walk(gs['body']):
        if n['k'] == 'Bin' and n['op'] == '=' and n['a'].get('k') == 'Member' and n['a'].get('name') == 'Qbb':
            v = astu.num_value(n['b'])
            if v is None:
                rep.add('ARRAY.spectrum', 'P1:nonliteral', where(gs, n['l']), 'Qbb is assigned a literal', False)
            else:
                qs.append((v, n['l']))
    if len(qs) < 51:
        raise AnalysisBroken('fewer than 51 Qbb assignments found in genbbsub')
    qmax, ql = max(qs)
    rep.add('ARRAY.spectrum', 'P1', where(gs, ql), 'max Qbb = %s MeV: nint(Q*1000) = %d <= SPSIZE = %d' %
            (float(qmax), int(qmax * 1000 + Fraction(1, 2)), SP), int(qmax * 1000 + Fraction(1, 2)) <= SP)
    d = None
    for key, fn in prog.functions.items():
        if fn['qn'].endswith('enrange::_set_defaults') or fn['qn'].endswith('enrange::reset') or \
                fn['qn'] == 'bxdecay0::enrange::enrange':
            for n in astu.walk(fn['body']):
                if n['k'] == 'Bin' and n['op'] == '=' and astu.src(n['a']) == 'ebb2':
                    d = (astu.num_value(n['b']), fn, n['l'])
    if d is None:
        for key, fn in prog.functions.items():
            for n in astu.walk(fn['body']):
                if n['k'] == 'Bin' and n['op'] == '=' and astu.src(n['a']).endswith('ebb2') and astu.num_value(n['b']) \
                        and fn['name'] in ('_set_defaults', 'reset', 'enrange'):
                    d = (astu.num_value(n['b']), fn, n['l'])
    if d is None:
        raise AnalysisBroken('default of enrange::ebb2 not found')
    rep.add('ARRAY.spectrum', 'P2', where(d[1], d[2]), 'default ebb2 = %s MeV: *1000 <= SPSIZE' % float(d[0]), d[0] * 1000 <= SP)
    F = cppflow.Flow(bb)
    clamp = [n for n in F.nodes(kind='assign') if ir.fmt(n.stmt[1]).endswith('ebb2') and ir.fmt(n.stmt[2]).endswith('e0')]
    sites = [n for n in F.g.nodes if n.stmt is not None and any(
        x[0] == 'idx' and x[1].lstrip('.') in ('spthe1', 'spthe2') for e in F.exprs(n) for x in ir.subexprs(e))]
    okc = bool(clamp)
    if clamp:
        g = [b for b in F.nodes(kind='branch') if clamp[0].id == b.succ[0]]
        # the clamp lives in the initialisation block (istartbb == 0): it must precede every subscript of that block;
        # the generation-time subscripts rely on the clamped value kept in the parameter struct (protocol: C09)
        ib = [b for b in F.nodes(kind='branch') if cppflow.mentions(b.stmt[1], 'istartbb') and F.dominates(b, g[0])] if g else []
        init_sites = [s for s in sites if ib and s.id in F.reach(ib[0].succ[0]) and s.id not in F.reach(ib[0].succ[1])] \
            if ib else []
        okc = bool(g) and bool(ib) and bool(init_sites) and all(F.dominates(g[0], s) for s in init_sites)
    rep.add('ARRAY.spectrum', 'P3', where(bb, clamp[0].line if clamp else bb['l']),
            'the clamp `if (ebb2 > e0) ebb2 = e0` is passed before every spectrum subscript', okc)
    imax = [n for n in F.nodes(kind='assign') if n.stmt[1] == ('var', 'imax')]
    okp = bool(imax) and ir.fmt(imax[0].stmt[2]).replace(' ', '') in ('int((pars.e0*1000.))', 'int((e0*1000.))') or \
        (bool(imax) and 'e0' in ir.fmt(imax[0].stmt[2]) and '1000' in ir.fmt(imax[0].stmt[2]) and ir.fmt(imax[0].stmt[2]).startswith('int('))
    rep.add('ARRAY.spectrum', 'P4', where(bb, imax[0].line if imax else bb['l']), 'imax = int(e0*1000)', okp)
    # P5: the frozen site table
    found = {}
    for n in astu.walk(bb['body']):
        if n['k'] == 'Idx' and n['a'].get('k') == 'Ref' and n['a'].get('name') in ('spthe1', 'spthe2'):
            found.setdefault((n['a']['name'], astu.src(n['i'])), []).append(n['l'])
    frozen = {('spthe1', '(i - 1)'): 'i in [1, imax] or [imax+1, SPSIZE] (two counted loops)',
              ('spthe1', '(k - 1)'): 'k = nint(e1*1000) clamped to >= 1, e1 <= ebb2 <= e0',
              ('spthe2', '(ke2 - 1)'): 'ke2 in [max(1,int(re2s*1000)), int(re2f*1000)], re2f = ebb2 - e1 <= e0'}
    for key, lines in sorted(found.items()):
        rep.add('ARRAY.spectrum', 'P5:%s[%s]' % key, where(bb, lines[0]),
                '%s[%s] (%d sites) is a confirmed subscript form: %s' % (key[0], key[1], len(lines), frozen.get(key, '?')),
                key in frozen, None if key in frozen else ['new subscript form not covered by the frozen obligations'])
    for key in frozen:
        if key not in found:
            raise AnalysisBroken('frozen subscript form %s[%s] vanished from decay0_bb' % key)


def check_int_division(rep, prog, keys):
    rep.rule('DIV.nonzero', 'an integer division or modulo by a non-literal is dominated by a test excluding zero '
             '(a throw guard or a branch on the divisor)')
    n = 0

    def ety(e):
        k = e.get('k')
        if k == 'Num':
            return 'int' if e['t'] == 'i' else 'double'
        if k in ('Ref', 'Member', 'Call', 'MCall', 'OpCall', 'Idx'):
            return e.get('ty', '?')
        if k == 'Cast':
            return e.get('ty', '?')
        if k == 'Bin':
            a, b = ety(e['a']), ety(e['b'])
            return 'double' if 'double' in (a, b) or 'float' in (a, b) else a
        if k == 'Un':
            return ety(e['e'])
        return '?'
    for k in sorted(keys):
        fn = prog.functions[k]
        sites = []
        for x in astu.walk(fn['body']):
            if x['k'] == 'Bin' and x['op'] in ('/', '%', '/=', '%=') and x['b']['k'] != 'Num':
                if INT_TY.match(ety(x['a']).strip()) and INT_TY.match(ety(x['b']).strip()):
                    sites.append(x)
        if not sites:
            continue
        F = cppflow.Flow(fn)
        for x in sites:
            n += 1
            div = astu.src(x['b'])
            dn = astu.strip_casts(x['b'])
            name = dn.get('name') if dn.get('k') in ('Ref', 'Member') else None
            node = [m for m in F.g.nodes if m.line == x['l'] and m.stmt is not None]
            ok = False
            why = ['divisor `%s` is not tested against zero on the way to line %d' % (div, x['l'])]
            # a const variable initialised with a non-zero literal is a named constant, not a run-time divisor
            if dn.get('k') == 'Ref' and dn.get('const') and dn.get('dk') in ('global', 'static_member', 'static_local', 'local'):
                cv = [v for (q_, i_), v in prog.statics.items() if i_ == dn.get('id')]
                if not cv:
                    cv = [v for d_ in astu.walk(fn['body']) if d_['k'] == 'Decl' for v in d_['vars'] if v.get('id') == dn.get('id')]
                val = astu.num_value(astu.strip_casts(cv[0].get('init'))) if cv and cv[0].get('init') else None
                if val is not None and val != 0:
                    ok = True
                    why = None
            if not ok and name and node:
                tests = [b for b in F.nodes(kind='branch') if cppflow.mentions(b.stmt[1], name)
                         and F.dominates(b, node[0]) and b.id != node[0].id]
                defs = [m for m in F.nodes(kind='assign') if m.stmt[1] == ('var', name)]
                # a divisor computed as (checked value - c) needs its own test
                ok = bool(tests)
                if not ok and defs:
                    why.append('`%s` is computed at line %d as %s' % (name, defs[0].line, ir.fmt(defs[0].stmt[2])[:60]))
            rep.add('DIV.nonzero', '%s:%s' % (fn['name'], astu.src(x)[:40]), where(fn, x['l']),
                    '%s: integer `%s` has a divisor excluded from zero' % (fn['name'], astu.src(x)[:50]), ok,
                    None if ok else why)
    return n
