"""Shared driver of the C01 / C02 translation-validation checks."""
import hashlib
import os
import re

from . import cpp2ir, f77, genbb, ir, project, tv, tvrun
from .framework import where
from .project import AnalysisBroken, REPO, relpath

REF_REL = 'resources/code/decay0/decay0_2020-04-20.for'


def lis_names(rel):
    p = os.path.join(REPO, rel)
    out = []
    for l in open(p):
        l = l.strip()
        if l and not l.startswith('#'):
            out.append(l.split()[0])
    return out


def _sig(msg):
    m = re.sub(r'\(?\bline[s]? \d+(-\d+)?\)?', '', msg)
    m = re.sub(r'~\d+', '', m)
    m = re.sub(r'\s+', ' ', m).strip()
    return hashlib.sha1(m.encode()).hexdigest()[:10]


def callgraph_f(units):
    cg = {}
    for n, u in units.items():
        out = set()

        def scan(stmts):
            for s in stmts:
                k = s[0]
                exprs = []
                if k == 'call':
                    out.add(s[1])
                    exprs = list(s[2])
                elif k == 'assign':
                    exprs = [s[1], s[2]]
                elif k == 'if':
                    exprs = [s[1]]
                    scan(s[2])
                    scan(s[3])
                elif k == 'do':
                    exprs = [s[2], s[3]]
                    scan(s[5])
                elif k == 'return' and s[1] is not None:
                    exprs = [s[1]]
                for e in exprs:
                    for x in ir.subexprs(e):
                        if x[0] == 'call':
                            out.add(x[1])
                        if x[0] == 'var' and x[1] in units and x[1] in u.externals:
                            out.add(x[1])
        scan(u.body)
        cg[n] = out
    return cg


def closure(cg, roots):
    seen = set()
    st = [r for r in roots]
    while st:
        x = st.pop()
        if x in seen or x not in cg:
            continue
        seen.add(x)
        st.extend(cg[x])
    return seen


class Context:
    def __init__(self):
        self.prog = project.load('lib')
        refpath = os.path.join(REPO, REF_REL)
        if not os.path.exists(refpath):
            raise AnalysisBroken('reference file %s not found' % REF_REL)
        self.units = f77.load_reference(refpath)
        cpp2ir.install_global_consts(self.prog)
        self.sigs = cpp2ir.build_sigs(self.prog)
        tvrun.install_modinfo(self.units, self.prog)
        self.cands = tvrun.cpp_candidates(self.prog)
        self.D = genbb.Dispatch(self.prog, self.units, self.sigs)
        self.cg = callgraph_f(self.units)
        self.dbd = lis_names('resources/description/dbd_isotopes.lis')
        self.bkg = lis_names('resources/description/background_isotopes.lis')


def is_effect_free(u):
    """a reference unit none of whose paths calls anything, draws a deviate or writes shared storage"""
    common = {v for vs in u.commons.values() for v in vs} | set(u.params)

    def scan(stmts):
        for s in stmts:
            k = s[0]
            if k == 'call':
                return False
            if k == 'assign':
                l = s[1]
                if (l[0] in ('var', 'idx') and l[1] in common) or ir.count_draws(s[2]):
                    return False
                if any(x[0] == 'call' for x in ir.subexprs(s[2])):
                    return False
            if k == 'if' and (not scan(s[2]) or not scan(s[3])):
                return False
            if k == 'do' and not scan(s[5]):
                return False
        return True
    return scan(u.body)


def _port_helpers(ctx, cfn, kernel):
    """functions defined in the unit's own source file that are not the port of any reference unit (file-local helpers)"""
    ported = {id(f) for fs in ctx.cands.values() for f in fs if any(n == k for k in ctx.units for n in [k])}
    mapped = {id(f) for name, fs in ctx.cands.items() if name in ctx.units for f in fs}
    out = {}
    for key, f in ctx.prog.functions.items():
        if f.get('file') == cfn.get('file') and f is not cfn and f is not kernel and id(f) not in mapped and f.get('main_file', True) \
                and not f.get('method'):
            out[f['name']] = f
    return out


def run(rep, which, tier):
    ctx = Context()
    D = ctx.D
    i2 = 2 if which == 'background' else 1
    names = ctx.bkg if which == 'background' else ctx.dbd
    rep.rule('TV.dispatch', 'GENBBsub vs genbbsub specialised by constant propagation on every published name '
             '(and, for double beta, every level -1..17 x mode 0..25): same accept/reject, same isotope record, '
             'same ordered scheme calls, same daughter chaining')
    rep.rule('TV.unit', 'each reference unit reachable from the dispatch vs its C++ counterpart: normalised CFGs '
             'bisimilar (or, for loop-free code, equal symbolic path summaries): same branch thresholds, literals, '
             'call order, deviate order')
    rep.rule('TV.missing-unit', 'every reference unit the reference dispatch reaches has a C++ counterpart')
    if tier == 'thorough':
        levels, modes = list(range(-1, 18)), list(range(0, 26))
    else:
        levels, modes = list(range(-1, 18)), list(range(0, 22)) + [25]
    res = genbb.grid(D, names if i2 == 1 else [], names if i2 == 2 else [], levels, modes)
    points = 0
    roots = set()
    no_reference = []
    admissible = {}
    for r in res:
        points += r['points']
        stage = {-1: 'init', 0: 'init+generate', 1: 'generate'}[r['istart']]
        if r['error']:
            raise AnalysisBroken('dispatch %s %s: %s' % (r['name'], stage, r['error']))
        for k, d in r['record']:
            admissible[k] = admissible.get(k, 0) + 1
    # names the reference does not know (C++-only nuclides): outside the property by its own wording
    unknown = set()
    for r in res:
        if r['istart'] == -1 and r['accept'] and all(a[2] is False for a in r['accept']) and i2 == 2:
            unknown.add(r['name'])
    fn = D.fn
    for r in res:
        stage = {-1: 'init', 0: 'init+generate', 1: 'generate'}[r['istart']]
        if r['name'] in unknown:
            if stage == 'init':
                no_reference.append(r['name'])
            continue
        if r['calls']:
            for c in r['calls']:
                roots.add(c.split('(')[0])
        if not r['mism']:
            rep.add('TV.dispatch', '%s:%s' % (r['name'], stage), where(fn),
                    '%s %s: %d configuration points agree with the reference' % (r['name'], stage, r['points']), True)
        if r['mism']:
            # one obligation per (name, stage); its key carries the set of elementary differences, so that a
            # different defect in the same record is a different (new) violation
            atoms = set()
            for msg in r['mism']:
                body = msg.split(' differ: ', 1)[1] if ' differ: ' in msg else msg
                for a in body.split('; '):
                    atoms.add(re.sub(r'\(line \d+\)', '', a).strip())
            atoms = sorted(atoms)
            npts = len({(l, m) for pts in r['mism'].values() for (l, m, _) in pts})
            first = next(iter(r['mism'].values()))[0]
            rep.add('TV.dispatch', '%s:%s:%s' % (r['name'], stage, _sig(' | '.join(atoms))),
                    where(fn, first[2][1] or fn['l']),
                    '%s %s differs from the reference at %d of %d configuration point(s), e.g. (level, mode) = %s' %
                    (r['name'], stage, npts, r['points'], first[:2]),
                    False, [a[:300] for a in atoms[:8]] + ['reference: %s:%s' % (REF_REL, first[2][0])])
    # generate-stage callees of every name are the roots of the unit scope
    # (also collect them from the residual call lists of mismatching names)
    for r in res:
        if r['istart'] == 1 and r['name'] not in unknown:
            prep = genbb.prepare(D, {'i2bbs': i2, 'chnuclide': r['name'], 'istart': 1})
            for n in prep['gf'].nodes:
                if n.kind == 'call' and n.stmt[1] in ctx.units:
                    roots.add(n.stmt[1])
    roots.discard('genbbsub')
    scope = closure(ctx.cg, roots)
    scope = {u for u in scope if u in ctx.units and u not in ('rnd1', 'genbbsub')}
    compared = 0
    nodes = 0
    adm_used = []
    samples = []
    for name in sorted(scope):
        u = ctx.units[name]
        cfn, kernel = tvrun.select(ctx.prog, ctx.cands, name)
        if cfn is None:
            if is_effect_free(u):
                rep.note('reference unit %s has no C++ counterpart but no effect (no call, deviate or shared write)'
                         % name)
                continue
            rep.add('TV.missing-unit', name, '%s:%d' % (REF_REL, u.line),
                    'reference unit %s (reached by the reference dispatch) has no C++ counterpart' % name, False,
                    ['callers in the reference: %s' % ', '.join(sorted(c for c, o in ctx.cg.items() if name in o))])
            continue
        r = tvrun.compare_unit(u, cfn, ctx.sigs, kernel, opts={'helpers': _port_helpers(ctx, cfn, kernel)})
        compared += 1
        nodes += r.nodes
        for a in r.admissible:
            admissible[a[0]] = admissible.get(a[0], 0) + 1
            if len(adm_used) < 40:
                adm_used.append({'unit': name, 'kind': a[0], 'line': a[1], 'what': str(a[2])[:120]})
        if not r.mism:
            rep.add('TV.unit', name, where(cfn),
                    '%s: %d paired nodes/paths equal (%s)' % (name, r.nodes, r.method), True)
            if len(samples) < 3 and 4 < len(r.gf.nodes) < 40:
                samples.append({'unit': name, 'method': r.method,
                                'reference_nodes': [tv.desc(n) for n in r.gf.nodes[1:7]],
                                'port_nodes': [tv.desc(n) for n in r.gc.nodes[1:7]]})
        for m in r.mism:
            fl, cl = m.lines()
            rep.add('TV.unit', '%s:%s' % (name, _sig(m.msg)), where(cfn, cl or cfn['l']),
                    '%s differs from the reference' % name, False,
                    [m.msg[:700], 'reference: %s:%s' % (REF_REL, fl)])
    rep.analysed['reference units in scope'] = len(scope)
    rep.analysed['unit pairs compared'] = compared
    rep.analysed['dispatch configuration points'] = points
    rep.analysed['published names'] = len(names)
    rep.analysed['names without reference (C++-only, outside the property)'] = sorted(no_reference)
    rep.analysed['admissible differences used (kind: count)'] = admissible
    rep.extra['programs'] = compared + len(names)
    rep.extra['disagreements_checked'] = sum(admissible.values()) + sum(1 for i in rep.instances if not i.ok)
    rep.extra['samples'] = samples or [{'unit': 'none'}]
    rep.extra['admissible_examples'] = adm_used
    rep.extra['nodes_compared'] = nodes
    rep.extra['exhaustive'] = tier == 'thorough'
    return ctx, scope
