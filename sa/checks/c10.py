"""C10 - the momentum-direction lock only re-orients (decided clauses)."""
from fractions import Fraction

from .. import astu, callgraph, project
from ..framework import Report, where
from ..project import AnalysisBroken
from ..rules import cppflow, statics, symalg
from ..rules.scopes import parent_map, Locals
from ..rules.symalg import Poly

MDL = 'bxdecay0::momentum_direction_lock_event_op'
# role of each _set_ parameter = the data member it is stored in (component of make_vector3 for the axis)
ROLE_FIELDS = {'code': '_code_', 'rank': '_rank_', 'cone_axis_x': ('_cone_axis_', 0), 'cone_axis_y': ('_cone_axis_', 1),
               'cone_axis_z': ('_cone_axis_', 2), 'cone_aperture_angle': '_cone_angle_',
               'cone_aperture2_angle': '_cone_angle2_', 'error_on_missing_particle': '_error_on_missing_particle_'}
# degree entry point: which configuration field(s) each role must carry (value flow; `code` is chosen by comparisons)
CONFIG_ROLE = {'code': ('control', {'particle_label'}), 'rank': ('value', {'target_particle_rank'}),
               'cone_axis_x': ('value', {'cone_phi_degree', 'cone_theta_degree'}),
               'cone_axis_y': ('value', {'cone_phi_degree', 'cone_theta_degree'}),
               'cone_axis_z': ('value', {'cone_theta_degree'}),
               'cone_aperture_angle': ('value', {'cone_aperture_degree'}),
               'cone_aperture2_angle': ('value', {'cone_aperture2_degree'}),
               'error_on_missing_particle': ('value', {'error_on_missing_particle'})}
LABELS = {'g': 'GAMMA', 'gamma': 'GAMMA', 'e+': 'POSITRON', 'positron': 'POSITRON', 'e-': 'ELECTRON',
          'electron': 'ELECTRON', 'n': 'NEUTRON', 'neutron': 'NEUTRON', 'p': 'PROTON', 'proton': 'PROTON',
          'a': 'ALPHA', 'alpha': 'ALPHA', '*': 'INVALID_PARTICLE', 'all': 'INVALID_PARTICLE'}
ALLOWED_MUTATORS = {'bxdecay0::particle::set_momentum', 'bxdecay0::event::grab_particles'}


def fields_in(e, base_name):
    """names of members read off the parameter `base_name` in e"""
    return {x['name'] for x in astu.walk(e) if x['k'] == 'Member' and x.get('base', {}).get('k') == 'Ref'
            and x['base']['name'] == base_name}


def run(tier, seed):
    rep = Report('C10')
    prog = project.load('lib')
    rep.rule('EFFECTS', 'every function reachable from momentum_direction_lock_event_op::operator() calls no non-const member '
             'of particle/event other than particle::set_momentum and event::grab_particles; grab_particles() is only iterated '
             'or subscripted; set_momentum writes the three momentum components only (number, species, times untouched)')
    rep.rule('ORDER', 'in decay0_generator::shoot no generator call is reachable from the operation loop, the loop applies '
             '_operations_[i] for i = 0, 1, ... once each, and add_operation appends (registration order)')
    rep.rule('SIBLINGS.entry', 'all public setters funnel into _set_ with every parameter in the slot of its own role; the '
             'degree-based entry point feeds every slot from the configuration field of the same role, converted by pi/180; '
             'the label table maps each documented label to its species; the three polar->axis conversions agree')
    rep.rule('ROTATION', 'rotate_zyz is, as a polynomial identity in the sines and cosines of its angles, a proper rotation '
             '(A^T A = 1, det A = 1); in target mode every particle receives the image of its own momentum under one '
             'composition of rotate_zyz calls whose angles do not depend on the particle, and that composition sends the '
             'target direction to an angle thetaC from the cone axis; in selection mode the written vector has the norm '
             'get_p() of the same particle and the same angle thetaC from the axis')
    rep.rule('SAMPLING', 'thetaC = acos(m + (1-m) u) with m = cos(aperture) (a convex combination: within the cone for every '
             'u in [0,1]); with a rectangular window the accepted point is tested against tan(angle1) in x and tan(angle2) in '
             'y, each half-angle from its own data member; the two sampling blocks (target / selection mode) agree')
    rep.rule('SELECTION', 'only indices inserted under the species test are forced; the index counter is the position of the '
             'particle in the event; both mutation blocks are guarded by "something was selected"; the error is raised only '
             'when nothing was selected and it was requested')
    cg = callgraph.CallGraph(prog)
    op = prog.fn(MDL + '::operator()')
    rot = prog.fn(MDL + '::_rotate_event_')
    reach = cg.reachable([k for k in prog.functions if k[0] == MDL + '::operator()'])
    if not any(k[0] == MDL + '::_rotate_event_' for k in reach):
        raise AnalysisBroken('operator() no longer reaches _rotate_event_')
    # ------------------------------------------------------------------ EFFECTS
    ncalls = 0
    for key in sorted(reach):
        fn = prog.functions[key]
        if '/bxdecay0/' not in fn['file']:
            continue
        bad = []
        for c in astu.calls(fn['body']):
            cal = c['callee']
            ncalls += 1
            if cal.get('cls') in ('bxdecay0::particle', 'bxdecay0::event') and cal.get('method') and not cal.get('const') \
                    and not cal.get('static') and c['k'] in ('MCall', 'OpCall'):
                if cal['qn'] not in ALLOWED_MUTATORS and fn['qn'] != 'bxdecay0::particle::set_momentum':
                    bad.append('%s (line %s)' % (cal['qn'], c.get('l')))
            # particle/event handed by mutable reference to code outside the project
            if not cal.get('project'):
                pm = cal.get('pm', [])
                off = 1 if (c['k'] == 'OpCall' and cal.get('method')) else 0
                for i, a in enumerate(c['args'][off:]):
                    ty = (a.get('ty') or '')
                    if i < len(pm) and pm[i] in ('ref', 'ptr', 'rref') and \
                            ('bxdecay0::particle' in ty or 'bxdecay0::event' in ty) and 'vector' not in ty:
                        bad.append('%s receives a particle/event by mutable reference (line %s)' % (cal['qn'], c.get('l')))
        rep.add('EFFECTS', 'mutators:' + fn['qn'].replace('bxdecay0::', ''), where(fn),
                'no structural / species / time mutator of particle or event is called', not bad, '; '.join(bad) or None,
                nontrivial=fn['qn'].startswith(MDL))
    pm_ = parent_map(rot['body'])
    grabs = [c for c in astu.calls(rot['body'], 'bxdecay0::event::grab_particles')]
    badg = []
    for g in grabs:
        p = pm_.get(id(g))
        ok = p is not None and ((p['k'] == 'ForRange' and p.get('range') is g) or
                                (p['k'] == 'OpCall' and p.get('op') == '[]' and p['args'][0] is g))
        if not ok:
            badg.append('line %s' % g.get('l'))
    if len(grabs) < 3:
        raise AnalysisBroken('fewer than 3 uses of grab_particles() in _rotate_event_')
    rep.add('EFFECTS', 'container', where(rot), 'the %d uses of event_.grab_particles() are range-for iteration or [index]'
            % len(grabs), not badg, ', '.join(badg) or None)
    _momentum_model(rep, prog)
    # ------------------------------------------------------------------ ORDER
    sh = prog.fn('bxdecay0::decay0_generator::shoot')
    F = cppflow.Flow(sh)
    gens = [n for n, name, a in F.call_nodes(lambda s: s in ('genbbsub', 'dbd_gA::shoot'))]
    ops = [n for n, name, a in F.call_nodes(lambda s: s.endswith('i_event_op::operator()') or s == 'operator()')]
    if len(gens) < 3 or len(ops) != 1:
        raise AnalysisBroken('decay0_generator::shoot: expected 3 generator calls and 1 operation call, found %d/%d: %s'
                             % (len(gens), len(ops), sorted({name for n, name, a in F.call_nodes(lambda s: True)})))
    after = F.reach(ops[0].id)
    rep.add('ORDER', 'after-generation', where(sh, ops[0].line),
            'none of the %d generator calls is reachable from the operation call, and the operation call is reachable from '
            'each of them' % len(gens),
            all(g.id not in after for g in gens) and all(ops[0].id in F.reach(g.id) for g in gens))
    okl = False
    for n in astu.walk(sh['body']):
        if n['k'] == 'For' and any(c['callee']['qn'].endswith('i_event_op::operator()') for c in astu.calls(n['body'])):
            v = n['init']['vars'][0] if n.get('init') and n['init']['k'] == 'Decl' else None
            if v is None:
                break
            name = v['name']
            written = [r for r, how, node in statics.written_refs(n['body']) if r.get('name') == name]
            subs = [x for x in astu.walk(n['body']) if x['k'] == 'OpCall' and x.get('op') == '[]'
                    and astu.src(x['args'][0]) == '_operations_']
            okl = astu.num_value(v.get('init')) == 0 and astu.src(n['c']) == '(%s < _operations_.size())' % name and \
                n['inc']['k'] == 'Un' and n['inc']['op'] == '++' and not written and \
                len(subs) == 1 and astu.src(subs[0]['args'][1]) == name and \
                not any(x['k'] in ('Break', 'Continue', 'Goto') for x in astu.walk(n['body']))
    if not okl:
        for n in astu.walk(sh['body']):
            if n['k'] == 'ForRange' and astu.src(n['range']) == '_operations_' and \
                    any(c['callee']['qn'].endswith('i_event_op::operator()') for c in astu.calls(n['body'])) and \
                    not any(x['k'] in ('Break', 'Continue', 'Goto') for x in astu.walk(n['body'])):
                okl = True          # container order, each element once
    rep.add('ORDER', 'index-order', where(sh, ops[0].line), 'the operations are applied in container order, each once: `for (i = 0; i < _operations_.size(); i++)` over '
            '_operations_[i] (i not written in the body) or a range-for over _operations_; no break/continue', okl)
    ao = prog.fn('bxdecay0::decay0_generator::add_operation')
    muts = [c['callee']['qn'].split('::')[-1] for c in astu.calls(ao['body'])
            if c['k'] == 'MCall' and astu.src(c['obj']) == '_operations_' and not c['callee'].get('const')]
    rep.add('ORDER', 'registration-order', where(ao), 'add_operation appends to _operations_ (%s)' % muts,
            muts and all(m in ('push_back', 'emplace_back') for m in muts))
    others = []
    for key, fn in prog.functions.items():
        if fn.get('cls') == 'bxdecay0::decay0_generator' and fn['qn'] != ao['qn']:
            for c in astu.calls(fn['body']):
                if c['k'] in ('MCall', 'OpCall') and c['k'] == 'MCall' and astu.src(c['obj']) == '_operations_' and \
                        not c['callee'].get('const') and c['callee']['qn'].split('::')[-1] not in ('clear', 'operator[]'):
                    others.append('%s: %s' % (fn['name'], c['callee']['qn'].split('::')[-1]))
    rep.add('ORDER', 'no-reordering', where(sh), 'no other member reorders or inserts into _operations_', not others,
            '; '.join(others) or None)
    # ------------------------------------------------------------------ SIBLINGS.entry
    setp = prog.fn(MDL + '::_set_')
    pnames = [p['name'] for p in setp['params']]
    roles = {}
    for n in astu.walk(setp['body']):
        if n['k'] in ('Bin', 'OpCall') and n.get('op') == '=':
            lhs, rhs = (n['a'], n['b']) if n['k'] == 'Bin' else (n['args'][0], n['args'][1])
            f = astu.root_of(lhs)
            if f is None:
                continue
            rhs = astu.strip_casts(rhs)
            while rhs.get('k') in ('Temp', 'Bind', 'Materialize') or (rhs.get('k') in ('Ctor', 'TempCtor') and len(rhs['args']) == 1):
                rhs = rhs['e'] if 'e' in rhs else rhs['args'][0]
            if rhs['k'] == 'Ref' and rhs.get('dk') == 'param':
                roles.setdefault(rhs['name'], set()).add(f['name'])
            elif rhs['k'] == 'Call' and rhs['callee']['qn'] == 'bxdecay0::make_vector3':
                for i, a in enumerate(rhs['args']):
                    a = astu.strip_casts(a)
                    if a['k'] == 'Ref' and a.get('dk') == 'param':
                        roles.setdefault(a['name'], set()).add((f['name'], i))
    okr = True
    det = []
    for p in pnames:
        want = ROLE_FIELDS.get(p.rstrip('_'))
        got = roles.get(p, set())
        if want is None:
            raise AnalysisBroken('_set_ parameter %s has no role in the table' % p)
        if got != {want}:
            okr = False
            det.append('%s -> %s (expected %s)' % (p, sorted(map(str, got)), want))
    rep.add('SIBLINGS.entry', '_set_:slots', where(setp), 'each of the %d _set_ parameters is stored into the data member '
            'of its role' % len(pnames), okr, '; '.join(det) or None)
    wrappers = [f for f in prog.fns(MDL + '::set') + prog.fns(MDL + '::set_with_aperture_rectangular_cut')]
    nfw = 0
    for w in wrappers:
        if len(w['params']) == 1:
            continue
        wp = {p['name'] for p in w['params']}
        inner = [c for c in astu.calls(w['body']) if c['callee']['qn'] in
                 (MDL + '::_set_', MDL + '::set', MDL + '::set_with_aperture_rectangular_cut')]
        if len(inner) != 1:
            raise AnalysisBroken('setter at line %s does not funnel into exactly one other setter' % w['l'])
        c = inner[0]
        tgt = [f for f in prog.fns(c['callee']['qn']) if len(f['params']) == len(c['args'])]
        tgt = [f for f in tgt if (f['qn'], f.get('id')) == (c['callee']['qn'], c['callee'].get('id'))] or tgt
        tp = [p['name'] for p in tgt[0]['params']]
        bad = []
        passed = set()
        for i, a in enumerate(c['args']):
            a = astu.strip_casts(a)
            if a['k'] == 'Ref' and a.get('dk') == 'param':
                passed.add(a['name'])
                if a['name'] != tp[i]:
                    bad.append('argument %d is %s but the slot is %s' % (i + 1, a['name'], tp[i]))
            elif a['k'] == 'Ref' and a.get('dk') == 'local':
                # locals named after the slot they fill (cx, cy, cz): checked by the polar rule below
                pass
            elif tp[i].rstrip('_') == 'cone_aperture2_angle' and astu.src(a).endswith('quiet_NaN()'):
                pass
            else:
                bad.append('argument %d (%s) is neither a parameter nor a reviewed form' % (i + 1, astu.src(a)))
        unused = {p for p in wp if p not in passed and not any(x['k'] == 'Ref' and x['name'] == p for x in astu.walk(w['body']))}
        if unused:
            bad.append('parameters never used: %s' % sorted(unused))
        nfw += 1
        rep.add('SIBLINGS.entry', 'forward:%s/%d' % (w['name'], len(w['params'])), where(w),
                'every parameter is forwarded in the slot of the same name of %s' % tgt[0]['name'], not bad, '; '.join(bad) or None)
    if nfw < 4:
        raise AnalysisBroken('fewer than 4 forwarding setters found')
    # polar -> axis conversions: the locals passed in the cone_axis_x/y/z slots of the forwarded call
    polar = []
    targets = (MDL + '::_set_', MDL + '::set', MDL + '::set_with_aperture_rectangular_cut')
    for w in wrappers:
        L = Locals(w)
        inner = [c for c in astu.calls(w['body']) if c['callee']['qn'] in targets]
        if len(inner) != 1:
            continue
        c = inner[0]
        tgt = [f for f in prog.fns(c['callee']['qn']) if len(f['params']) == len(c['args'])]
        tgt = [f for f in tgt if (f['qn'], f.get('id')) == (c['callee']['qn'], c['callee'].get('id'))] or tgt
        tri = {}
        for prm, a in zip(tgt[0]['params'], c['args']):
            a = astu.strip_casts(a)
            role = prm['name'].rstrip('_')
            if role in ('cone_axis_x', 'cone_axis_y', 'cone_axis_z') and a['k'] == 'Ref' and a.get('dk') == 'local':
                v = L.decl.get(a['id'])
                if v is not None and 'init' in v and not L.assigns.get(a['id']):
                    tri['c' + role[-1]] = v['init']
        if tri:
            polar.append((w, tri))
    if len(polar) != 3:
        raise AnalysisBroken('expected 3 polar->axis conversions, found %d' % len(polar))
    for w, tri in polar:
        ok, why = _polar_ok(tri)
        rep.add('SIBLINGS.entry', 'polar:%s/%d' % (w['name'], len(w['params'])), where(w),
                '(cx, cy, cz) = (cos phi sin theta, sin phi sin theta, cos theta) of the same two angles', ok, why)
    # degree entry point
    cfg = [w for w in wrappers if len(w['params']) == 1][0]
    _degree_entry(rep, prog, cfg, setp)
    # ------------------------------------------------------------------ ROTATION
    A = symalg.Alg(prog)
    rz = prog.fn('bxdecay0::rotate_zyz')
    anames = dict(zip([q['name'] for q in rz['params'][1:4]], ('a1', 'a2', 'a3')))
    pths = A.paths(rz, lambda: [{'x': Poly.sym('px'), 'y': Poly.sym('py'), 'z': Poly.sym('pz')},
                                Poly.sym('a1'), Poly.sym('a2'), Poly.sym('a3')])
    for dec, r in pths:
        tag = '' if len(pths) == 1 else ':' + ','.join('%s%s' % ('' if t else '!', l) for l, _, t, _ in dec)
        facts = symalg.zero_angle_facts(dec, anames)
        M = [[x.subst(facts) for x in row] for row in symalg.linear_map(r, ['px', 'py', 'pz'])]
        ok, why = symalg.is_rotation(M)
        rep.add('ROTATION', 'rotate_zyz:orthogonal' + tag, where(rz), 'rotate_zyz(p, a1, a2, a3) = A p with A^T A = 1 and det A = 1 '
                'for all angles (polynomial identity modulo sin^2 + cos^2 = 1) on %s' % symalg.describe(dec), ok, why or None)
        ez = [M[i][2] for i in range(3)]
        wz = [x.subst(facts) for x in (Poly.sym('c:a1') * Poly.sym('s:a2'), Poly.sym('s:a1') * Poly.sym('s:a2'), Poly.sym('c:a2'))]
        okz = ez == wz
        rep.add('ROTATION', 'rotate_zyz:polar-axis' + tag, where(rz), 'rotate_zyz(e_z, phi, theta, psi) = (cos phi sin theta, sin '
                'phi sin theta, cos theta): the image of the z axis has polar angles (theta, phi), on %s' % symalg.describe(dec),
                okz, None if okz else repr(ez))
    _mutation_blocks(rep, prog, rot, pm_, A)
    _update_internals(rep, prog)
    _sampling(rep, prog, rot, pm_)
    _selection(rep, prog, rot, pm_)
    rep.floor('EFFECTS', ncalls, 60)
    return rep


def _momentum_model(rep, prog):
    """particle::set_momentum / set_pX / get_pX / get_p agree on which storage holds which component"""
    slot = {}
    bad = []
    for i, c in enumerate('xyz'):
        st, gt = prog.fn('bxdecay0::particle::set_p' + c), prog.fn('bxdecay0::particle::get_p' + c)
        w = [n for n in astu.walk(st['body']) if n['k'] == 'Bin' and n['op'] in statics.ASSIGN_OPS]
        # a subscript of a std::array member is a storage slot like a C array element, not a call
        def _slot_subscript(c_):
            return c_['k'] == 'OpCall' and c_.get('op') == '[]' and 'std::array' in c_['callee'].get('qn', '')
        calls_ = [c_ for c_ in astu.calls(st['body']) if not _slot_subscript(c_)]
        tgt = w[0]['a'] if len(w) == 1 else None
        if tgt is not None and _slot_subscript(astu.strip_casts(tgt)):
            tgt = astu.strip_casts(tgt)['args'][0]
        if len(w) != 1 or calls_ or astu.root_of(tgt) is None or astu.src(astu.strip_casts(w[0]['b'])) != st['params'][0]['name'] \
                or w[0]['op'] != '=':
            bad.append('set_p%s is not a single store of its argument' % c)
            continue
        slot[c] = astu.src(w[0]['a'])
        r = [n for n in astu.walk(gt['body']) if n['k'] == 'Return']
        if len(r) != 1 or astu.src(astu.strip_casts(r[0]['e'])) != slot[c]:
            bad.append('get_p%s does not return %s' % (c, slot[c]))
    if len(set(slot.values())) != 3:
        bad.append('the three components do not use three distinct storage slots: %s' % slot)
    sm = prog.fn('bxdecay0::particle::set_momentum')
    seq = [(c['callee']['qn'].split('::')[-1], astu.src(astu.strip_casts(c['args'][0])) if c['args'] else '') for c in astu.calls(sm['body'])]
    want = [('set_p' + c, sm['params'][i]['name']) for i, c in enumerate('xyz')]
    direct = [n for n in astu.walk(sm['body']) if n['k'] == 'Bin' and n['op'] in statics.ASSIGN_OPS]
    if sorted(seq) != sorted(want) or direct:
        bad.append('set_momentum does %s (expected %s and nothing else)' % (seq + [astu.src(d) for d in direct], want))
    rep.add('EFFECTS', 'set_momentum', where(sm), 'particle::set_momentum(px, py, pz) stores its arguments through set_px/py/pz into '
            'the slots %s that get_px/py/pz read, and writes nothing else' % sorted(slot.values()), not bad, '; '.join(bad) or None)
    gp = prog.fn('bxdecay0::particle::get_p')
    okp = False
    why = None
    for n in astu.walk(gp['body']):
        if n['k'] == 'Return' and n.get('e'):
            e = astu.strip_casts(n['e'])
            if e['k'] == 'Call' and e['callee']['qn'] in ('sqrt', 'std::sqrt'):
                def res(x):
                    x = astu.strip_casts(x)
                    if astu.src(x) in slot.values():
                        return Poly.sym(astu.src(x))
                    return None
                try:
                    v = _FieldAlg(prog, resolver=res).ex(gp, e['args'][0], {}, 0)
                    okp = len(slot) == 3 and v == sum((_sq(s) for s in slot.values()), Poly())
                    why = None if okp else repr(v)
                except AnalysisBroken as ex:
                    why = str(ex)
    rep.add('ROTATION', 'get_p', where(gp), 'particle::get_p() = sqrt(px^2 + py^2 + pz^2) over the same three slots', okp, why)


def _sq(s):
    return Poly.sym(s) * Poly.sym(s)


class _FieldAlg(symalg.Alg):
    """data members / named locals are symbols"""
    def __init__(self, prog, symbols=None, resolver=None):
        super().__init__(prog)
        self.resolver = resolver

    def ex(self, fn, e, env, depth):
        if self.resolver is not None:
            v = self.resolver(e)
            if v is not None:
                return v
        if e['k'] == 'Member' and e.get('base', {}).get('k') == 'This':
            return Poly.sym(e['name'])
        return super().ex(fn, e, env, depth)


def _polar_ok(tri):
    """cx = cos(P) sin(T), cy = sin(P) sin(T), cz = cos(T) for two angle variables P, T"""
    if set(tri) != {'cx', 'cy', 'cz'}:
        return False, 'missing component'

    def ev(e):
        def res(x):
            x = astu.strip_casts(x)
            if x['k'] == 'Ref':
                return Poly.sym(x['name'])
            return None
        return _FieldAlg(None, resolver=res).ex({'qn': 'polar'}, e, {}, 0)
    try:
        cx, cy, cz = ev(tri['cx']), ev(tri['cy']), ev(tri['cz'])
    except AnalysisBroken as e:
        return False, str(e)
    if len(cz.t) != 1:
        return False, 'cz = %r' % cz
    (k, v), = cz.t.items()
    if v != 1 or len(k) != 1 or not k[0][0].startswith('c:'):
        return False, 'cz = %r is not cos(theta)' % cz
    T = k[0][0][2:]
    ps = {s[2:] for s in cx.symbols() | cy.symbols()} - {T}
    if len(ps) != 1:
        return False, 'cx/cy use angles %s' % sorted(ps | {T})
    P = ps.pop()
    ok = cx == Poly.sym('c:' + P) * Poly.sym('s:' + T) and cy == Poly.sym('s:' + P) * Poly.sym('s:' + T)
    return ok, None if ok else 'cx = %r, cy = %r' % (cx, cy)


def _degree_entry(rep, prog, cfg, setp):
    """set(const config_type &): flow of configuration fields into the _set_ slots"""
    cname = cfg['params'][0]['name']
    L = Locals(cfg)
    pm = parent_map(cfg['body'])
    call = [c for c in astu.calls(cfg['body'], MDL + '::_set_')]
    if len(call) != 1:
        raise AnalysisBroken('set(config) does not call _set_ exactly once')
    call = call[0]
    slots = [p['name'].rstrip('_') for p in setp['params']]

    def guards(node):
        out = []
        x = node
        while id(x) in pm:
            par = pm[id(x)]
            if par['k'] == 'If' and x is not par.get('c'):
                out.append(par['c'])
            x = par
        return out

    def vdeps(e, seen=()):
        """(value fields, control fields, conversion coefficients per field)"""
        val, ctl = set(), set()
        val |= fields_in(e, cname)
        for x in astu.walk(e):
            if x['k'] == 'Ref' and x.get('dk') == 'local' and x['id'] not in seen:
                v = L.decl.get(x['id'])
                defs = []
                if v is not None and 'init' in v:
                    defs.append((v['init'], []))
                for a in L.assigns.get(x['id'], []):
                    defs.append((a['b'], guards(a)))
                for d, gs in defs:
                    a, b = vdeps(d, seen + (x['id'],))
                    val |= a
                    ctl |= b
                    for g in gs:
                        a2, b2 = vdeps(g, seen + (x['id'],))
                        ctl |= a2 | b2
        return val, ctl
    for slot, a in zip(slots, call['args']):
        kind, want = CONFIG_ROLE[slot]
        val, ctl = vdeps(a)
        if kind == 'control':
            ok = ctl == want and not val
            got = 'selected by comparisons on %s' % sorted(ctl)
        else:
            ok = val == want
            got = 'carries %s' % sorted(val)
        rep.add('SIBLINGS.entry', 'degree:' + slot, where(cfg, a.get('l')),
                'the %s slot of _set_ %s (expected %s)' % (slot, got, sorted(want)), ok)
    # conversion factor pi/180 on every *_degree field
    nconv = 0
    for n in astu.walk(cfg['body']):
        if n['k'] == 'Member' and n['name'].endswith('_degree') and n.get('base', {}).get('k') == 'Ref':
            # climb to the maximal arithmetic expression containing the field
            x = n
            while id(x) in pm and pm[id(x)]['k'] in ('Bin', 'Cast', 'Paren') and \
                    (pm[id(x)]['k'] != 'Bin' or pm[id(x)]['op'] in ('*', '/')):
                x = pm[id(x)]
            if x is n:
                continue          # used in a test only (isnormal(...), >= 0)
            coef = _monomial(x, n)
            nconv += 1
            rep.add('SIBLINGS.entry', 'convert:%s@%s' % (n['name'], n.get('l')), where(cfg, n.get('l')),
                    '%s is converted by the factor pi/180 (found %s)' % (n['name'], coef), coef == (Fraction(1, 180), 1))
    if nconv < 4:
        raise AnalysisBroken('fewer than 4 degree conversions found in set(config)')
    # label table: the local handed over in the `code` slot
    codearg = astu.strip_casts(call['args'][slots.index('code')])
    if codearg['k'] != 'Ref' or codearg.get('dk') != 'local':
        raise AnalysisBroken('set(config): the species code passed to _set_ is not a local variable')
    codename = codearg['name']
    labs = {}
    for n in astu.walk(cfg['body']):
        if n['k'] == 'If':
            strs = [x['v'] for x in astu.walk(n['c']) if x['k'] == 'Str']
            if not strs:
                continue
            assigned = [astu.src(x['b']) for x in astu.walk(n['t']) if x['k'] == 'Bin' and x['op'] == '=' and
                        astu.strip_casts(x['a']).get('id') == codearg['id']]
            throws = any(x['k'] == 'Throw' for x in astu.walk(n['t']))
            for s_ in strs:
                labs[s_] = assigned[0] if assigned else ('throw' if throws else 'INVALID_PARTICLE')
    bad = ['%r -> %s (expected %s)' % (k, labs.get(k), v) for k, v in LABELS.items() if labs.get(k) != v]
    extra = sorted(set(labs) - set(LABELS))
    codev = L.decl.get(codearg['id'])
    init_ok = codev is not None and astu.src(codev.get('init')) == 'INVALID_PARTICLE'
    rep.add('SIBLINGS.entry', 'labels', where(cfg), 'the %d documented particle labels select their species; any other label '
            'is refused' % len(LABELS), not bad and not extra and bool(init_ok), '; '.join(bad + ['unreviewed label %r' % e for e in extra]) or None)


def _monomial(e, field):
    """(rational coefficient, power of pi) of the product/quotient `e` in which `field` occurs once"""
    e = astu.strip_casts(e)
    if e is field:
        return (Fraction(1), 0)
    if e['k'] == 'Num':
        if e.get('macro') == 'M_PI' or astu.src(e).startswith('3.14159265358979'):
            return (Fraction(1), 1)
        return (astu.dec(e['v']), 0)
    if e['k'] == 'Paren':
        return _monomial(e['e'], field)
    if e['k'] == 'Bin' and e['op'] in ('*', '/'):
        a, b = _monomial(e['a'], field), _monomial(e['b'], field)
        if a is None or b is None:
            return None
        if e['op'] == '*':
            return (a[0] * b[0], a[1] + b[1])
        if b[0] == 0:
            return None
        return (a[0] / b[0], a[1] - b[1])
    return None


def _enclosing(pm, node, kind):
    x = node
    while id(x) in pm:
        x = pm[id(x)]
        if x['k'] == kind:
            return x
    return None


def _mutation_blocks(rep, prog, rot, pm, A):
    L = Locals(rot)
    sites = [c for c in astu.calls(rot['body'], 'bxdecay0::particle::set_momentum')]
    if len(sites) != 2:
        raise AnalysisBroken('expected 2 set_momentum call sites in _rotate_event_, found %d' % len(sites))
    for site in sites:
        loop = _enclosing(pm, site, 'ForRange')
        if loop is None:
            raise AnalysisBroken('set_momentum at line %s is not inside a range-for' % site.get('l'))
        recv = astu.strip_casts(site['obj'])
        if recv['k'] != 'Ref':
            raise AnalysisBroken('set_momentum receiver at line %s is not a named particle' % site.get('l'))
        rv = L.decl.get(recv['id'])
        target_mode = rv is not None and rv.get('forrange') is loop
        mode = 'target' if target_mode else 'selection'
        # the written vector
        comps = [astu.strip_casts(a) for a in site['args']]
        okc = len(comps) == 3 and all(c['k'] == 'Member' and c['base']['k'] == 'Ref' for c in comps) and \
            [c['name'] for c in comps] == ['x', 'y', 'z'] and len({c['base']['id'] for c in comps}) == 1
        if not okc:
            rep.add('ROTATION', mode + ':written-vector', where(rot, site.get('l')),
                    'set_momentum receives (V.x, V.y, V.z) of one vector', False)
            continue
        vid = comps[0]['base']['id']
        # other writes to V: only the tiny-value clamp
        badw = []
        for a in L.assigns.get(vid, []):
            if not _is_clamp(a):
                badw.append('line %s: %s' % (a.get('l'), astu.src(a)))
        rep.add('ROTATION', mode + ':clamp-only', where(rot, site.get('l')), 'the written vector is modified after the '
                'rotations only by `|c| < 1e-15 ? 0 : c` on its own components (%d writes)' % len(L.assigns.get(vid, [])),
                not badw, '; '.join(badw) or None)
        # chain of rotate_zyz calls
        angles = {}
        dependent = []

        def resolver(e, _recv=recv, _loop=loop):
            e = astu.strip_casts(e)
            if e['k'] == 'Member' and e.get('base', {}).get('k') == 'This':
                return Poly.sym(e['name'])
            if e['k'] == 'MCall' and e['callee']['qn'] in ('bxdecay0::particle::get_px', 'bxdecay0::particle::get_py',
                                                            'bxdecay0::particle::get_pz', 'bxdecay0::particle::get_p'):
                o = astu.strip_casts(e['obj'])
                if o['k'] != 'Ref' or o['id'] != _recv['id']:
                    dependent.append('line %s reads %s of another particle (%s)' % (e.get('l'), e['callee']['qn'].split('::')[-1], astu.src(o)))
                return Poly.sym(e['callee']['qn'].split('::')[-1][4:] if e['callee']['qn'][-2:] != '_p' else 'P')
            if e['k'] == 'Ref' and e.get('dk') == 'local':
                v = L.decl.get(e['id'])
                if v is None:
                    return None
                if v.get('ty') == 'double' and 'init' in v and not L.assigns.get(e['id']) and \
                        astu.strip_casts(v['init']).get('k') == 'MCall':
                    return fa.ex(rot, v['init'], {}, 0)
                if v.get('ty') == 'double':
                    angles[e['name']] = e['id']
                    return Poly.sym(e['name'])
                if 'init' in v:
                    return fa.ex(rot, v['init'], {}, 0)
            return None
        fa = _FieldAlg(prog, resolver=resolver)
        try:
            V = fa.ex(rot, L.decl[vid]['init'], {}, 0)
        except AnalysisBroken as ex:
            if 'control flow' in str(ex):
                # a callee (rotate_zyz) special-cases some input: its own paths are judged by ROTATION rotate_zyz:* above and
                # by C16; the composition algebra of this rule needs one closed form, which no longer exists
                rep.cannot_decide('ROTATION', where(rot, site.get('l')), str(ex))
                continue
            rep.add('ROTATION', mode + ':composition', where(rot, site.get('l')), 'the written vector is a composition of '
                    'rotate_zyz calls', False, str(ex))
            continue
        # angles must be invariant in the particle loop (target mode)
        if target_mode:
            inv = []
            for name, vid_ in angles.items():
                d = L.decl[vid_]
                inside = any(_enclosing(pm, a, 'ForRange') is loop for a in L.assigns.get(vid_, []))
                declared_inside = d.get('l', 0) >= loop['l'] and _within(loop, d)
                if inside or declared_inside or name == 'P':
                    inv.append(name)
            rep.add('ROTATION', 'target:rigid', where(rot, loop.get('l')), 'the rotation angles %s are fixed before the loop over '
                    'all particles (one rotation for the whole event)' % sorted(angles), not inv and not dependent,
                    '; '.join(['%s changes inside the loop' % x for x in inv] + dependent) or None)
            try:
                Mx = symalg.linear_map(V, ['px', 'py', 'pz'])
                ok, why = symalg.is_rotation(Mx)
            except AnalysisBroken as ex:
                ok, why = False, str(ex)
            rep.add('ROTATION', 'target:own-momentum', where(rot, site.get('l')), 'each particle receives R (px, py, pz) of '
                    'its own momentum with R a proper rotation', ok, why or None)
            if not ok:
                continue
            # the target: p_ref = P (sin t cos f, sin t sin f, cos t) with (t, f) = (ref_theta, ref_phi)
            tnames = _polar_decomposition(rep, prog, rot, L, angles, pm)
            if tnames is None:
                continue
            th, ph = tnames
            pref = [Poly.sym('P') * Poly.sym('s:' + th) * Poly.sym('c:' + ph), Poly.sym('P') * Poly.sym('s:' + th) * Poly.sym('s:' + ph),
                    Poly.sym('P') * Poly.sym('c:' + th)]
            img = [sum((Mx[i][j] * pref[j] for j in range(3)), Poly()) for i in range(3)]
        else:
            rep.add('ROTATION', 'selection:own-norm', where(rot, site.get('l')), 'the new momentum of a selected particle is '
                    'built from get_p() of that same particle and from no other particle', not dependent and 'P' in
                    {s for c in V.values() for s in c.symbols()}, '; '.join(dependent) or None)
            img = [V['x'], V['y'], V['z']]
            n2 = sum((c * c for c in img), Poly())
            rep.add('ROTATION', 'selection:norm', where(rot, site.get('l')), '|new momentum|^2 = get_p()^2 as a polynomial '
                    'identity', n2 == Poly.sym('P') * Poly.sym('P'), None if n2 == _sq('P') else repr(n2))
        axis = [Poly.sym('c:_phi_direction_') * Poly.sym('s:_theta_direction_'),
                Poly.sym('s:_phi_direction_') * Poly.sym('s:_theta_direction_'), Poly.sym('c:_theta_direction_')]
        dot = sum((img[i] * axis[i] for i in range(3)), Poly())
        cands = [a for a in angles if (Poly.sym('P') * Poly.sym('c:' + a)) == dot]
        rep.add('ROTATION', mode + ':angle-to-axis', where(rot, site.get('l')),
                'new direction . cone axis = |p| cos(%s): the %s particle ends at exactly the sampled polar angle from the axis '
                '(_phi_direction_, _theta_direction_)' % (cands[0] if cands else '?', 'target' if target_mode else 'selected'),
                len(cands) == 1, None if cands else 'dot = %r' % dot)
        if cands:
            _theta_source(rep, rot, L, angles[cands[0]], mode, pm)


def _within(outer, inner_decl):
    for n in astu.walk(outer['body']):
        if n['k'] == 'Decl' and any(v is inner_decl or v.get('id') == inner_decl.get('id') for v in n['vars']):
            return True
    return False


def _is_clamp(a):
    """V.c = std::abs(V.c) < tiny ? 0.0 : V.c"""
    if a['op'] != '=':
        return False
    lhs = astu.src(a['a'])
    b = astu.strip_casts(a['b'])
    if b['k'] != 'Cond':
        return False
    c = astu.strip_casts(b['c'])
    if c['k'] != 'Bin' or c['op'] not in ('<', '<='):
        return False
    l = astu.strip_casts(c['a'])
    lim = astu.num_value(astu.strip_casts(c['b']))
    if l['k'] != 'Call' or l['callee']['qn'] not in ('std::abs', 'fabs', 'std::fabs') or astu.src(l['args'][0]) != lhs:
        return False
    if lim is None or not (0 < lim <= Fraction(1, 10 ** 12)):
        return False
    return astu.num_value(astu.strip_casts(b['a'])) == 0 and astu.src(astu.strip_casts(b['b'])) == lhs


def _spherical(prog, fn, theta_init, phi_init, vec_value):
    """theta = acos(V.z / |V|), phi = atan2(V.y, V.x) for the vector whose components are the polynomials vec_value
    (callable resolving expressions)"""
    t = astu.strip_casts(theta_init)
    p = astu.strip_casts(phi_init)
    if t['k'] != 'Call' or t['callee']['qn'] not in ('acos', 'std::acos'):
        return False, 'theta is not acos(...)'
    if p['k'] != 'Call' or p['callee']['qn'] not in ('atan2', 'std::atan2'):
        return False, 'phi is not atan2(...)'
    q = astu.strip_casts(t['args'][0])
    if q['k'] != 'Bin' or q['op'] != '/':
        return False, 'acos argument is not z / |v|'
    try:
        z = vec_value(q['a'])
        mag = astu.strip_casts(q['b'])
        m2 = vec_value(mag)
        y, x = vec_value(p['args'][0]), vec_value(p['args'][1])
    except AnalysisBroken as ex:
        return False, str(ex)
    ok = z == Poly.sym('vz') and y == Poly.sym('vy') and x == Poly.sym('vx') and \
        m2 == Poly.sym('|v|')
    return ok, None if ok else 'theta = acos(%r / %r), phi = atan2(%r, %r)' % (z, m2, y, x)


def _mag_resolver(prog, fn, L, comp_of):
    """resolver mapping vector components to vx, vy, vz and sqrt(vx^2+vy^2+vz^2) locals to |v|"""
    def res(e):
        e = astu.strip_casts(e)
        c = comp_of(e)
        if c is not None:
            return Poly.sym('v' + c)
        if e['k'] == 'Ref' and e.get('dk') == 'local':
            v = L.decl.get(e['id'])
            if v is not None and 'init' in v and not L.assigns.get(e['id']):
                i = astu.strip_casts(v['init'])
                if i['k'] == 'Call' and i['callee']['qn'] in ('sqrt', 'std::sqrt'):
                    inner = _FieldAlg(prog, resolver=res).ex(fn, i['args'][0], {}, 0)
                    if inner == _sq('vx') + _sq('vy') + _sq('vz'):
                        return Poly.sym('|v|')
                    raise AnalysisBroken('%s is sqrt(%r), not the norm' % (e['name'], inner))
        return None
    return res


def _polar_decomposition(rep, prog, rot, L, angles, pm):
    """find (theta, phi) locals that are the polar angles of the reference particle's momentum"""
    def angle_def(i, fnames):
        """('plain', call) for `double a = f(...)` never re-assigned; ('guarded', call, if-node, default) for
        `double a = <literal>; if (c) { a = f(...); }` (one assignment, then-arm of an if without else)"""
        d = L.decl[i]
        asg = L.assigns.get(i, [])
        init = astu.strip_casts(d['init']) if 'init' in d else None
        if init is not None and init.get('k') == 'Call' and init['callee']['qn'] in fnames and not asg:
            return ('plain', d['init'])
        if init is not None and astu.num_value(init) is not None and len(asg) == 1 and asg[0]['op'] == '=':
            b = astu.strip_casts(asg[0]['b'])
            if b.get('k') == 'Call' and b['callee']['qn'] in fnames:
                x = asg[0]
                while id(x) in pm and pm[id(x)]['k'] in ('Expr', 'Compound', 'Paren'):
                    x = pm[id(x)]
                    if id(x) in pm and pm[id(x)]['k'] == 'If':
                        par = pm[id(x)]
                        if x is par.get('t') and not par.get('e'):
                            return ('guarded', asg[0]['b'], par, astu.num_value(init))
                        return None
        return None
    thd = {n: angle_def(i, ('acos', 'std::acos')) for n, i in angles.items()}
    phd = {n: angle_def(i, ('atan2', 'std::atan2')) for n, i in angles.items()}
    th = [n for n, d in thd.items() if d]
    ph = [n for n, d in phd.items() if d]
    if len(th) != 1 or len(ph) != 1:
        rep.cannot_decide('ROTATION', where(rot), 'target:reference-angles: the polar angles of the reference momentum are not each '
                          'defined by one acos(...) / atan2(...) (plainly, or under one `if` with a literal default); found %s / %s' % (th, ph))
        return None
    tdef, pdef = thd[th[0]], phd[ph[0]]
    tv, pv = dict(L.decl[angles[th[0]]]), dict(L.decl[angles[ph[0]]])
    tv['init'], pv['init'] = tdef[1], pdef[1]
    guard = None
    if tdef[0] == 'guarded' or pdef[0] == 'guarded':
        if tdef[0] != pdef[0] or tdef[2] is not pdef[2]:
            rep.cannot_decide('ROTATION', where(rot, tv.get('l')), 'target:reference-angles: the two angles are not computed under '
                              'the same condition')
            return None
        guard = (tdef[2], tdef[3], pdef[3])
    refs = set()

    def comp_of(e):
        # ref_momentum.x where ref_momentum = make_vector3(R.get_px(), R.get_py(), R.get_pz())
        if e['k'] == 'Member' and e.get('base', {}).get('k') == 'Ref' and e['name'] in ('x', 'y', 'z'):
            v = L.decl.get(e['base']['id'])
            if v is None or 'init' not in v or L.assigns.get(e['base']['id']):
                return None
            i = astu.strip_casts(v['init'])
            if i['k'] == 'Call' and i['callee']['qn'] == 'bxdecay0::make_vector3' and len(i['args']) == 3:
                a = astu.strip_casts(i['args']['xyz'.index(e['name'])])
                if a['k'] == 'MCall' and a['callee']['qn'] == 'bxdecay0::particle::get_p' + e['name']:
                    refs.add(astu.src(a['obj']))
                    return e['name']
        return None
    res = _mag_resolver(prog, rot, L, comp_of)
    ok, why = _spherical(prog, rot, tv['init'], pv['init'], lambda e: _FieldAlg(prog, resolver=res).ex(rot, e, {}, 0))
    # the reference particle is grab_particles()[ref_particle_index]
    okref = False
    detail = why
    if ok and len(refs) == 1:
        name = refs.pop()
        rv = [v for v in L.decl.values() if v.get('name') == name]
        if rv and 'init' in rv[0]:
            i = astu.strip_casts(rv[0]['init'])
            okref = i['k'] == 'OpCall' and i.get('op') == '[]' and _is_target_index(L, i['args'][1])
            if not okref:
                detail = 'reference particle is %s' % astu.src(i)
    rep.add('ROTATION', 'target:reference-angles', where(rot, tv.get('l')), '(%s, %s) are the polar angles acos(pz/|p|), '
            'atan2(py, px) of the momentum of particle [ref_particle_index]' % (th[0], ph[0]), ok and okref, detail)
    if guard is not None and ok and okref:
        # the default arm claims: the momentum points along (sin t0 cos f0, sin t0 sin f0, cos t0); for t0 = 0 that is +z, which
        # the negated condition must establish - in particular the sign of the z component
        ifn, t0, f0 = guard

        def disj(c):
            c = astu.strip_casts(c)
            if c['k'] == 'Paren':
                return disj(c['e'])
            if c['k'] == 'Bin' and c['op'] == '||':
                return disj(c['a']) + disj(c['b'])
            return [c]

        def tests_negative_z(c):
            if c['k'] != 'Bin' or c['op'] not in ('<', '<=', '>', '>='):
                return False
            a, b = astu.strip_casts(c['a']), astu.strip_casts(c['b'])
            if c['op'] in ('>', '>='):
                a, b = b, a
            try:
                va = _FieldAlg(prog, resolver=res).ex(rot, a, {}, 0)
            except AnalysisBroken:
                return False
            nb = astu.num_value(b)
            return va == Poly.sym('vz') and nb is not None and nb <= 0
        okd = t0 == 0 and any(tests_negative_z(c) for c in disj(ifn['c']))
        rep.add('ROTATION', 'target:reference-angles:default', where(rot, ifn.get('l')),
                'when `%s` is false the angles stay at (%s, %s), i.e. the reference momentum is taken to point along +z: the '
                'condition must send a momentum along -z to the computed branch' % (astu.src(ifn['c']), t0, f0), okd,
                None if okd else ['no disjunct of the condition tests the sign of the z component: a target momentum exactly '
                                  'antiparallel to z keeps theta = 0 (instead of pi), is not brought onto the axis first, and ends '
                                  'far outside the cone'])
        if not okd:
            return None
    return (th[0], ph[0]) if ok and okref else None


def _is_target_index(L, e):
    """e is the local assigned from `*<set>.begin()` (the single forced position)"""
    e = astu.strip_casts(e)
    if e['k'] != 'Ref' or e.get('dk') != 'local':
        return False
    asg = L.assigns.get(e['id'], [])
    return len(asg) == 1 and astu.src(astu.strip_casts(asg[0]['b'])).startswith('*') and astu.src(astu.strip_casts(asg[0]['b'])).endswith('.begin()')


def _update_internals(rep, prog):
    ui = prog.fn(MDL + '::_update_internals_')
    L = Locals(ui)
    asg = {}
    for n in astu.walk(ui['body']):
        if n['k'] == 'Bin' and n['op'] == '=' and astu.is_this_member(n['a']):
            asg.setdefault(n['a']['name'], []).append(n['b'])
    if set(asg) != {'_phi_direction_', '_theta_direction_'} or any(len(v) != 1 for v in asg.values()):
        rep.add('ROTATION', 'axis-angles', where(ui), '_update_internals_ assigns _phi_direction_ and _theta_direction_ once', False,
                'assigned: %s' % sorted(asg))
        return

    def comp_of(e):
        if e['k'] == 'Member' and e['name'] in ('x', 'y', 'z') and astu.is_this_member(e.get('base'), '_cone_axis_'):
            return e['name']
        return None
    res = _mag_resolver(prog, ui, L, comp_of)
    ok, why = _spherical(prog, ui, asg['_theta_direction_'][0], asg['_phi_direction_'][0],
                         lambda e: _FieldAlg(prog, resolver=res).ex(ui, e, {}, 0))
    rep.add('ROTATION', 'axis-angles', where(ui), '(_theta_direction_, _phi_direction_) are the polar angles acos(z/|a|), '
            'atan2(y, x) of _cone_axis_', ok, why)
    setp = prog.fn(MDL + '::_set_')
    F = cppflow.Flow(setp)
    upd = [n for n, name, a in F.call_nodes(lambda s: s.endswith('_update_internals_'))]
    axis = [n for n in F.nodes(kind='assign') if '_cone_axis_' in cppflow.fmt(n.stmt[1])]
    rep.add('ROTATION', 'axis-angles-current', where(setp), '_set_ recomputes the axis angles after storing the axis',
            bool(upd) and bool(axis) and all(F.dominates(a, upd[0]) for a in axis))
    writers = []
    for key, fn in prog.functions.items():
        if fn.get('cls') == MDL and fn['name'] not in ('_set_', 'reset', '_update_internals_', 'momentum_direction_lock_event_op'):
            for n in astu.walk(fn['body']):
                if n['k'] in ('Bin',) and n['op'] in statics.ASSIGN_OPS:
                    r = astu.root_of(n['a'])
                    if r is not None and r['name'] in ('_cone_axis_', '_phi_direction_', '_theta_direction_', '_cone_angle_',
                                                       '_cone_angle2_'):
                        writers.append('%s writes %s' % (fn['name'], r['name']))
    rep.add('ROTATION', 'axis-single-writer', where(setp), 'only _set_ / reset / _update_internals_ write the axis, its angles '
            'and the apertures', not writers, '; '.join(writers) or None)


def _theta_source(rep, rot, L, theta_id, mode, pm):
    """thetaC = acos(cosThetaC), cosThetaC = m + (1 - m) * u, m = cos(aperture_angle)"""
    asg = L.assigns.get(theta_id, [])
    d = L.decl[theta_id]
    defs = ([d['init']] if 'init' in d else []) + [a['b'] for a in asg]
    ok, why = False, None
    if len(defs) == 1:
        e = astu.strip_casts(defs[0])
        if e['k'] == 'Call' and e['callee']['qn'] in ('acos', 'std::acos'):
            draws = []

            def res(x):
                x = astu.strip_casts(x)
                if x['k'] == 'OpCall' and x.get('op') == '()' and x['callee']['qn'].endswith('i_random::operator()'):
                    draws.append(x)
                    return Poly.sym('u%d' % len(draws))
                if x['k'] == 'Ref' and x.get('dk') in ('local', 'static_local'):     # (a static local is C07/C12's business)
                    v = L.decl.get(x['id'])
                    if v is not None and 'init' in v and not L.assigns.get(x['id']):
                        i = astu.strip_casts(v['init'])
                        if i['k'] == 'Call' and i['callee']['qn'] in ('cos', 'std::cos'):
                            return Poly.sym('m:' + astu.src(i['args'][0]))
                        return _FieldAlg(None, resolver=res).ex(rot, v['init'], {}, 0)
                return None
            try:
                c = _FieldAlg(None, resolver=res).ex(rot, e['args'][0], {}, 0)
                ms = [s for s in c.symbols() if s.startswith('m:')]
                if len(ms) == 1 and len(draws) == 1:
                    m, u = Poly.sym(ms[0]), Poly.sym('u1')
                    ok = c == m + u - m * u
                    why = None if ok else 'cos(thetaC) = %r' % c
                    src_angle = ms[0][2:]
                else:
                    why = 'cos(thetaC) = %r' % c
            except AnalysisBroken as ex:
                rep.cannot_decide('SAMPLING', where(rot, d.get('l')), mode + ':within-cone: ' + str(ex))
                return
    else:
        why = '%d definitions of the polar angle' % len(defs)
    rep.add('SAMPLING', mode + ':within-cone', where(rot, d.get('l')), 'cos(thetaC) = m + (1 - m) u with m = cos(cone bound) '
            'and u one deviate: thetaC <= cone bound for every u in [0, 1]', ok, why)


def _sampling(rep, prog, rot, pm):
    L = Locals(rot)
    def draws_in(n):
        return any(x['k'] == 'OpCall' and x.get('op') == '()' and x['callee']['qn'].endswith('i_random::operator()') for x in astu.walk(n))
    # the sampling loops: innermost loops (of any form) whose body draws deviates
    loops_ = [n for n in astu.walk(rot['body']) if n['k'] in ('While', 'For', 'Do') and draws_in(n['body'])]
    whiles = [n for n in loops_ if not any(m is not n and m in loops_ for m in astu.walk(n['body']))]
    if len(whiles) != 2:
        raise AnalysisBroken('expected 2 sampling loops in _rotate_event_, found %d' % len(whiles))
    # aperture bound and window limits, by role (through locals and cached data members)
    R = _Resolver(prog, rot, L, pm)
    bounds = set()
    for w in whiles:
        phin, cthn = _sampling_roles(w)
        for n in astu.walk(w['body']):
            if n['k'] == 'Decl':
                for v in n['vars']:
                    i = astu.strip_casts(v['init']) if 'init' in v else None
                    if i is not None and i['k'] == 'Call' and i['callee']['qn'] in ('cos', 'std::cos') and \
                            astu.strip_casts(i['args'][0])['k'] in ('Ref', 'Member') and astu.src(i['args'][0]) != phin:
                        bounds.add(astu.src(i['args'][0]))
                        bnode = astu.strip_casts(i['args'][0])
    if len(bounds) != 1:
        raise AnalysisBroken('cone bound cos(<aperture>) not found in the sampling loops: %s' % sorted(bounds))
    ds = R.defs(bnode)
    plain = [d for d, g in ds if astu.src(astu.strip_casts(d)) == '_cone_angle_']
    corner = [(d, g) for d, g in ds if astu.src(astu.strip_casts(d)) != '_cone_angle_']
    okA = len(plain) == 1 and len(corner) == 1
    detail = None
    if okA:
        e, g = corner[0]
        e = astu.strip_casts(e)
        okA = e['k'] == 'Call' and e['callee']['qn'] in ('atan2', 'std::atan2') and astu.num_value(astu.strip_casts(e['args'][1])) == 1 \
            and any('_cone_angle2_' in x and 'isnormal' in x for x in g)
        unresolved = False
        if okA:
            h = R.call_form(e['args'][0], ('hypot', 'std::hypot'))
            if h is None and astu.strip_casts(e['args'][0])['k'] == 'Ref' and \
                    L.decl.get(astu.strip_casts(e['args'][0]).get('id')) is None:
                unresolved = True        # the argument is a local of another function (the cache is filled elsewhere)
            okA = h is not None and sorted(R.tan_of(x) or '?' for x in h['args']) == ['_cone_angle2_', '_cone_angle_']
        if not okA:
            detail = astu.src(e)
        if unresolved:
            rep.cannot_decide('SAMPLING', where(rot, bnode.get('l')), 'window:enclosing-cone: the cone bound is `%s` computed in another '
                              'function; its argument is not followed there' % astu.src(e))
            okA = None
    else:
        detail = 'definitions: %s' % [astu.src(d) for d, g in ds]
    if okA is not None:
        rep.add('SAMPLING', 'window:enclosing-cone', where(rot, bnode.get('l')), 'the cone bound %s is _cone_angle_, or '
                'atan2(hypot(tan _cone_angle_, tan _cone_angle2_), 1) (the corner of the window) when a window is given' % bounds.pop(),
                okA, detail)
    for w, mode in zip(whiles, ('target', 'selection')):
        _acceptance(rep, rot, L, R, w, mode)
    for m, (srcs, missing) in sorted(R.stale.items()):
        rep.add('SAMPLING', 'cache:' + m, where(rot), 'the cached data member %s (derived from %s) is refreshed or invalidated by every '
                'function that writes its sources' % (m, sorted(srcs)), not missing,
                '; '.join('%s writes %s but not %s' % (f, sorted(w_), m) for f, w_ in missing) or None)


SOURCES = ('_cone_angle_', '_cone_angle2_')


class _Resolver:
    """definitions of a local or of a derived data member of the operation, with the guards of each definition"""
    def __init__(self, prog, fn, L, pm):
        self.prog, self.fn, self.L, self.pm = prog, fn, L, pm
        self.stale = {}
        self.member_writes = {}         # member -> [(function, assignment node, parent map)]
        for key, f in prog.functions.items():
            if f.get('cls') == MDL:
                fpm = None
                for n in astu.walk(f['body']):
                    if n['k'] == 'Bin' and n['op'] in statics.ASSIGN_OPS and astu.is_this_member(n['a']):
                        fpm = fpm or parent_map(f['body'])
                        self.member_writes.setdefault(n['a']['name'], []).append((f, n, fpm))

    @staticmethod
    def sentinel(e):
        e = astu.strip_casts(e)
        v = astu.num_value(e)
        return (v is not None and v < 0) or astu.src(e).endswith('quiet_NaN()')

    def guards(self, node, pm):
        out = []
        x = node
        while id(x) in pm:
            par = pm[id(x)]
            if par['k'] == 'If' and x is par.get('t'):
                txt_ = astu.src(par['c'])
                # a never-reassigned bool local stands for its initialiser (`const bool rectangular_cut = std::isnormal(_cone_angle2_)`)
                for r_ in astu.walk(par['c']):
                    if r_['k'] == 'Ref' and r_.get('dk') == 'local':
                        d_ = self.L.decl.get(r_.get('id'))
                        if d_ is not None and 'init' in d_ and d_.get('ty', '').replace('const ', '').strip() == 'bool' \
                                and not self.L.assigns.get(r_.get('id')):
                            txt_ += ' /* %s = %s */' % (r_['name'], astu.src(d_['init']))
                out.append(txt_)
            x = par
        return out

    def defs(self, e):
        """[(defining expression, guards)] skipping sentinel values"""
        e = astu.strip_casts(e)
        out = []
        if e['k'] == 'Ref' and e.get('dk') == 'local':
            v = self.L.decl.get(e['id'])
            if v is not None and 'init' in v and not self.sentinel(v['init']):
                out.append((v['init'], []))
            for a in self.L.assigns.get(e['id'], []):
                if not self.sentinel(a['b']):
                    out.append((a['b'], self.guards(a, self.pm)))
        elif astu.is_this_member(e) and e['name'] not in SOURCES:
            m = e['name']
            ws = self.member_writes.get(m, [])
            srcs = set()
            for f, a, fpm in ws:
                if not self.sentinel(a['b']):
                    out.append((a['b'], self.guards(a, fpm)))
                    srcs |= self._sources(a['b'], f)
            # staleness: every function that writes a source must also write the cached member - itself or through a member
            # function it calls (`_update_aperture_()` called by reset() and _set_())
            missing = []
            writers_of_m = {f['qn'] + str(f['l']) for f, a, fpm in ws}
            grew = True
            while grew:
                grew = False
                for key2, f2 in self.prog.functions.items():
                    if f2.get('cls') != MDL or f2['qn'] + str(f2['l']) in writers_of_m:
                        continue
                    for c_ in astu.calls(f2['body']):
                        if c_['callee'].get('cls') == MDL and any(f3['qn'] + str(f3['l']) in writers_of_m
                                                                    for f3 in self.prog.fns(c_['callee']['qn'])):
                            writers_of_m.add(f2['qn'] + str(f2['l']))
                            grew = True
                            break
            for s_ in srcs:
                for f, a, fpm in self.member_writes.get(s_, []):
                    if f['qn'] + str(f['l']) not in writers_of_m and (f['name'], (s_,)) not in [(x, tuple(y)) for x, y in missing]:
                        missing.append((f['name'], [s_]))
            self.stale[m] = (srcs, missing)
        # single pass-through: a definition that is itself a plain local/member is followed
        res = []
        for d, g in out:
            dd = astu.strip_casts(d)
            if (dd['k'] == 'Ref' and dd.get('dk') == 'local') or (astu.is_this_member(dd) and dd['name'] not in SOURCES):
                res.extend((x, g + g2) for x, g2 in self.defs(dd))
            else:
                res.append((d, g))
        return res

    def _sources(self, e, f):
        out = set()
        for x in astu.walk(e):
            if astu.is_this_member(x):
                if x['name'] in SOURCES:
                    out.add(x['name'])
                else:
                    for f2, a, fpm in self.member_writes.get(x['name'], []):
                        if not self.sentinel(a['b']) and a['b'] is not e:
                            out |= self._sources(a['b'], f2)
        return out

    def call_form(self, e, names):
        """e, or its single definition, as a call of one of `names`"""
        e = astu.strip_casts(e)
        if e['k'] == 'Call' and e['callee']['qn'] in names:
            return e
        ds = self.defs(e) if e['k'] in ('Ref', 'Member') else []
        if len(ds) == 1:
            d = astu.strip_casts(ds[0][0])
            if d['k'] == 'Call' and d['callee']['qn'] in names:
                return d
        return None

    def tan_of(self, e):
        """name of the source member S when e is (defined as) tan(S)"""
        c = self.call_form(e, ('tan', 'std::tan'))
        if c is None:
            return None
        a = astu.strip_casts(c['args'][0])
        return a['name'] if astu.is_this_member(a) and a['name'] in SOURCES else None


def _sampling_roles(w):
    """(name of the azimuth local, name of the cos(theta) local) of one sampling loop: the two locals whose right-hand side holds a
    deviate; the azimuth is the one scaled by pi"""
    phi = cth = None
    for n in astu.walk(w['body']):
        pairs = []
        if n['k'] == 'Decl':
            pairs = [(v['name'], v['init']) for v in n['vars'] if 'init' in v]
        elif n['k'] == 'Bin' and n['op'] == '=' and astu.strip_casts(n['a'])['k'] == 'Ref':
            pairs = [(astu.strip_casts(n['a'])['name'], n['b'])]
        for name, rhs in pairs:
            has_draw = any(x['k'] == 'OpCall' and x.get('op') == '()' and x['callee']['qn'].endswith('i_random::operator()') for x in astu.walk(rhs))
            if not has_draw:
                continue
            has_pi = any(x['k'] == 'Num' and (x.get('macro') == 'M_PI' or str(x.get('v', '')).startswith('3.14159')) for x in astu.walk(rhs))
            if has_pi:
                phi = name
            else:
                cth = name
    if phi is None or cth is None:
        raise AnalysisBroken('sampling loop at line %s: azimuth / cos(theta) deviates not recognised' % w.get('l'))
    return phi, cth


def _conjuncts(c):
    c = astu.strip_casts(c)
    if c['k'] == 'Paren':
        return _conjuncts(c['e'])
    if c['k'] == 'Bin' and c['op'] == '&&':
        return _conjuncts(c['a']) + _conjuncts(c['b'])
    return [c]


def _tangent_plane(rot, w, L):
    """final values of x and y inside the sampling loop as polynomials of cos(thetaC) (k), cos/sin phiC"""
    env = {}
    phin, cthn = _sampling_roles(w)

    def res(e):
        e = astu.strip_casts(e)
        if e['k'] == 'Ref' and e.get('dk') == 'local':
            if e['name'] in env:
                return env[e['name']]
            if e['name'] == cthn:
                return Poly.sym('k')
            if e['name'] == phin:
                return Poly.sym('phiC')
        if e['k'] == 'Call' and e['callee']['qn'] in ('sqrt', 'std::sqrt'):
            inner = fa.ex(rot, e['args'][0], {}, 0)
            if inner == Poly.const(1) - _sq('k'):
                return Poly.sym('S')           # sin(thetaC) >= 0
            raise AnalysisBroken('sqrt(%r) is not sin(thetaC)' % inner)
        if e['k'] == 'Bin' and e['op'] == '/' and astu.num_value(astu.strip_casts(e['a'])) == 1 and astu.src(e['b']) == cthn:
            return Poly.sym('1/k')
        return None
    fa = _FieldAlg(None, resolver=res)
    blk = None
    for n in astu.walk(w['body']):
        if n['k'] == 'If' and 'isnormal' in astu.src(n['c']):
            blk = n['t']
            break
    if blk is None:
        return False, 'window block not found'
    try:
        for s in blk['s']:
            if s['k'] == 'Decl':
                for v in s['vars']:
                    env[v['name']] = fa.ex(rot, v['init'], {}, 0)
            elif s['k'] == 'Expr' and s['e']['k'] == 'Bin' and s['e']['op'] in ('=', '*=') and s['e']['a']['k'] == 'Ref':
                val = fa.ex(rot, s['e']['b'], {}, 0)
                nm = s['e']['a']['name']
                env[nm] = val if s['e']['op'] == '=' else env[nm] * val
            elif s['k'] == 'If':
                break
            else:
                return False, 'unexpected statement at line %s' % s.get('l')
    except AnalysisBroken as ex:
        return False, str(ex)
    t = Poly.sym('1/k') * Poly.sym('S')
    ok = env.get('x') == t * Poly.sym('c:phiC') and env.get('y') == t * Poly.sym('s:phiC')
    return ok, None if ok else 'x = %r, y = %r' % (env.get('x'), env.get('y'))


def _norm(body):
    """statement list of a loop body as source-like strings (locals keep their names: the two blocks use the same)"""
    out = []

    def st(s, ind):
        k = s['k']
        if k == 'Compound':
            for c in s['s']:
                st(c, ind)
        elif k == 'Decl':
            for v in s['vars']:
                out.append('%sdecl %s %s = %s' % (ind, v.get('ty'), v['name'], astu.src(v.get('init'))))
        elif k == 'Expr':
            out.append(ind + astu.src(s['e']))
        elif k == 'If':
            out.append('%sif %s' % (ind, astu.src(s['c'])))
            st(s['t'], ind + '  ')
            if s.get('e'):
                out.append(ind + 'else')
                st(s['e'], ind + '  ')
        elif k in ('Break', 'Continue', 'Null'):
            out.append(ind + k.lower())
        else:
            out.append('%s<%s>' % (ind, k))
            for c in astu.children(s):
                st(c, ind + '  ')
    st(body, '')
    return [o for o in out if 'std::cerr' not in o and 'operator<<' not in o]


def _first_diff(a, b):
    for i, (x, y) in enumerate(zip(a, b)):
        if x != y:
            return 'statement %d: `%s` vs `%s`' % (i + 1, x.strip(), y.strip())
    return 'lengths %d vs %d' % (len(a), len(b))


def _selection(rep, prog, rot, pm):
    """Roles are discovered from the structure, not from the names of the locals:
       S   the std::set<int> local that receives insert() calls          (forced_particles)
       P   the variable inserted                                          (pIndex)
       SEL the bool declared false inside the loop body                   (selected)
       RK  the int compared with _rank_ on the way to an insert           (pSelectedRank)
       N   a local initialised from S.size(), if any                      (fpsize)
       REF the int assigned from *S.begin()                               (ref_particle_index)"""
    import re
    L = Locals(rot)
    ins = [c for c in astu.calls(rot['body']) if c['k'] == 'MCall' and c['callee']['qn'].endswith('::insert')
           and 'std::set<int' in c['callee']['qn'] and astu.strip_casts(c['obj'])['k'] == 'Ref']
    if len(ins) < 2 or len({astu.strip_casts(c['obj'])['id'] for c in ins}) != 1:
        raise AnalysisBroken('selection: expected >= 2 insert sites into one std::set<int> local, found %d' % len(ins))
    S = astu.strip_casts(ins[0]['obj'])
    loop = _enclosing(pm, ins[0], 'ForRange')
    if loop is None or any(_enclosing(pm, i, 'ForRange') is not loop for i in ins):
        raise AnalysisBroken('selection: the insert sites are not in one range-for')
    okrange = astu.src(loop['range']) == 'event_.grab_particles()' or \
        astu.src(loop['range']).endswith(('.grab_particles()', '.get_particles()'))
    part = loop['var']['name']
    names = {S['name']: 'S'}
    args = [astu.strip_casts(i['args'][0]) for i in ins]
    P = args[0] if all(a['k'] == 'Ref' and a.get('dk') == 'local' and a.get('id') == args[0].get('id') for a in args) else None
    if P is not None:
        names[P['name']] = 'P'
    sel = [v for v in L.decl.values() if v.get('ty') == 'bool' and _within(loop, v) and astu.src(v.get('init')) == 'false']
    SEL = sel[0] if len(sel) == 1 else None
    if SEL is not None:
        names[SEL['name']] = 'SEL'
    N = [v for v in L.decl.values() if 'init' in v and astu.src(astu.strip_casts(v['init'])) == S['name'] + '.size()' and not L.assigns.get(v['id'])]
    if N:
        names[N[0]['name']] = 'N'
    REFv = [v for v in L.decl.values() if any(astu.src(astu.strip_casts(a['b'])) == '*%s.begin()' % S['name'] for a in L.assigns.get(v['id'], []))]
    REF = REFv[0] if len(REFv) == 1 else None
    if REF is not None:
        names[REF['name']] = 'REF'
    RK = None
    for i in ins:
        x = i
        while id(x) in pm and pm[id(x)] is not loop:
            par = pm[id(x)]
            if par['k'] == 'If' and x is par.get('t'):
                for t in _conjuncts(par['c']):
                    t = astu.strip_casts(t)
                    if t['k'] == 'Bin' and t['op'] == '==' and {astu.src(astu.strip_casts(t['a'])), astu.src(astu.strip_casts(t['b']))} >= {'_rank_'}:
                        o = [y for y in (astu.strip_casts(t['a']), astu.strip_casts(t['b'])) if astu.src(y) != '_rank_']
                        if o and o[0]['k'] == 'Ref' and o[0].get('dk') == 'local':
                            RK = o[0]
            x = par
    if RK is not None:
        names[RK['name']] = 'RK'

    def canon(e):
        t = astu.src(e) if isinstance(e, dict) else e
        for k, v in names.items():
            t = re.sub(r'(?<![A-Za-z0-9_])%s(?![A-Za-z0-9_])' % re.escape(k), v, t)
        return t.replace('S.size()', 'N')
    mut = [c for c in astu.calls(rot['body']) if c['k'] == 'MCall' and astu.strip_casts(c['obj']).get('id') == S['id'] and
           not c['callee'].get('const')]
    rep.add('SELECTION', 'forced-set:writers', where(rot, loop.get('l')), 'the set of forced positions is filled only by the %d insert calls of '
            'the selection loop over the particles of the event' % len(ins), okrange and len(mut) == len(ins))
    bad = []
    for i in ins:
        if P is None:
            bad.append('line %s: the inserts do not add one and the same local' % i.get('l'))
            break
        gs = []
        x = i
        while id(x) in pm and pm[id(x)] is not loop:
            par = pm[id(x)]
            if par['k'] == 'If' and x is par.get('t'):
                gs.append(canon(par['c']))
            x = par
        if 'SEL' not in gs:
            bad.append('line %s is not under the `selected` flag' % i.get('l'))
    rep.add('SELECTION', 'forced-set:guard', where(rot, ins[0].get('l')), 'every insert adds the position counter under the flag that is set by the '
            'species test', not bad and SEL is not None, '; '.join(bad) or None)
    oksel = False
    detail = None
    if SEL is not None:
        asg = L.assigns.get(SEL['id'], [])
        if len(asg) == 1 and astu.src(asg[0]['b']) == 'true':
            g = _enclosing(pm, asg[0], 'If')
            oksel = g is not None and _species_test(g['c'], part)
            detail = None if oksel else (astu.src(g['c']) if g else None)
    rep.add('SELECTION', 'species-test', where(rot, loop.get('l')), 'a particle is selected iff no species is requested or its '
            'code equals the requested one', oksel, detail)
    okidx = False
    if P is not None:
        pv = L.decl.get(P['id'])
        if pv is not None and astu.num_value(pv.get('init')) == 0 and not _within(loop, pv):
            top = loop['body']['s'] if loop['body']['k'] == 'Compound' else [loop['body']]
            incs = [s_ for s_ in top if s_['k'] == 'Expr' and s_['e']['k'] == 'Un' and s_['e']['op'] == '++' and
                    astu.strip_casts(s_['e']['e']).get('id') == P['id']]
            allw = [n for r, how, n in statics.written_refs(rot['body']) if r.get('id') == P['id']]
            okidx = len(incs) == 1 and top[-1] is incs[0] and len(allw) == 1 and \
                not any(x['k'] == 'Continue' for x in astu.walk(loop['body']))
    rep.add('SELECTION', 'index-counter', where(rot, loop.get('l')), 'the inserted counter starts at 0 and is incremented once at the end of every '
            'iteration: it is the position of the current particle', okidx)
    okrank = False
    if RK is not None:
        rv = L.decl.get(RK['id'])
        allw = [n for r, how, n in statics.written_refs(rot['body']) if r.get('id') == RK['id']]
        if rv is not None and astu.num_value(rv.get('init')) == 0 and len(allw) == 1 and allw[0]['k'] == 'Un':
            g = _enclosing(pm, allw[0], 'If')
            ranked = [i for i in ins if any('RK == _rank_' in canon(pm[id(x)]['c']).replace('(', '').replace(')', '') or
                                             '_rank_ == RK' in canon(pm[id(x)]['c']).replace('(', '').replace(')', '')
                                             for x in [_climb_to_if(pm, i, loop, RK['name'])] if x is not None)]
            okrank = g is not None and canon(g['c']) == 'SEL' and len(ranked) == 1 and allw[0].get('l', 0) > ranked[0].get('l', 0)
    rep.add('SELECTION', 'rank-counter', where(rot, loop.get('l')), 'a counter of the selected particles seen so far is compared with _rank_; the '
            'particle is forced when they are equal (and then counted)', okrank)
    sites = [c for c in astu.calls(rot['body'], 'bxdecay0::particle::set_momentum')]
    for s_ in sites:
        gs = []
        x = s_
        while id(x) in pm:
            par = pm[id(x)]
            if par['k'] == 'If' and x is par.get('t'):
                gs.append(canon(par['c']))
            x = par
        outer = gs[-1] if gs else ''
        target = 'REF' in outer
        want = ('_rank_ >= 0', 'REF >= 0') if target else ('_rank_ < 0', 'N > 0')
        rep.add('SELECTION', 'guard:' + ('target' if target else 'selection'), where(rot, s_.get('l')),
                'the mutation block runs only under %s and %s' % (('a rank was requested', 'a target was found') if target else
                                                                    ('no rank was requested', 'something was selected')),
                all(w in outer for w in want), outer)
    thr = [n for n in astu.walk(rot['body']) if n['k'] == 'Throw']
    okt = len(thr) == 1
    if okt:
        gs = []
        x = thr[0]
        while id(x) in pm:
            par = pm[id(x)]
            if par['k'] == 'If' and x is not par.get('c'):
                if not (x is par.get('t')):
                    okt = False
                gs.append(canon(par['c']))
            x = par
        flat = ' && '.join(gs)
        okt = okt and '_error_on_missing_particle_' in flat and ('N == 0' in flat or 'S.empty()' in flat)
    rep.add('SELECTION', 'error-on-missing', where(rot, thr[0].get('l') if thr else None), 'the only throw is under "nothing selected" and '
            '`_error_on_missing_particle_`', okt)
    okr = False
    if REF is not None and astu.num_value(REF.get('init')) == -1:
        asg = L.assigns.get(REF['id'], [])
        if len(asg) == 1:
            g = _enclosing(pm, asg[0], 'If')
            okr = g is not None and '_rank_ >= 0' in canon(g['c']) and 'N == 1' in canon(g['c'])
    rep.add('SELECTION', 'target-index', where(rot, REF.get('l') if REF else None), 'the target index is the single forced position '
            '(rank mode, exactly one element in the set), -1 otherwise', okr)
    lt = [n for n in astu.walk(rot['body']) if n['k'] == 'Bin' and n['op'] == '=' and astu.is_this_member(n['a'], '_last_target_index_')]
    vals = sorted(canon(n['b']) for n in lt)
    rep.add('SELECTION', 'last-target-index', where(rot), '_last_target_index_ is reset to -1 on entry and set to the target index '
            'after the rigid rotation', vals == ['-1', 'REF'] and lt[0].get('l') < lt[1].get('l') and
            _enclosing(pm, [n for n in lt if astu.src(n['b']) != '-1'][0], 'If') is not None, str(vals))
    return REF


def _climb_to_if(pm, node, stop, rkname='pSelectedRank'):
    x = node
    while id(x) in pm and pm[id(x)] is not stop:
        par = pm[id(x)]
        if par['k'] == 'If' and rkname in astu.src(par['c']):
            return x
        x = par
    return None


def _species_test(c, part):
    """truth table of the condition over (code requested?, particle code equal?) must be: not requested -> true;
    requested -> equal"""
    def ev(e, req, eq):
        e = astu.strip_casts(e)
        if e['k'] == 'Paren':
            return ev(e['e'], req, eq)
        if e['k'] == 'Bin' and e['op'] in ('||', '&&'):
            a, b = ev(e['a'], req, eq), ev(e['b'], req, eq)
            if a is None or b is None:
                return None
            return (a or b) if e['op'] == '||' else (a and b)
        if e['k'] == 'Un' and e['op'] == '!':
            v = ev(e['e'], req, eq)
            return None if v is None else not v
        if e['k'] == 'Bin' and e['op'] in ('==', '!='):
            s = {astu.src(astu.strip_casts(e['a'])), astu.src(astu.strip_casts(e['b']))}
            if s == {'_code_', 'INVALID_PARTICLE'}:
                v = not req
            elif s == {'_code_', part + '.get_code()'}:
                v = eq
            else:
                return None
            return v if e['op'] == '==' else not v
        return None
    for req in (False, True):
        for eq in (False, True):
            if not req and eq:
                continue      # a real particle never has the INVALID code: row not constrained
            v = ev(c, req, eq)
            if v is None or v != ((not req) or eq):
                return False
    return True


def _acceptance(rep, rot, L, R, w, mode):
    """SAMPLING acceptance: the rejection loop is left exactly when no window is given or the sampled point lies inside it.
    Decided on the leave-formula of the loop (rules/loopsem.py), whatever the loop form (while(true)/break, do/while(rejected), ...)"""
    from ..rules import loopsem
    phin, cthn = _sampling_roles(w)
    dbl = {}

    def res(e):
        e = astu.strip_casts(e)
        if e['k'] == 'Ref' and e.get('dk') == 'local':
            if e['name'] in dbl:
                return dbl[e['name']]
            if e['name'] == cthn:
                return Poly.sym('k')
            if e['name'] == phin:
                return Poly.sym('phiC')
        if e['k'] == 'Call' and e['callee']['qn'] in ('sqrt', 'std::sqrt'):
            inner = fa.ex(rot, e['args'][0], {}, 0)
            if inner == Poly.const(1) - _sq('k'):
                return Poly.sym('S')           # sin(thetaC) >= 0
            raise AnalysisBroken('sqrt(%r) is not sin(thetaC)' % inner)
        if e['k'] == 'Bin' and e['op'] == '/' and astu.src(astu.strip_casts(e['b'])) == cthn:
            return fa.ex(rot, e['a'], {}, 0) * Poly.sym('1/k')
        return None
    fa = _FieldAlg(None, resolver=res)
    tplane = Poly.sym('1/k') * Poly.sym('S')
    want = {'x': tplane * Poly.sym('c:phiC'), 'y': tplane * Poly.sym('s:phiC')}

    def on_assign(name, rhs, op, sem):
        if name in (phin, cthn):
            return
        try:
            val = fa.ex(rot, rhs, {}, 0)
            if op == '*=':
                val = dbl[name] * val
            elif op != '=':
                raise AnalysisBroken('compound assignment')
            dbl[name] = val
        except (AnalysisBroken, KeyError):
            dbl.pop(name, None)

    def role(e):
        try:
            v = fa.ex(rot, e, {}, 0)
        except AnalysisBroken:
            return None
        for r, p in want.items():
            if v == p:
                return r
        return None

    def atom_of(e, sem):
        if e['k'] == 'Call' and e['callee']['qn'] in ('std::isnormal', 'isnormal') and \
                astu.is_this_member(astu.strip_casts(e['args'][0]), '_cone_angle2_'):
            return ('atom', 'window given')
        if e['k'] == 'Bin' and e['op'] in ('<', '<=', '>', '>='):
            a, b, op = astu.strip_casts(e['a']), astu.strip_casts(e['b']), e['op']
            def is_abs(x):
                return x['k'] == 'Call' and x['callee']['qn'] in ('std::abs', 'fabs', 'std::fabs', 'abs')
            if is_abs(b) and not is_abs(a):
                a, b = b, a
                op = {'<': '>', '<=': '>=', '>': '<', '>=': '<='}[op]
            if is_abs(a):
                r = role(a['args'][0])
                lim = R.tan_of(b)
                if r is not None and lim is not None:
                    at = ('atom', '|%s| < tan(%s)' % (r, lim))
                    return at if op in ('<', '<=') else loopsem.f_not(at)
        return None

    def decl_of(i):
        d = L.decl.get(i)
        if d is None:
            return None
        d = dict(d)
        d['assigned'] = bool(L.assigns.get(i))
        return d
    pre_bool = {}
    for i_, d_ in L.decl.items():
        if d_.get('ty', '').strip() == 'bool' and 'init' in d_ and d_.get('l', 0) < w.get('l', 0):
            i0 = astu.strip_casts(d_['init'])
            if i0['k'] == 'Bool':
                pre_bool[d_['name']] = bool(i0['v'])
    sem = loopsem.LoopSem(w, decl_of, atom_of, on_assign, pre_bool)
    try:
        leave = sem.run()
    except AnalysisBroken as ex:
        rep.cannot_decide('SAMPLING', where(rot, w.get('l')), mode + ':acceptance: ' + str(ex))
        return
    if sem.opaque and any(a for a in loopsem.atoms(leave) if isinstance(a, str) and a.startswith('opaque:')):
        rep.cannot_decide('SAMPLING', where(rot, w.get('l')), mode + ':acceptance: the loop is left under a condition this rule does '
                          'not interpret: %s' % sorted(set(sem.opaque))[:3])
        return
    inside = loopsem.f_and(('atom', '|x| < tan(_cone_angle_)'), ('atom', '|y| < tan(_cone_angle2_)'))
    expected = loopsem.f_or(loopsem.f_not(('atom', 'window given')), inside)
    ok, cex = loopsem.equivalent_loop(sem, leave, expected, invariant=('window given',))
    rep.add('SAMPLING', mode + ':acceptance', where(rot, w.get('l')),
            'the sampling loop is left exactly when no window is given (_cone_angle2_ not set) or the point (x, y) = tan(thetaC) (cos '
            'phiC, sin phiC) satisfies |x| < tan(_cone_angle_) and |y| < tan(_cone_angle2_): no rejected direction is used, no '
            'accepted one is redrawn', ok,
            None if ok else ['the loop is left when %s' % loopsem.show(leave),
                             'e.g. with %s the loop %s, the window says %s' % (
                                 ', '.join('%s%s' % ('' if v else 'not ', k) for k, v in sorted(cex.items())),
                                 'is left' if loopsem.ev(leave, cex) else 'goes on',
                                 'accept' if loopsem.ev(expected, cex) else 'reject')])
