"""C09 - the configure/initialise/shoot/reset protocol is a faithful state machine (typestate rules)."""
from .. import astu, ir, project
from ..framework import Report, where
from ..project import AnalysisBroken
from ..rules import cppflow, initstate, typestate

GEN = 'bxdecay0::decay0_generator'


def run(tier, seed):
    rep = Report('C09')
    prog = project.load('lib')
    rep.rule('GUARD.setters', 'in every public non-const method other than initialize/reset/set_debug/shoot, every write to a '
             'data member is dominated by the non-throwing arm of `if (is_initialized()) throw`')
    rep.rule('GUARD.entry', 'shoot() throws when not initialised, initialize() throws when already initialised, before '
             'anything else happens')
    rep.rule('ORDER.initialized', '`_initialized_ = true` is written in one place only, after `_init_()` returned')
    rep.rule('CONFIG.complete', 'initialize() refuses an incomplete/invalid configuration (category, isotope, mode, level, '
             'inverted window) before `_init_()` is called')
    rep.rule('RESET.reaches', 'reset() reaches `_reset_()` on every path')
    rep.rule('RESET.complete', 'the reset routine assigns every data member of the object (and of its private '
             'implementation) that any method can change')
    rep.rule('OWNERSHIP.raii', 'no raw `new` result is stored in a member: a failed initialisation cannot leak')
    n = typestate.guard_dominates_writes(rep, prog, GEN, 'GUARD.setters', 'is_initialized',
                                         exempt=('initialize', 'reset', 'set_debug', 'shoot'))
    rep.floor('GUARD.setters', n, 8)
    # entry guards
    for meth, want_not in (('shoot', True), ('initialize', False)):
        fn = prog.fn('%s::%s' % (GEN, meth))
        F = cppflow.Flow(fn)
        gs = [(b, arm) for b, arm in F.throw_guards() if any(nm.endswith('is_initialized') for nm, _ in F.calls_in(b))]
        ok = False
        det = None
        if gs:
            b, arm = gs[0]
            neg = b.stmt[1][0] == 'op' and b.stmt[1][1] == 'not'
            # the throwing arm is the true arm; the condition must be (!)is_initialized() as required
            cond_ok = (neg == want_not) and arm == 0
            effects = [x for x in F.g.nodes if x.kind in ('assign', 'call') and x.id != b.id
                       and not (x.kind == 'call' and x.stmt[1].endswith('is_debug'))]
            ok = cond_ok and all(F.dominates(b, x) or x.id in F.reach(b.succ[arm]) for x in effects)
            if not ok:
                det = ['guard at line %d: %s' % (b.line, ir.fmt(b.stmt[1]))]
        rep.add('GUARD.entry', meth, where(fn, gs[0][0].line if gs else fn['l']),
                '%s() begins with `if (%sis_initialized()) throw`' % (meth, '!' if want_not else ''), ok, det)
    # _initialized_ = true
    setters = []
    for key, fn in prog.functions.items():
        if fn.get('cls') != GEN:
            continue
        for n_ in astu.walk(fn['body']):
            if n_['k'] == 'Bin' and n_['op'] == '=' and n_['a'].get('k') == 'Member' and n_['a'].get('name') == '_initialized_':
                v = n_['b']
                if v.get('k') == 'Bool' and v['v']:
                    setters.append((fn, n_['l']))
    ini = prog.fn(GEN + '::initialize')
    F = cppflow.Flow(ini, helpers=cppflow.private_helpers(prog, ini, exclude=('_init_', '_reset_')))
    call = [x for x in F.nodes(kind='call') if x.stmt[1].endswith('::_init_')]
    st = [x for x in F.nodes(kind='assign') if cppflow.mentions(x.stmt[1], '_initialized_')]
    ok = len(setters) == 1 and setters[0][0]['name'] == 'initialize' and len(call) == 1 and len(st) == 1 and \
        F.dominates(call[0], st[0]) and st[0].id in F.reach(call[0].id)
    rep.add('ORDER.initialized', 'single-site', where(ini, st[0].line if st else ini['l']),
            '`_initialized_ = true` occurs once (%s), after the call of _init_' %
            ', '.join('%s:%d' % (f['name'], l) for f, l in setters), ok)
    # incomplete configuration
    wants = {'category': '_decay_category_', 'isotope': '_decay_isotope_', 'mode': '_decay_dbd_mode_',
             'level': '_decay_dbd_level_', 'window': '_energy_max_'}
    guards = F.throw_guards()
    for what, member in wants.items():
        g = [(b, arm) for b, arm in guards if cppflow.mentions(F.resolve_flags(b.stmt[1]), member)]     # flags stand for their tests
        ok = bool(g) and bool(call) and all(call[0].id not in F.reach(b.succ[arm]) and call[0].id in F.reach(b.id)
                                            for b, arm in g[:1])
        rep.add('CONFIG.complete', what, where(ini, g[0][0].line if g else ini['l']),
                'initialize() throws on an invalid %s before calling _init_' % what, ok)
    # the window the engine will use (float-narrowed values stored in bb_params) is validated, not only the configured doubles
    ii = prog.fn(GEN + '::_init_')
    try:
        FI_ = cppflow.Flow(ii, helpers=cppflow.private_helpers(prog, ii, exclude=('_reset_', '_set_defaults_')))
    except AnalysisBroken:
        FI_ = cppflow.Flow(ii)
    gb = [n for n in FI_.nodes(kind='call') if n.stmt[1] == 'genbbsub']
    g2 = [(b, arm) for b, arm in FI_.throw_guards() if cppflow.mentions(b.stmt[1], 'ebb1') and cppflow.mentions(b.stmt[1], 'ebb2')]
    stores = [n for n in FI_.nodes(kind='assign') if n.stmt[1][0] == 'fld' and n.stmt[1][2] in ('ebb1', 'ebb2')]
    okw = bool(g2) and bool(gb) and all(n.id not in FI_.reach(g2[0][0].succ[g2[0][1]]) for n in gb) and \
        all(FI_.dominates(s_, g2[0][0]) or s_.id not in FI_.reach(g2[0][0].id) and g2[0][0].id in FI_.reach(s_.id) for s_ in stores)
    if not gb and g2:
        rep.cannot_decide('CONFIG.complete', where(ii, g2[0][0].line), 'window:engine-values: the call of genbbsub is not in _init_ itself '
                          '(nor in a private helper expanded as a statement): the order of the window test and the engine call is not followed')
    else:
        rep.add('CONFIG.complete', 'window:engine-values', where(ii, g2[0][0].line if g2 else ii['l']),
                '_init_ throws when the window actually handed to the engine (bb_params.ebb1 >= ebb2, after narrowing) is empty, before genbbsub runs',
                okw)
    # reset reaches _reset_
    rs = prog.fn(GEN + '::reset')
    FR = cppflow.Flow(rs)
    rc = [x for x in FR.nodes(kind='call') if x.stmt[1].endswith('::_reset_')]
    rets = [x for x in FR.g.nodes if x.kind == 'return']
    ok = bool(rc) and all(rc[0].id in FR.dom.get(r.id, ()) for r in rets)
    rep.add('RESET.reaches', 'decay0_generator', where(rs), 'every path of reset() passes through _reset_()', ok,
            None if ok else ['a return of reset() is reachable without calling _reset_()'])
    generator_reset_complete(rep, prog)
    # the clean-up itself cannot throw on a precondition of what it calls
    roots_ = list(prog.fns(GEN + '::_reset_')) + list(prog.fns(GEN + '::reset')) + \
        [f for (qn, _), f in prog.functions.items() if qn.startswith(GEN + '::pimpl_type::~')]
    nnt = typestate.nothrow_calls(rep, prog, roots_, 'RESET.nothrow',
                                  'in reset()/_reset_() and the destructor of the private implementation, every call of a method that begins with '
                                  '`if (!is_initialized()) throw` (or the like) is dominated by the test that excludes that state: a failed or '
                                  'partial initialisation can always be cleaned up')
    rep.floor('RESET.nothrow', nnt, 1)
    typestate.reset_complete(rep, prog, 'bxdecay0::bbpars', 'bxdecay0::bbpars::reset', 'RESET.complete')
    # dbd_gA and MDL operation
    for cls, reset in (('bxdecay0::dbd_gA', 'bxdecay0::dbd_gA::reset'),
                       ('bxdecay0::momentum_direction_lock_event_op', 'bxdecay0::momentum_direction_lock_event_op::reset')):
        # the verbosity flags of the helper classes are logging settings, not generation state
        typestate.reset_complete(rep, prog, cls, reset, 'RESET.complete', ignore=('_pimpl_', '_debug_', 'debug'))
    # raii
    bad = []
    for key, fn in prog.functions.items():
        if fn.get('cls', '').startswith(GEN):
            for n_ in astu.walk(fn['body']):
                if n_['k'] == 'Bin' and n_['op'] == '=' and n_['b'].get('k') == 'New' and n_['a'].get('k') == 'Member':
                    bad.append((fn, n_['l']))
    rep.add('OWNERSHIP.raii', 'decay0_generator', where(prog.records[GEN]), 'no member of decay0_generator receives a raw new-expression',
            not bad, None if not bad else ['raw new stored at %s:%d' % (bad[0][0]['name'], bad[0][1])])
    rep.floor('RESET.complete', sum(1 for i in rep.instances if i.rule == 'RESET.complete'), 40)
    rep.assumptions += ['decided: guards, ordering, refusal of incomplete configurations, reset completeness (write sets)',
                        'not decided: that re-configuring after reset yields the same events as a fresh instance (follows '
                        'structurally from reset completeness + C07, not demonstrated)']
    # a failed or earlier initialisation must leave nothing behind that the next one consults
    initstate.def_before_use(rep, prog)
    return rep

def generator_reset_complete(rep, prog, ignore=()):
    """RESET.complete for decay0_generator and its private implementation (shared with C07)"""
    # reset completeness: generator members and pimpl members
    rec = prog.records[GEN]
    written = {}
    st_ = list(prog.fns(GEN + '::_reset_')) + list(prog.fns(GEN + '::reset'))
    seen = set()
    while st_:
        fn = st_.pop()
        if id(fn) in seen:
            continue
        seen.add(id(fn))
        in_pimpl = fn.get('cls') == GEN + '::pimpl_type'
        for name, line in typestate.member_writes(fn).items():
            # a method of the private implementation writes its own fields: they are the generator's `_pimpl_.<field>`
            written.setdefault(('_pimpl_.' + name) if in_pimpl and not name.startswith('_pimpl_') else name, line)
        for c in astu.calls(fn['body']):
            if c['callee'].get('cls') in (GEN, GEN + '::pimpl_type'):
                st_.extend(prog.fns(c['callee']['qn']))
    for f in rec['fields']:
        if f['name'] in ('_pimpl_',) or f['name'] in ignore:
            continue
        ok = f['name'] in written
        rep.add('RESET.complete', 'decay0_generator::' + f['name'], where({'file': rec['file'], 'l': f['l']}),
                'reset() restores %s' % f['name'], ok,
                None if ok else ['`%s` is changed by a public method but never assigned in _reset_()/_set_defaults_()' % f['name']])
    prec = prog.records.get(GEN + '::pimpl_type')
    if prec is None:
        raise AnalysisBroken('pimpl_type not found')
    # the private implementation may also be replaced as a whole: `_pimpl_.reset(new pimpl_type)` restores every field that has a
    # default member initialiser or is of class type (its own default constructor runs)
    recreated = False
    for fn in list(prog.fns(GEN + '::_reset_')) + list(prog.fns(GEN + '::reset')):
        for c in astu.calls(fn['body']):
            if c['k'] == 'MCall' and c['callee']['qn'].endswith('::reset') and 'unique_ptr' in c['callee']['qn'] and \
                    astu.src(c['obj']).endswith('_pimpl_') and c.get('args') and \
                    any(x['k'] == 'New' and 'pimpl_type' in str(x.get('ty', '')) + str(x.get('init', {}).get('ty', ''))
                        for x in astu.walk(c['args'][0])):
                recreated = True
    scalar = ('int', 'bool', 'double', 'float', 'size_t', 'std::size_t', 'unsigned int', 'long', 'unsigned long', 'char')
    for f in prec['fields']:
        ok = ('_pimpl_.' + f['name']) in written
        if not ok and recreated:
            ok = 'init' in f or (f.get('ty', '').replace('const ', '').strip() not in scalar and not f.get('ty', '').strip().endswith('*'))
        rep.add('RESET.complete', 'pimpl::' + f['name'], where({'file': prec['file'], 'l': f['l']}),
                'reset() restores the private field %s' % f['name'], ok)
