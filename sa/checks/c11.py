"""C11 - stored events read back unchanged; the reader delivers exactly the asked window (decided clauses)."""
import re

from .. import astu, ir, project
from ..framework import Report, where
from ..project import AnalysisBroken
from ..rules import cppflow, records, taint


def run(tier, seed):
    rep = Report('C11')
    prog = project.load('lib+programs')
    rep.rule('RECORD.siblings', 'the ordered field list written by driver::run + event::store(STORE_EVENT_TIME) + particle::store '
             'equals the ordered list extracted by event_reader::load_next_event, and every extracted value is stored into '
             'the data member it was written from')
    rep.rule('RECORD.precision', 'precision(15) is set on the stream before any floating-point insertion in both store functions '
             'and on the driver\'s event stream')
    rep.rule('READER.precondition', 'a private method that starts with `if (<state>) throw` states its precondition: every call '
             'site is dominated by a test excluding that state (announced => delivered)')
    rep.rule('READER.counter', 'the skip and stop tests of load_next_event compare the same counter, which is incremented exactly '
             'once per parsed record before both tests')
    # lookups on constant tables reachable from the reader / the record writers (a value the reader refuses although it was stored)
    from ..rules import sortedtab
    sortedtab.check(rep, prog, [k for k, f in prog.functions.items() if '/bxdecay0/' in f.get('file', '') or '/programs/' in f.get('file', '')])
    from ..rules import announce
    announce.check(rep, prog)
    n0 = len(rep.instances)
    try:
        _record_and_reader_rules(rep, prog, tier, seed)
    except AnalysisBroken as ex:
        from ..framework import is_known
        del rep.instances[n0:]          # obligations of rules that then admitted they cannot read this tree are not believed
        rep.floors = []
        if any((not x.ok) and not is_known('C11', x) for x in rep.instances):
            # a violation has been established by an earlier rule: the shape-bound rules that cannot read this tree do not hide it
            rep.cannot_decide('READER', 'bxdecay0/event_reader.cc', str(ex))
        else:
            raise
    return rep


def _record_and_reader_rules(rep, prog, tier, seed):
    es = prog.fn('bxdecay0::event::store')
    ps = prog.fn('bxdecay0::particle::store')
    rd = prog.fn('bxdecay0::event_reader::load_next_event')
    dr = prog.fn('bxdecay0::driver::run')
    # ---- writer lists
    ev_w = [(t, g) for t, n, g in records.inserted_operands(es, 'out_')]
    pt_w = [(t, g) for t, n, g in records.inserted_operands(ps, 'out_')]
    dr_w = [(t, g) for t, n, g in records.inserted_operands(dr, 'fevent')]
    ev_fields = [t for t, g in ev_w if not t.startswith('call:') and (g is None or 'STORE_EVENT_TIME' in (g or ''))]
    ev_calls = [t for t, g in ev_w if t.startswith('call:store')]
    pt_fields = [t for t, g in pt_w if not t.startswith('call:') and g is None]
    drv_fields = [t for t, g in dr_w if not t.startswith('call:')]
    writer_event = drv_fields[:1] + ev_fields
    # ---- reader lists
    F = cppflow.Flow(rd, keep_io=True)
    ex = taint.extraction_nodes(F)
    ex.sort(key=lambda x: x[0].line)
    header = [v for n, s, vs in ex[:2] for v in vs]
    part = [v for n, s, vs in ex[2:3] for v in vs]
    # setter mapping
    setters = {}
    for c in astu.calls(rd['body']):
        q = c['callee']['qn']
        nm = q.split('::')[-1]
        if nm.startswith('set_') and c['args']:
            a = astu.strip_casts(c['args'][0])
            setters[astu.src(a)] = (q, records.setter_field(prog, q), c.get('l'))
    exp_event = ['ievent', '_time_', '_generator_', '_particles_.size()']
    ok = [t.split('.')[-1] if not t.endswith('size()') else t for t in writer_event] == exp_event or \
        [t.replace('this->', '') for t in writer_event] == exp_event
    rep.add('RECORD.siblings', 'event:writer', where(es), 'event header written as %s' % writer_event,
            len(writer_event) == 4 and writer_event[1:3] == ['_time_', '_generator_'] and writer_event[3].startswith('_particles_'),
            None)
    okr = len(header) == 4
    rep.add('RECORD.siblings', 'event:reader-arity', where(rd, ex[0][0].line if ex else rd['l']),
            'reader extracts %d header values %s for %d written' % (len(header), header, len(writer_event)), okr and len(writer_event) == 4)
    if okr and len(writer_event) == 4:
        for pos, (w, r) in enumerate(zip(writer_event, header)):
            if pos == 0:
                rep.add('RECORD.siblings', 'event:id', where(rd, ex[0][0].line), 'field 1: event id `%s` <-> `%s`' % (w, r), True)
                continue
            if pos == 3:
                # the count bounds the particle loop
                lb = [b for b in F.nodes(kind='branch') if r in ir.fmt(b.stmt[1])]
                rep.add('RECORD.siblings', 'event:count', where(rd, ex[1][0].line),
                        'field 4: particle count `%s` <-> `%s` bounds the particle loop' % (w, r), bool(lb))
                continue
            st = setters.get(r)
            okf = st is not None and st[1] is not None and st[1].replace('this->', '') == w
            rep.add('RECORD.siblings', 'event:%s' % w, where(rd, st[2] if st else rd['l']),
                    'field %d: written from `%s`, read into `%s` and stored by %s into `%s`' %
                    (pos + 1, w, r, st[0].split('::')[-1] if st else '?', st[1] if st else '?'), okf)
    okp = len(pt_fields) == 5 and len(part) == 5
    rep.add('RECORD.siblings', 'particle:arity', where(ps), 'particle line: %d written %s, %d read %s' %
            (len(pt_fields), pt_fields, len(part), part), okp)
    if okp:
        for pos, (w, r) in enumerate(zip(pt_fields, part)):
            st = setters.get(r)
            okf = st is not None and st[1] is not None and st[1].replace('this->', '') == w
            rep.add('RECORD.siblings', 'particle:%s' % w, where(rd, st[2] if st else rd['l']),
                    'particle field %d: written from `%s`, read into `%s`, stored by %s into `%s`' %
                    (pos + 1, w, r, st[0].split('::')[-1] if st else '?', st[1] if st else '?'), okf)
    rep.add('RECORD.siblings', 'event:particles', where(es), 'event::store writes each particle with particle::store (%s)' % ev_calls,
            len(ev_calls) == 1 and '@loop' in ([g for t, g in ev_w if t.startswith('call:store')][0] or ''))
    rep.add('RECORD.siblings', 'driver:store', where(dr), 'the driver writes the id and then calls event::store with STORE_EVENT_TIME',
            _id_then_store(dr_w))
    # ---- precision
    for fn, stream in ((es, 'out_'), (ps, 'out_'), (dr, 'fevent')):
        ops = records.inserted_operands(fn, stream)
        first = ops[0][0] if ops else ''
        if fn is dr:
            prec = [c for c in astu.calls(fn['body']) if c['callee']['qn'].endswith('::precision') and
                    astu.src(c.get('obj', {})) == 'fevent' and astu.num_value(c['args'][0]) == 15]
            first_ins = min([n.get('l', 10 ** 9) for t, n, g in ops if not t.startswith('call:')] or [10 ** 9])
            ok = bool(prec) and prec[0]['l'] < first_ins
        else:
            ok = first.startswith('call:precision(15)')
        rep.add('RECORD.precision', fn['qn'].split('::', 1)[1], where(fn), '%s sets precision(15) before the first insertion' %
                fn['qn'].split('::', 1)[1], ok)
    # ---- THROW-PRECONDITION on event_reader
    cls = 'bxdecay0::event_reader'
    npre = 0
    for key, callee in sorted(prog.functions.items()):
        if callee.get('cls') != cls or callee.get('access') != 'private':
            continue
        FC = cppflow.Flow(callee)
        gs = FC.throw_guards()
        if not gs:
            continue
        b, arm = gs[0]
        # the guard must be the first thing the method does
        first = FC.g.nodes[FC.g.entry.succ[0]] if FC.g.entry.succ else None
        while first is not None and first.kind == 'branch' and first.succ[0] == first.succ[1]:
            first = FC.g.nodes[first.succ[0]]          # `if (is_trace()) { print }`
        if first is None or first.id != b.id:
            continue
        state = [x[2] for x in ir.subexprs(b.stmt[1]) if x[0] == 'fld'] + \
                [x[1].split('::')[-1] for x in ir.subexprs(b.stmt[1]) if x[0] == 'call']
        if not state:
            continue
        sname = state[0]
        getter = {'_terminated_': 'is_terminated', '_configured_': 'is_configured'}.get(sname, sname)
        for key2, caller in sorted(prog.functions.items()):
            if caller.get('cls') != cls or caller is callee:
                pass
            if caller.get('cls') != cls:
                continue
            FK = cppflow.Flow(caller)
            for node in FK.nodes(kind='call'):
                if node.stmt[1] != 'event_reader::' + callee['name']:
                    continue
                npre += 1
                tests = [t for t in FK.nodes(kind='branch') if (cppflow.mentions(t.stmt[1], sname) or
                         any(nm.endswith(getter) for nm, _ in FK.calls_in(t))) and FK.dominates(t, node) and t.id != node.id]
                # accepted idioms: a dominating test of the state; or the caller itself starts with the same throw guard and
                # nothing in between can set the state; or the call happens at configuration time
                own = [t for t, a in FK.throw_guards() if cppflow.mentions(t.stmt[1], sname) and FK.dominates(t, node)]
                setters_between = [m for m in FK.g.nodes if m.kind == 'call' and m.stmt[1].endswith('_close_current_file_')
                                   and any(FK.dominates(t, m) for t in own) and node.id in FK.reach(m.id)]
                ok = False
                why = None
                if tests and not own:
                    ok = True
                elif own and not setters_between and not _in_loop(FK, node):
                    ok = True
                elif tests and own:
                    inner = [t for t in tests if t not in own]
                    ok = bool(inner)
                if caller['name'] == '_at_configure_':
                    ok = True       # runs once from set_configuration, before anything can terminate the reader
                if not ok:
                    why = ['%s() throws when %s; this call at line %d is reached without a test of %s since the last point '
                           'where the state may have changed' % (callee['name'], sname, node.line, getter)]
                rep.add('READER.precondition', '%s->%s:%s' % (caller['name'], callee['name'],
                        'loop' if _in_loop(FK, node) else 'straight'), where(caller, node.line),
                        '%s calls %s() only when not %s' % (caller['name'], callee['name'], sname), ok, why)
    rep.floor('READER.precondition', npre, 4)
    # ---- counter discipline
    FR = cppflow.Flow(rd)
    incs = [n for n in FR.nodes(kind='assign') if ir.fmt(n.stmt[1]).endswith('parsed_event_counter')]
    tests = [b for b in FR.nodes(kind='branch') if 'parsed_event_counter' in ir.fmt(b.stmt[1])]
    ok = len(incs) == 1 and len(tests) == 2 and all(FR.dominates(incs[0], t) for t in tests) and \
        all('start_event' in ir.fmt(t.stmt[1]) for t in tests)
    rep.add('READER.counter', 'parsed_event_counter', where(rd, incs[0].line if incs else rd['l']),
            'one increment per parsed record, dominating the skip test and the stop test (both against start_event)', ok)
    # every iteration of the load loop passes the end-of-file roll-over test (otherwise a skipped record that is the
    # last of its file leaves the reader on an exhausted stream)
    rep.rule('READER.rollover', 'every cycle of the load loop passes the `eof` test that closes the file and opens the next one')
    from .c15 import _natural, _every_cycle_hits
    eofs = {b.id for b in FR.nodes(kind='branch') if 'eof' in ir.fmt(b.stmt[1])}
    nloop = 0
    for nnode in FR.g.nodes:
        for h in nnode.succ:
            if h in FR.dom.get(nnode.id, ()):
                body = _natural(FR, nnode.id, h)
                if not any(i in body for i in [x.id for x in incs]):
                    continue
                nloop += 1
                okr = bool(eofs) and _every_cycle_hits(FR, body, h, eofs)
                rep.add('READER.rollover', 'load_next_event', where(rd, FR.g.nodes[h].line),
                        'each iteration of the load loop reaches the end-of-file roll-over test', okr,
                        None if okr else ['a path from the loop header back to itself avoids every `eof()` test: after such an '
                                          'iteration the next record is parsed from an exhausted stream'])
    if nloop == 0:
        raise AnalysisBroken('load loop of load_next_event not found')
    rep.floor('RECORD.siblings', sum(1 for i in rep.instances if i.rule == 'RECORD.siblings'), 12)
    rep.assumptions += ['decided: writer/reader field agreement, precision, the announce=>deliver precondition of '
                        '_open_new_file_, the counter skeleton of the window',
                        'not decided: the window semantics as a whole (start/max across file boundaries, empty files, '
                        'interleavings of has_next_event/load_next_event): a state machine over run-time file contents']
    _file_index(rep, prog)
    _delivers(rep, prog, rd)
    _skips_empty(rep, prog)


def _in_loop(F, node):
    return node.id in F.g.reachable_from_succ(node.id)


def _file_index(rep, prog):
    """the file index the reader records is the index of the file it has just opened"""
    from ..rules import symflow
    from ..rules.symalg import Poly
    rep.rule('READER.file-index', 'in _open_new_file_, every update of current_file_index (other than the reset to -1) stores the very index '
             'used to subscript event_files for the file just opened: the roll-over at end of file then moves to the *next* file')
    fn = prog.fn('bxdecay0::event_reader::_open_new_file_')
    F = cppflow.Flow(fn)
    g = F.g

    def subs(n):
        out = []
        for e in F.exprs(n):
            for x in ir.subexprs(e):
                if x[0] == 'op' and x[1] == '[]' and len(x) == 4 and 'event_files' in ir.fmt(x[2]):
                    out.append(x[3])
        return out
    S = [(n, subs(n)[0]) for n in g.nodes if n.stmt is not None and subs(n)]
    if not S:
        # the file name may be bound by reference (no statement of its own): take the subscript from the AST and anchor it at the
        # first statement at or after its line
        for x in astu.walk(fn['body']):
            if x['k'] == 'OpCall' and x.get('op') == '[]' and 'event_files' in astu.src(x['args'][0]):
                i = astu.strip_casts(x['args'][1])
                later = sorted((n for n in g.nodes if n.stmt is not None and n.line >= x.get('l', 0)), key=lambda n: (n.line, n.id))
                if i['k'] == 'Ref' and later:
                    S.append((later[0], ('var', i['name'])))
    U = [n for n in F.nodes(kind='assign') if n.stmt[1][0] == 'fld' and n.stmt[1][2] == 'current_file_index' and
         not (n.stmt[2][0] == 'num' and n.stmt[2][1] == -1)]
    if not S or not U:
        raise AnalysisBroken('_open_new_file_: file subscript / index update not found (%d/%d)' % (len(S), len(U)))
    R = symflow.Resolve(F)
    cfi = None

    def sym(e):
        if e[0] == 'fld' and e[2] == 'current_file_index':
            return Poly.sym('cfi')
        if e[0] == 'var':
            return Poly.sym('var:' + e[1])
        raise AnalysisBroken('unexpected term %s' % ir.fmt(e))
    for u in U:
        doms = [(n, x) for n, x in S if F.dominates(n, u)] or [(n, x) for n, x in S if u.id in F.reach(n.id)]
        if not doms:
            rep.add('READER.file-index', 'update@%d' % u.line, where(fn, u.line), 'the index update follows the opening of a file', False)
            continue
        n, x = doms[-1]
        ok, why = False, None

        def avoiding(start, avoid):
            seen, st = set(), list(g.nodes[start].succ)
            while st:
                i = st.pop()
                if i in seen or i == avoid:
                    continue
                seen.add(i)
                st.extend(g.nodes[i].succ)
            return seen
        try:
            if u.stmt[2] == x:
                ok = True            # the subscript variable itself is recorded
            else:
                opened = symflow.poly(R.subst(x, n), sym)
                stored = symflow.poly(R.subst(u.stmt[2], u), sym)
                ok = opened == stored
                why = None if ok else 'opened event_files[%r], recorded %r' % (opened, stored)
            # the subscript variable must not change between the (last) opening and the update
            if ok and x[0] == 'var':
                between = avoiding(n.id, n.id)
                redefs = [m for m in F.nodes(kind='assign') if m.stmt[1] == x and m.id in between and u.id in F.reach(m.id)]
                # the step of a counted loop over the files (x := x + 1 followed by the loop test on x) precedes a new opening or the
                # exhaustion exit: it does not separate an opening from its update
                redefs = [m for m in redefs if not (m.stmt[2] == ('op', '+', x, ir.num(1, 'i')) and len(m.succ) == 1 and
                                                    g.nodes[m.succ[0]].kind == 'branch' and x in set(ir.subexprs(g.nodes[m.succ[0]].stmt[1])))]
                if redefs:
                    ok, why = False, '%s is modified (line %d) between the opening and the update' % (x[1], redefs[0].line)
            # nor may the recorded index itself
            if ok:
                between = avoiding(n.id, n.id)
                redefs = [m for m in F.nodes(kind='assign') if m is not u and m.stmt[1][0] == 'fld' and m.stmt[1][2] == 'current_file_index'
                          and m.id in between and u.id in F.reach(m.id) and not F.dominates(u, m)]
                if redefs:
                    ok, why = False, 'current_file_index is modified (line %d) between the opening and the update' % redefs[0].line
        except AnalysisBroken as ex:
            why = str(ex)
        rep.add('READER.file-index', 'update@%s' % ir.fmt(u.stmt[2])[:40], where(fn, u.line), 'current_file_index := %s records the index of the '
                'file opened at line %d' % (ir.fmt(u.stmt[2])[:60], n.line), ok, why)


# ---------------------------------------------------------------- READER.delivers
def _tri_not(v):
    return None if v is None else (not v)


class _Pred:
    """three-valued evaluation of a validity predicate (a const method returning bool) under the premises
    P1 `the object's time is set` (not NaN) and P2 `every element of the object's particle list is valid`;
    the number of particles is unknown (zero included)"""

    def __init__(self, prog, rep):
        self.prog = prog
        self.rep = rep

    def expr(self, e, env, depth):
        k = e[0]
        if k == 'num':
            return e[1] != 0
        if k == 'op':
            op = e[1]
            if op == 'not':
                return _tri_not(self.expr(e[2], env, depth))
            if op in ('and', 'or'):
                vs = [self.expr(x, env, depth) for x in e[2:]]
                if op == 'and':
                    return False if any(v is False for v in vs) else (None if any(v is None for v in vs) else True)
                return True if any(v is True for v in vs) else (None if any(v is None for v in vs) else False)
            if op in ('!=', '==') and len(e) == 4 and e[2] == e[3] and self._is_time(e[2], env):
                return op == '=='            # x != x is the NaN test; the time is set
            if op == 'isnan' and self._is_time(e[2], env):
                return False
            return None
        if k == 'call':
            name = e[1]
            args = e[2:]
            if name.endswith('particle::is_valid') and args and args[0][0] == 'var' and args[0][1] in env.get('elems', ()):
                return True                   # P2
            if name.split('::')[-1] in ('empty', 'size') or depth > 3:
                return None
            # a const method of the same object: evaluate its body
            if args and args[0] == ('var', 'this'):
                fs = [f for (qn, _), f in self.prog.functions.items() if qn == 'bxdecay0::' + name and f.get('body')]
                if len(fs) == 1:
                    v, _ = self.fn(fs[0], depth + 1)
                    return v
            return None
        return None

    def _is_time(self, e, env):
        return e[0] == 'fld' and e[1] == ('var', 'this') and 'time' in e[2]

    def fn(self, f, depth=0):
        """-> (value in {True, False, None}, [(line, condition text)] of the undetermined tests that lead to `return false`)"""
        F = cppflow.Flow(f)
        g = F.g
        elems = {n.stmt[1][1] for n in g.nodes if n.kind == 'assign' and n.stmt[2][0] == 'op' and n.stmt[2][1] == 'iter'
                 and 'particles' in ir.fmt(n.stmt[2])}
        env = {'elems': elems}
        results = set()
        culprits = []
        seen = set()
        st = [(g.entry.id, None)]
        while st:
            i, via = st.pop()
            if (i, via is not None) in seen:
                continue
            seen.add((i, via is not None))
            n = g.nodes[i]
            if n.kind == 'return':
                v = self.expr(n.stmt[1], env, depth) if n.stmt[1] is not None else None
                results.add(v)
                if v is not True and via is not None:
                    culprits.append(via)
                continue
            if n.kind == 'branch' and len(n.succ) == 2 and n.succ[0] != n.succ[1]:
                if n.stmt[1][0] == 'op' and n.stmt[1][1] == 'more':
                    v = None
                    unk = via                 # iterating is not a test of the premises
                else:
                    v = self.expr(n.stmt[1], env, depth)
                    unk = (n.line, ir.fmt(n.stmt[1])) if v is None else via
                if v is not False:
                    st.append((n.succ[0], unk if v is None else via))
                if v is not True:
                    st.append((n.succ[1], unk if v is None else via))
                continue
            for s in n.succ:
                st.append((s, via))
        if results == {True}:
            return True, []
        if results == {False}:
            return False, culprits
        return None, culprits


def _delivers(rep, prog, rd):
    rep.rule('READER.delivers', 'the load loop of load_next_event runs until the event object is valid; event::is_valid() is true '
             'for every event with a set time whose particles are all valid, whatever their number (a stored record with zero '
             'particles included), so each parsed in-window record ends the loop and is delivered')
    FR = cppflow.Flow(rd)
    loops = [b for b in FR.nodes(kind='branch') if any(x[0] == 'call' and x[1].endswith('is_valid') for x in ir.subexprs(b.stmt[1]))
             and b.id in FR.g.reachable_from_succ(b.id)]
    if not loops:
        rep.add('READER.delivers', 'load_next_event', where(rd, rd['l']),
                'the load loop does not test the validity predicate (nothing to decide)', True, nontrivial=False)
        return
    b = loops[0]
    calls = [x for x in ir.subexprs(b.stmt[1]) if x[0] == 'call' and x[1].endswith('is_valid')]
    fs = [f for (qn, _), f in prog.functions.items() if qn == 'bxdecay0::' + calls[0][1] and f.get('body')]
    if len(fs) != 1:
        raise AnalysisBroken('READER.delivers: definition of %s not found' % calls[0][1])
    v, culprits = _Pred(prog, rep).fn(fs[0])
    ok = v is True
    if not ok and not culprits:
        rep.cannot_decide('READER.delivers', where(fs[0], fs[0]['l']), '%s() does not return through tests and literals only; its '
                          'value under the premises (time set, particles valid) is not determined' % calls[0][1])
        return
    rep.add('READER.delivers', '%s' % calls[0][1], where(fs[0], culprits[0][0] if culprits else fs[0]['l']),
            '%s() holds for every timed event whose particles are valid (the loop predicate of load_next_event, line %d)'
            % (calls[0][1], b.line), ok,
            None if ok else ['`return false` is reached through the test(s) %s, which the premises do not decide: a stored '
                             'record for which it fails is parsed but never delivered; the next record overwrites it and the '
                             'window shifts' % ', '.join('`%s` (line %d)' % (c, l) for l, c in culprits[:3])])


# ---------------------------------------------------------------- READER.skips-empty
def _skips_empty(rep, prog):
    """every function of the reader that opens a stream leaves it either positioned on a record or closed"""
    rep.rule('READER.skips-empty', 'after a file is opened, every path to the normal return of the opening function passes a test of '
             'eof() on the new stream (after skipping white space) whose true arm closes the file and, unless the reader is then '
             'terminated, opens the next one: an empty file is never left as the current stream (the next header extraction would '
             'fail, or a next event would be announced that cannot be loaded)')
    nopen = 0
    for (qn, _), f in sorted(prog.functions.items()):
        if f.get('cls') != 'bxdecay0::event_reader' or not f.get('body'):
            continue
        F = cppflow.Flow(f)
        opens = [n for n in F.nodes(kind='call') if n.stmt[1].endswith('unique_ptr::reset') and len(n.stmt[2]) == 2 and
                 n.stmt[2][1][0] == 'op' and n.stmt[2][1][1] == 'new' and 'ifstream' in ir.fmt(n.stmt[2][1])]
        opens += [n for n in F.nodes(kind='assign') if 'ifstream' in ir.fmt(n.stmt[2]) and n.stmt[2][0] == 'op' and n.stmt[2][1] == 'new']
        for o in opens:
            nopen += 1
            stream = ir.fmt(o.stmt[2][0]) if o.kind == 'call' else ir.fmt(o.stmt[1])
            tests = [b for b in F.nodes(kind='branch') if 'eof' in ir.fmt(b.stmt[1]) and F.dominates(o, b)]
            rets = [n for n in F.g.nodes if n.kind == 'return' and n.id in F.reach(o.id)]
            # must-pass-through: removing the eof tests, no return is reachable from the open
            cut = {b.id for b in tests}
            seen, st = set(), [o.id]
            leak = None
            while st:
                i = st.pop()
                if i in seen or i in cut:
                    continue
                seen.add(i)
                if F.g.nodes[i].kind == 'return':
                    leak = F.g.nodes[i]
                    break
                st.extend(F.g.nodes[i].succ)
            ok = bool(tests) and leak is None
            why = None
            if ok:
                # the true arm: close, then re-open unless terminated
                b = tests[0]
                arm = F.reach(b.succ[0]) - F.reach(b.succ[1]) | {b.succ[0]}
                closes = [n for n in F.nodes(kind='call') if n.id in arm and n.stmt[1].endswith('_close_current_file_')]
                reopens = [n for n in F.nodes(kind='call') if n.id in arm and n.stmt[1].endswith('_open_new_file_')]
                loops_back = o.id in F.reach(b.succ[0]) and o.id not in F.reach(b.succ[1])      # iterative form: back to the open
                ok = bool(closes) and ((bool(reopens) and all(F.dominates(closes[0], r) for r in reopens)) or loops_back)
                if not ok:
                    why = ['the arm taken at end of file does not close the file and then open the next one (close: %s, re-open: %s)'
                           % ([n.line for n in closes], [n.line for n in reopens])]
            else:
                why = ['line %s returns with the stream opened at line %d never tested for eof(): an empty file stays the current '
                       'stream; the roll-over in load_next_event() steps over one exhausted file only, so two consecutive empty files, '
                       'a window starting behind an empty file, or two loads without has_next_event() in between hit "Invalid/'
                       'corrupted event format"' % (leak.line if leak is not None else '?', o.line)]
            rep.add('READER.skips-empty', '%s:%d' % (f['name'], nopen), where(f, o.line),
                    '%s: the stream %s opened here is left on a record or closed' % (f['name'], stream[:50]), ok, why)
    rep.floor('READER.skips-empty', nopen, 1)


def _id_then_store(dr_w):
    """the one plain value the driver inserts into the event stream inside the loop is an identifier (the record id, whatever its
    name) and the next statement on that stream's record is event::store(stream, flags)"""
    plain = [i for i, (t, g) in enumerate(dr_w) if not t.startswith('call:')]
    if len(plain) != 1:
        return False
    i = plain[0]
    t, g = dr_w[i]
    if re.fullmatch(r'[A-Za-z_]\w*', t) is None or '@loop' not in (g or ''):
        return False
    return i + 1 < len(dr_w) and dr_w[i + 1][0].startswith('call:store(') and '@loop' in (dr_w[i + 1][1] or '')
