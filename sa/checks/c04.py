"""C04 - every generated event is well-formed, time-ordered and produced in bounded work (decided clauses)."""
from fractions import Fraction

from .. import astu, callgraph, cfg as cfgm, genbb, ir, pathsum, sccp, tv, tvcheck, tvrun
from ..framework import Report, where
from ..project import AnalysisBroken

SPECIES = {1: 'GAMMA', 2: 'POSITRON', 3: 'ELECTRON', 47: 'ALPHA'}
TIME_PARAMS = ('tclev', 'thlev', 'tcnuc', 'thnuc')


# positions (after prng/event) of (binding energy, coefficient) per shell and of the pair coefficient
TRANS = {'nucltransk': [('K-conversion', 1, 2), ('pair', None, 3)],
         'nucltranskl': [('K-conversion', 1, 2), ('L-conversion', 3, 4), ('pair', None, 5)],
         'nucltransklm': [('K-conversion', 1, 2), ('L-conversion', 3, 4), ('M-conversion', 5, 6), ('pair', None, 7)],
         'nucltransklm_pb': [('K-conversion', 1, 2), ('L-conversion', 3, 4), ('M-conversion', 5, 6), ('pair', None, 7)]}


def run(tier, seed):
    rep = Report('C04')
    ctx = tvcheck.Context()
    prog, D = ctx.prog, ctx.D
    rep.rule('SPECIES', 'every particle-code argument of randomize_particle/decay0_particle and every set_code() on a '
             'generation path is one of GAMMA, ELECTRON, POSITRON, ALPHA (literal, or a variable all of whose assignments are)')
    rep.rule('TIMES.nonneg', 'at every call of an emission primitive the creation-time and half-life arguments are of sign '
             'class non-negative: a literal >= 0, a time parameter of the enclosing unit, or a local all of whose '
             'assignments are such')
    rep.rule('TIMES.chain', 'a daughter scheme is called with creation time 0 and its particles are shifted as a block by '
             'the parent decay time, from the index captured immediately before the daughter call')
    rep.rule('ENERGY.transition', 'at every call of nucltransK/KL/KLM with constant arguments, a conversion coefficient is non-zero only if the '
             'transition energy is at least the binding energy of that shell, and the pair coefficient only above 1.022 MeV')
    rep.rule('ENERGY.nonneg', 'every emission whose energy argument folds to a constant has energy >= 0')
    rep.rule('COUNT', 'per published name: minimum >= 1 and maximum <= 100 particles over all CFG paths (unit summaries '
             'composed through the dispatch)')
    rep.rule('LABEL', 'every generate path sets the event label to the requested name and the reference time to 0')
    rep.rule('LOOP.progress', 'in every rejection loop the exit condition depends on a deviate drawn inside the loop on '
             'every iteration (necessary for termination under independent deviates)')
    cg = callgraph.CallGraph(prog)
    roots = cg.keys_of('bxdecay0::genbbsub') + cg.keys_of('bxdecay0::dbd_gA::shoot') + \
        cg.keys_of('bxdecay0::momentum_direction_lock_event_op::operator()')
    scope = {k for k in cg.reachable(roots) if k[0].startswith('bxdecay0::')}
    flows = {}
    for k in sorted(scope):
        fn = prog.functions[k]
        if fn['name'] in ('genbbsub',):
            continue
        g, side = pathsum.unit_cfg(fn, ctx.sigs)
        flows[k] = (fn, g, side)
    rep.analysed['functions on generation paths'] = len(flows)
    # parameter positions of time arguments per callee (after dropping the context arguments)
    from .. import cpp2ir
    timepos = {}
    for (qn, fid), fn in prog.functions.items():
        if not qn.startswith('bxdecay0::') or fn.get('method'):
            continue
        n = qn.split('::')[-1].lower()
        if n.startswith('decay0_'):
            n = n[7:]
        n = tv.CALLEE_ALIAS.get(n, n)
        kept = [p['name'].rstrip('_').lower() for p in fn['params'] if p['ty'] not in cpp2ir.CTX_TYPES and p['name'] != '']
        pos = [i for i, p in enumerate(kept) if p in ('tclev', 'tcnuc')]
        if pos:
            timepos.setdefault((n, len(kept)), set()).update(pos)
    nsp = ntm = nen = ntr = 0
    for k, (fn, g, side) in sorted(flows.items()):
        params = {side.var(p['name'])[1] for p in fn['params']}
        defs = {}
        for n in g.nodes:
            d = tv.node_def(n)
            if d and n.kind == 'assign' and n.stmt[1][0] == 'var':
                defs.setdefault(d, []).append(n)
        for n in g.nodes:
            calls = []
            if n.kind == 'call':
                calls.append((n.stmt[1], n.stmt[2]))
            # ---- species
            for name, args in calls:
                code = None
                if name == 'particle' and args:
                    code = args[0]
                elif name == 'particle::set_code' and len(args) == 2:
                    code = args[1]
                if code is not None:
                    nsp += 1
                    ok, why = _species_ok(code, defs, params)
                    rep.add('SPECIES', '%s:%s' % (fn['name'], ir.fmt(code)), where(fn, n.line),
                            '%s: particle code `%s` is a supported species' % (fn['name'], ir.fmt(code)), ok, why)
                # ---- times
                if (name, len(args)) in timepos:
                    for p in sorted(timepos[(name, len(args))]):
                        if p >= len(args):
                            continue
                        ntm += 1
                        ok, why = _nonneg(args[p], defs, params)
                        rep.add('TIMES.nonneg', '%s:%s:%d:%s' % (fn['name'], name, p, ir.fmt(args[p])[:30]),
                                where(fn, n.line), '%s: %s(.. %s ..) time argument is non-negative' %
                                (fn['name'], name, ir.fmt(args[p])[:40]), ok, why, nontrivial=args[p] != ('num', Fraction(0)))
        # ---- decay-time formula  t = t0 - T/ln2 * log(u):  t0 and T of class non-negative
        for n in g.nodes:
            if n.kind == 'assign' and ir.count_draws(n.stmt[2]) == 1:
                e = n.stmt[2]
                if e[0] == 'op' and e[1] == '-' and len(e) == 4 and any(
                        x[0] == 'op' and x[1] == 'log' and x[2] == ('draw',) for x in ir.subexprs(e[3])):
                    hl = [x for x in ir.subexprs(e[3]) if x[0] in ('var', 'num') and x != ('num', Fraction(2))]
                    ok1, why1 = _nonneg(e[2], defs, params)
                    guarded = any(b.kind == 'branch' and n.id in g.reachable(b.succ[0]) and n.id not in g.reachable(b.succ[1])
                                  and b.stmt[1][0] == 'op' and b.stmt[1][1] == '<' and b.stmt[1][2] == ('num', Fraction(0))
                                  for b in g.nodes)
                    ok2 = guarded or all(_nonneg(x, defs, params)[0] for x in hl)
                    ntm += 1
                    rep.add('TIMES.nonneg', '%s:decaytime:%s' % (fn['name'], ir.fmt(n.stmt[1])), where(fn, n.line),
                            '%s: `%s = t0 - T/ln2*log(u)` has t0 >= 0 and T >= 0 (or is guarded by T > 0)' %
                            (fn['name'], ir.fmt(n.stmt[1])), ok1 and ok2,
                            None if ok1 and ok2 else (why1 or ['half-life operand not of class non-negative: %s'
                                                               % [ir.fmt(x) for x in hl]]))
        # ---- energies, after plain constant propagation
        r = sccp.specialise(g, {}, sccp.Evaluator('c', {}), lambda c, p: tv._maywrite('c', c, p))
        for n in r.nodes:
            if n.kind == 'call' and n.stmt[1] in pathsum.EMIT:
                a = n.stmt[2][pathsum.EMIT[n.stmt[1]][0]]
                if n.stmt[1] in TRANS:
                    args = n.stmt[2]
                    if all(x[0] == 'num' for x in args[:len(TRANS[n.stmt[1]]) + 1]):
                        ntr += 1
                        eg = args[0][1]
                        for (what, bi, ci) in TRANS[n.stmt[1]]:
                            thr = args[bi][1] if bi is not None else Fraction(1022, 1000)
                            if args[ci][1] > 0 and eg < thr:
                                rep.add('ENERGY.transition', '%s:%s:%s' % (fn['name'], float(eg), what), where(fn, n.line),
                                        '%s: %s coefficient %s > 0 for a %s MeV transition below the %s MeV threshold: the emitted '
                                        'electron/pair would have negative kinetic energy (NaN momentum)' %
                                        (fn['name'], what, float(args[ci][1]), float(eg), float(thr)), False)
                if a[0] == 'num':
                    nen += 1
                    if a[1] < 0:
                        rep.add('ENERGY.nonneg', '%s:%s' % (fn['name'], ir.fmt_stmt(n.stmt)[:50]), where(fn, n.line),
                                '%s: emitted energy %s MeV >= 0' % (fn['name'], float(a[1])), False)
    rep.add('ENERGY.transition', 'all', 'bxdecay0/', '%d transition calls with constant arguments were examined (violations are listed per site): a shell (or pair) coefficient is non-zero only '
            'when the transition energy exceeds that shell\'s binding energy (resp. 1.022 MeV)' % ntr,
            True, nontrivial=False)
    rep.analysed['transition calls with constant arguments'] = ntr
    rep.floor('ENERGY.transition', ntr, 1500)
    rep.add('ENERGY.nonneg', 'all', 'bxdecay0/', '%d emission sites with a constant energy argument: all >= 0' % nen,
            not any(i.rule == 'ENERGY.nonneg' and not i.ok for i in rep.instances))
    rep.analysed['emission sites with constant energy'] = nen
    _delays(rep, flows)
    _wrapper_energies(rep, flows)
    _counts(rep, ctx, flows, cg)
    _loops(rep, flows)
    _nan_exits(rep, ctx)
    _labels(rep, ctx)
    from ..rules import bbstate
    nst = bbstate.check(rep, ctx)
    rep.floor('STATE.def-before-use', nst, 90)
    rep.floor('SPECIES', nsp, 15)
    rep.floor('TIMES.nonneg', ntm, 1200)
    rep.floor('LOOP.progress', sum(1 for i in rep.instances if i.rule == 'LOOP.progress'), 15)
    rep.assumptions += ['not decided: a bound on the number of deviates per shot (acceptance probabilities are numerical), '
                        'finiteness of sampled (non-constant) energies, termination of deterministic loops']
    return rep


def generation_flows(ctx):
    prog = ctx.prog
    cg = callgraph.CallGraph(prog)
    roots = cg.keys_of('bxdecay0::genbbsub') + cg.keys_of('bxdecay0::dbd_gA::shoot') + \
        cg.keys_of('bxdecay0::momentum_direction_lock_event_op::operator()')
    scope = {k for k in cg.reachable(roots) if k[0].startswith('bxdecay0::')}
    flows = {}
    for k in sorted(scope):
        fn = prog.functions[k]
        if fn['name'] in ('genbbsub',):
            continue
        g, side = pathsum.unit_cfg(fn, ctx.sigs)
        flows[k] = (fn, g, side)
    return flows


def _wrapper_energies(rep, flows, budget_rule=None):
    """ENERGY.primitive: what an emission primitive makes of a constant energy argument is a non-negative kinetic energy"""
    from .. import cpp2ir
    if budget_rule is None:
        rep.rule('ENERGY.primitive', 'an emission primitive (gamma, electron, positron, alpha, pair, ...) hands `particle` a kinetic energy computed from '
             'its own energy parameter; at every call site with a literal energy that computed value is >= 0 (the convention "kinetic '
             'energy of the pair" vs "transition energy" must be the same in the primitive and in each of its callers: e - 2 m_e of a '
             'kinetic energy below 1.022 MeV is negative and its momentum NaN)')
    CONST = {'$emass': Fraction(51099906, 100000000), '$pi': Fraction(355, 113)}

    def ev(e, env, defs, depth=0):
        if e[0] == 'num':
            return e[1]
        if e[0] == 'var':
            if e[1] in env:
                return env[e[1]]
            if e[1] in CONST:
                return CONST[e[1]]
            ds = defs.get(e[1], [])
            if len(ds) == 1 and depth < 24:
                return ev(ds[0].stmt[2], env, defs, depth + 1)
            return None
        if e[0] == 'op':
            vs = [ev(x, env, defs, depth + 1) for x in e[2:]]
            if any(v is None for v in vs):
                return None
            o = e[1]
            if o == '+':
                return sum(vs)
            if o == '-' and len(vs) == 2:
                return vs[0] - vs[1]
            if o in ('neg',) or (o == '-' and len(vs) == 1):
                return -vs[0]
            if o == '*':
                r = Fraction(1)
                for v in vs:
                    r *= v
                return r
            if o == '/' and len(vs) == 2 and vs[1] != 0:
                return vs[0] / vs[1]
            if o == 'max':
                return max(vs)
            if o == 'min':
                return min(vs)
            if o == 'abs' and len(vs) == 1:
                return abs(vs[0])
        return None
    prims = {}
    for k, (fn, g, side) in flows.items():
        nm = fn['qn'].split('::')[-1]
        cal = side.callee(nm)
        cal = tv.CALLEE_ALIAS.get(cal, cal)
        if cal not in pathsum.EMIT:
            continue
        kept = [side.var(p['name'])[1] for p in fn['params'] if p['ty'] not in cpp2ir.CTX_TYPES and p['name'] != '']
        idx = pathsum.EMIT[cal][0]
        if idx >= len(kept):
            continue
        defs = {}
        for n in g.nodes:
            d = tv.node_def(n)
            if d and n.kind == 'assign' and n.stmt[1][0] == 'var':
                defs.setdefault(d, []).append(n)
        pcalls = [n for n in g.nodes if n.kind == 'call' and n.stmt[1] == 'particle' and len(n.stmt[2]) >= 3]
        if pcalls:
            prims[cal] = (k, kept, idx, defs, pcalls)
    nj = 0
    for cal, (k, kept, idx, defs, pcalls) in sorted(prims.items()):
        fnW = flows[k][0]
        for k2, (fn2, g2, side2) in sorted(flows.items()):
            for m in g2.nodes:
                if m.kind != 'call' or tv.CALLEE_ALIAS.get(m.stmt[1], m.stmt[1]) != cal or len(m.stmt[2]) != len(kept):
                    continue
                a = m.stmt[2][idx]
                if a[0] != 'num':
                    continue
                env = {kept[idx]: a[1]}
                worst = None
                for pc in pcalls:
                    for ea in pc.stmt[2][1:3]:
                        v = ev(ea, env, defs)
                        if v is not None and (worst is None or v < worst[0]):
                            worst = (v, pc, ea)
                if worst is None:
                    continue
                nj += 1
                if budget_rule is not None:
                    tot = Fraction(0)
                    for pc in pcalls:
                        v = ev(pc.stmt[2][1], env, defs)
                        tot = None if (v is None or tot is None) else tot + v
                    if tot is not None and tot != a[1]:
                        rep.add(budget_rule, '%s:%s:%s' % (fn2['name'], cal, float(a[1])), where(fn2, m.line),
                                '%s: %s(%s MeV ...) emits kinetic energies that add up to its argument' % (fn2['name'], cal, float(a[1])), False,
                                ['%s hands particle() kinetic energies that add up to %.6f MeV, not %s: the cascade closure of this unit (and the '
                                 'reference) count the argument as the kinetic energy emitted (+ 1.022 MeV for a pair)'
                                 % (fnW['name'], float(tot), float(a[1]))])
                    continue
                if worst[0] < 0:
                    rep.add('ENERGY.primitive', '%s:%s:%s' % (fn2['name'], cal, float(a[1])), where(fn2, m.line),
                            '%s: %s(%s MeV ...) emits a particle of non-negative kinetic energy' % (fn2['name'], cal, float(a[1])), False,
                            ['%s computes `%s` = %.6f MeV from its argument (%s): negative kinetic energy, NaN momentum'
                             % (fnW['name'], ir.fmt(worst[2])[:60], float(worst[0]), where(fnW, worst[1].line)),
                             'the primitive and this caller disagree on what the argument means (kinetic energy of the emitted particles vs '
                             'energy of the transition)'])
    if budget_rule is not None:
        rep.add(budget_rule, 'all', 'bxdecay0/', '%d call sites of %d emission primitives with a literal energy: the kinetic energies handed to '
                'particle() add up to the argument (violations are listed per site)' % (nj, len(prims)), True, nontrivial=False)
        rep.floor(budget_rule, nj, 200)
        return
    rep.add('ENERGY.primitive', 'all', 'bxdecay0/', '%d call sites of %d emission primitives with a literal energy: the kinetic energy the primitive '
            'computes from it is >= 0 (violations are listed per site)' % (nj, len(prims)), True, nontrivial=False)
    rep.analysed['primitive call sites with a literal energy evaluated through the primitive'] = nj
    rep.floor('ENERGY.primitive', nj, 200)
    rep.analysed['emission primitives that compute the kinetic energy they hand to particle()'] = sorted(prims)


def _delays(rep, flows):
    """TIMES.delay: every exponential delay  -(T / ln 2) log(u)  is computed from a half-life T that cannot be negative there"""
    from .. import cpp2ir
    rep.rule('TIMES.delay', 'wherever a delay is drawn as (T / ln 2) log(u), the half-life T is a non-negative literal (or a local only '
             'assigned such), or the draw lies on the `T > 0` side of a test of T, or - T being a parameter - every call site passes a '
             'half-life that is non-negative by the same rule (followed through forwarding parameters): a negative T makes the '
             'emission time precede the creation time')
    info = {}
    for k, (fn, g, side) in flows.items():
        nm = fn['qn'].split('::')[-1]
        cal = side.callee(nm)
        cal = tv.CALLEE_ALIAS.get(cal, cal)
        kept = [side.var(p['name'])[1] for p in fn['params'] if p['ty'] not in cpp2ir.CTX_TYPES and p['name'] != '']
        defs = {}
        for n in g.nodes:
            d = tv.node_def(n)
            if d and n.kind == 'assign' and n.stmt[1][0] == 'var':
                defs.setdefault(d, []).append(n)
        info[k] = (cal, kept, defs)
    bycal = {}
    for k, (cal, kept, defs) in info.items():
        bycal.setdefault((cal, len(kept)), []).append(k)

    def guarded(g, n, T):
        """n lies only on the side of some test of T where T > 0"""
        for b in g.nodes:
            if b.kind != 'branch' or len(b.succ) != 2 or b.succ[0] == b.succ[1]:
                continue
            c, flip = b.stmt[1], False
            while c[0] == 'op' and c[1] == 'not' and len(c) == 3:
                c, flip = c[2], not flip
            pos = None
            if c[0] == 'op' and len(c) == 4:
                o, a, b2 = c[1], c[2], c[3]
                zero_a, zero_b = (a[0] == 'num' and a[1] == 0), (b2[0] == 'num' and b2[1] == 0)
                if (o == '<' and zero_a and b2 == T) or (o == '>' and a == T and zero_b):
                    pos = 0            # true side has T > 0
                elif (o == '<=' and a == T and zero_b) or (o == '>=' and zero_a and b2 == T):
                    pos = 1            # false side has T > 0
            if pos is None:
                continue
            if flip:
                pos = 1 - pos
            r_in, r_out = g.reachable(b.succ[pos]), g.reachable(b.succ[1 - pos])
            if n.id in r_in and n.id not in r_out:
                return True
        return False

    def nonneg(k, e, n, seen, depth=0):
        """(True, None) | (False, reason) | (None, reason = cannot follow)"""
        fn, g, side = flows[k]
        cal, kept, defs = info[k]
        if e[0] == 'num':
            return (True, None) if e[1] >= 0 else (False, 'the literal %s (%s)' % (float(e[1]), where(fn, n.line)))
        if n is not None and guarded(g, n, e):
            return True, None
        if e[0] == 'var':
            v = e[1]
            if v in kept:
                i = kept.index(v)
                if (k, i) in seen or depth > 6:
                    return True, None
                seen = seen | {(k, i)}
                sites = 0
                for k2, (fn2, g2, side2) in flows.items():
                    for m in g2.nodes:
                        if m.kind == 'call' and (m.stmt[1], len(m.stmt[2])) == (cal, len(kept)) or \
                                (m.kind == 'call' and tv.CALLEE_ALIAS.get(m.stmt[1], m.stmt[1]) == cal and len(m.stmt[2]) == len(kept)):
                            sites += 1
                            ok, why = nonneg(k2, m.stmt[2][i], m, seen, depth + 1)
                            if ok is not True:
                                return ok, '%s <- argument `%s` of %s(...) at %s' % (why, ir.fmt(m.stmt[2][i])[:30], cal, where(fn2, m.line))
                    for m in g2.nodes:
                        if m.stmt is None or m.kind == 'call':
                            continue
                        for ex_ in m.stmt[1:]:
                            if not isinstance(ex_, tuple):
                                continue
                            for x in ir.subexprs(ex_):
                                if x[0] == 'call' and tv.CALLEE_ALIAS.get(x[1], x[1]) == cal and len(x) - 2 == len(kept):
                                    sites += 1
                                    ok, why = nonneg(k2, x[2 + i], m, seen, depth + 1)
                                    if ok is not True:
                                        return ok, '%s <- argument `%s` of %s(...) at %s' % (why, ir.fmt(x[2 + i])[:30], cal, where(fn2, m.line))
                if not sites:
                    return None, 'no call site of %s found to follow the parameter `%s`' % (cal, v)
                return True, None
            ds = defs.get(v, [])
            if n is not None:
                ds = [d for d in ds if n.id in g.reachable(d.id)]          # only definitions that can flow to this use
            for d in ds:
                ok, why = nonneg(k, d.stmt[2], d, seen, depth + 1)
                if ok is not True:
                    return ok, '%s <- `%s = %s` at %s' % (why, v, ir.fmt(d.stmt[2])[:40], where(fn, d.line))
            return True, None
        if e[0] == 'op' and e[1] in ('+', '*', 'max', '/') and len(e) > 3:
            for x in e[2:]:
                ok, why = nonneg(k, x, n, seen, depth + 1)
                if ok is not True:
                    return ok, why
            return True, None
        if e[0] == 'op' and e[1] == '-' and len(e) == 4 and e[2][0] == 'num' and e[3][0] == 'num':
            v_ = e[2][1] - e[3][1]
            return (True, None) if v_ >= 0 else (False, 'the constant expression `%s` = %s (%s)' % (ir.fmt(e), float(v_), where(fn, n.line) if n is not None else '?'))
        return None, 'expression `%s` is not of a recognised form' % ir.fmt(e)[:60]

    nd = 0
    for k, (fn, g, side) in sorted(flows.items()):
        for n in g.nodes:
            if n.stmt is None or n.kind not in ('assign', 'return'):
                continue
            e = n.stmt[2] if n.kind == 'assign' else n.stmt[1]
            if not isinstance(e, tuple) or ir.count_draws(e) != 1:
                continue
            logs = [x for x in ir.subexprs(e) if x[0] == 'op' and x[1] == 'log' and len(x) == 3 and x[2] == ('draw',)]
            if not logs:
                continue
            # the product (or quotient) that contains log(u): its other variable factors are the half-life
            prods = [x for x in ir.subexprs(e) if x[0] == 'op' and x[1] in ('*', '/') and logs[0] in x[2:]]
            if not prods:
                continue
            P = prods[0]
            Ts = []
            for f_ in P[2:]:
                if f_ == logs[0]:
                    continue
                Ts += [x for x in ir.subexprs(f_) if x[0] == 'var' and not (len(x) > 1 and str(x[1]).startswith('$'))]
            if not Ts:
                continue
            nd += 1
            verdicts = [nonneg(k, T, n, frozenset()) for T in Ts]
            key = '%s:%s' % (fn['name'], '*'.join(ir.fmt(T) for T in Ts))
            desc = '%s: the delay `%s` is drawn from a half-life that cannot be negative here' % (fn['name'], ir.fmt(P)[:50])
            if any(v[0] is False for v in verdicts):
                rep.add('TIMES.delay', key, where(fn, n.line), desc, False,
                        ['a negative half-life reaches this draw unguarded: %s' % [v[1] for v in verdicts if v[0] is False][0],
                         'only a test `T > 0` keeps the emission time from preceding the creation time (`T == 0` does not)'])
            elif any(v[0] is None for v in verdicts):
                rep.cannot_decide('TIMES.delay', where(fn, n.line), '%s: %s' % (fn['name'], [v[1] for v in verdicts if v[0] is None][0]))
            else:
                rep.add('TIMES.delay', key, where(fn, n.line), desc, True)
    rep.analysed['exponential-delay draws'] = nd
    rep.floor('TIMES.delay', nd, 60)


def _species_ok(code, defs, params):
    if code[0] == 'num':
        return (int(code[1]) in SPECIES and code[1].denominator == 1,
                None if int(code[1]) in SPECIES else ['code %s is none of %s' % (code[1], SPECIES)])
    if code[0] == 'var':
        if code[1] in params:
            return True, None          # forwarded parameter: checked at the callers
        ds = defs.get(code[1], [])
        bad = [d for d in ds if not (d.stmt[2][0] == 'num' and int(d.stmt[2][1]) in SPECIES)
               and not (d.stmt[2][0] == 'var' and d.stmt[2][1] in params)]
        if ds and not bad:
            return True, None
        return False, ['variable `%s` is assigned %s' % (code[1], [ir.fmt(d.stmt[2]) for d in (bad or ds)] or 'nowhere')]
    return False, ['not a literal or a variable: %s' % ir.fmt(code)]


def _nonneg(e, defs, params, depth=0):
    if e[0] == 'num':
        return (e[1] >= 0, None if e[1] >= 0 else ['negative literal %s' % float(e[1])])
    if e[0] == 'var':
        v = e[1]
        if v in params and v.rstrip('_') in TIME_PARAMS:
            return True, None
        ds = defs.get(v, [])
        if depth > 4:
            return False, ['definition chain too deep for `%s`' % v]
        for d in ds:
            ok, why = _nonneg(d.stmt[2], defs, params, depth + 1)
            if not ok:
                return False, ['`%s` is assigned `%s` at line %d' % (v, ir.fmt(d.stmt[2])[:60], d.line)] + (why or [])
        return True, None          # unassigned local: zero (static) / declared with 0
    if e[0] == 'op' and e[1] in ('+', '*', 'max') and all(_nonneg(x, defs, params, depth + 1)[0] for x in e[2:]):
        return True, None
    return False, ['expression `%s` is not of a recognised non-negative form' % ir.fmt(e)[:80]]


def _counts(rep, ctx, flows, cg):
    prog = ctx.prog
    byname = {}
    for k, (fn, g, side) in flows.items():
        byname.setdefault(tv.CALLEE_ALIAS.get(side.callee(fn['qn'].split('::')[-1]), side.callee(fn['qn'].split('::')[-1])), []).append(k)
    summ = dict(pathsum.COUNT)
    summ.update({'event::add_particle': (1, 1)})
    pending = {n: ks for n, ks in byname.items() if n not in summ}

    def unit_summary(g):
        def lo(n):
            return Fraction(_c(n)[0])

        def hi(n):
            return Fraction(_c(n)[1])

        def _c(n):
            if n.kind == 'call':
                return summ.get(n.stmt[1], (0, 0))
            return (0, 0)
        if pathsum.cycles_contribute(g, hi):
            return None
        s1, _ = pathsum.all_path_sums(g, lo)
        s2, _ = pathsum.all_path_sums(g, hi)
        mn, mx = int(min(s1)), int(max(s2))
        if mn == 0:
            # complementary threshold tests on one drawn value make some CFG paths infeasible: enumerate the
            # paths of the (loop-free) unit and drop those whose conditions contradict each other
            ps = tv.path_summaries(g, (), 'c')
            if ps is not None:
                feas = []
                for p in ps:
                    if not tv.feasible(p[0]) or p[3] == ('var', '$throw'):
                        continue
                    feas.append(sum(summ.get(c[1], (0, 0))[0] for c in p[1]))
                if feas:
                    mn = min(feas)
        return (mn, mx)
    # the primitives' counts are not taken on trust: each is recomputed from its own body (base fact: add_particle appends
    # exactly one) and must equal the table the unit summaries are built on
    rep.rule('COUNT.primitive', 'each emission primitive appends, over all paths of its own body, exactly the number of particles '
             'the unit summaries assume for it (gamma/electron/positron/alpha/particle/beta*: one; pair: two; nucltrans*: one or two, ...)')
    base = {'event::add_particle': (1, 1)}
    order = ['particle', 'gamma', 'electron', 'positron', 'alpha', 'pair', 'beta', 'beta1', 'beta2', 'beta_1fu',
             'nucltransk', 'nucltranskl', 'nucltransklm', 'nucltransklm_pb']
    saved = summ
    nprim = 0
    for n in order:
        if n not in byname:
            used = any(x.kind == 'call' and x.stmt[1] == n for k in flows for x in flows[k][1].nodes)
            if used:
                raise AnalysisBroken('COUNT.primitive: primitive %s is called but not found among the functions on generation paths' % n)
            continue            # not reached from the dispatcher (nothing relies on its count)
        got = None
        for k in byname[n]:
            fn, g, side = flows[k]
            if not any(x.kind == 'call' and (x.stmt[1] in base) for x in g.nodes):
                continue            # the forwarding overload
            summ = base
            got = unit_summary(g)
            summ = saved
            nprim += 1
            if got is None:
                rep.cannot_decide('COUNT.primitive', where(fn), '%s appends particles inside a loop: its count is not a path sum' % fn['name'])
                continue
            ok = got == tuple(pathsum.COUNT[n])
            rep.add('COUNT.primitive', n, where(fn), '%s appends %s particle(s) on every path of its body' %
                    (fn['name'], '%d..%d' % tuple(pathsum.COUNT[n]) if pathsum.COUNT[n][0] != pathsum.COUNT[n][1] else pathsum.COUNT[n][0]),
                    ok, None if ok else ['computed from the body: %s; assumed by the unit summaries: %s' %
                                         ('a loop appends particles' if got is None else '%d..%d' % got, '%d..%d' % tuple(pathsum.COUNT[n])),
                                         'a path of %s returns without appending (or appends twice): a scheme branch that emits only '
                                         'this particle yields an empty event' % fn['name']])
        if got is not None:
            base = dict(base)
            base[n] = got
    rep.floor('COUNT.primitive', nprim, 13)
    for _ in range(8):
        progress = False
        for n, ks in list(pending.items()):
            fn, g, side = flows[ks[0]]
            callees = {x.stmt[1] for x in g.nodes if x.kind == 'call'}
            if any(c in pending and c != n for c in callees):
                continue
            s = unit_summary(g)
            if s is not None:
                summ[n] = s
            del pending[n]
            progress = True
        if not progress:
            break
    D = ctx.D
    res = genbb.grid(D, ctx.dbd, ctx.bkg, [0], [1])
    lows = {}
    for r in res:
        if r['istart'] != 1:
            continue
        if r['error']:
            raise AnalysisBroken(r['error'])
        prep = genbb.prepare(D, {'i2bbs': r['i2bbs'], 'chnuclide': r['name'], 'istart': 1})
        g = prep['gc']
        unknown = sorted({x.stmt[1] for x in g.nodes if x.kind == 'call' and x.stmt[1] not in summ
                          and not x.stmt[1].startswith('event::') and not x.stmt[1].startswith('particle::') and x.stmt[1] != 'shift'})
        if unknown:
            raise AnalysisBroken('no particle-count summary for %s (called for %s)' % (unknown, r['name']))

        def lo(n):
            if n.kind == 'call' and n.stmt[1].endswith('low'):
                return Fraction(0)          # ground state: nothing to emit
            return Fraction(summ.get(n.stmt[1], (0, 0))[0]) if n.kind == 'call' else Fraction(0)

        def hi(n):
            return Fraction(summ.get(n.stmt[1], (0, 0))[1]) if n.kind == 'call' else Fraction(0)
        mn = int(min(pathsum.all_path_sums(g, lo)[0]))
        mx = int(max(pathsum.all_path_sums(g, hi)[0]))
        ok = mn >= 1 and mx <= 100
        rep.add('COUNT', '%d:%s' % (r['i2bbs'], r['name']), where(D.fn),
                '%s: between %d and %d particles over all paths' % (r['name'], mn, mx), ok,
                None if ok else ['minimum %d, maximum %d (allowed 1..100)' % (mn, mx)])
    rep.analysed['unit particle-count summaries'] = len(summ)
    rep.floor('COUNT', sum(1 for i in rep.instances if i.rule == 'COUNT'), 120)


def _loops(rep, flows):
    for k, (fn, g, side) in sorted(flows.items()):
        dom = g.dominators()
        preds = g.preds()
        for n in g.nodes:
            for h in n.succ:
                if h in dom.get(n.id, ()):          # back edge n -> h
                    body = _natural_loop(g, preds, n.id, h)
                    exits = [g.nodes[i] for i in body if g.nodes[i].kind == 'branch'
                             and any(s not in body for s in g.nodes[i].succ)]
                    draws_in = [i for i in body if g.nodes[i].stmt is not None and
                                sum(ir.count_draws(e) for e in tv._stmt_exprs(g.nodes[i]))]
                    calls_in = [i for i in body if g.nodes[i].kind == 'call' or any(
                        x[0] == 'call' and not tv.PURE_CALL.search(x[1]) for e in tv._stmt_exprs(g.nodes[i])
                        for x in ir.subexprs(e))]
                    if any(x.stmt[1][0] == 'op' and x.stmt[1][1] == 'more' for x in exits):
                        continue        # iteration over a container: deterministic
                    if not draws_in and not any(g.nodes[i].kind == 'call' and 'draw' in str(g.nodes[i].stmt)
                                                for i in body):
                        # deterministic loop (counted loop, golden section, ...): outside this rule
                        continue
                    # the deviate must be drawn on every iteration: a draw node dominates the back-edge source
                    fresh = [i for i in draws_in if i in dom.get(n.id, ())]
                    # and the exit condition must depend on a value defined in the loop
                    dep = False
                    defined = {tv.node_def(g.nodes[i]) for i in body} - {None}
                    for x in exits:
                        if tv.node_uses(x) & defined or ir.count_draws(x.stmt[1]):
                            dep = True
                    ok = bool(fresh) and dep and bool(exits)
                    rep.add('LOOP.progress', '%s:%s' % (fn['name'], ir.fmt(exits[0].stmt[1])[:40] if exits else h),
                            where(fn, g.nodes[h].line),
                            '%s: rejection loop at line %d draws a fresh deviate on every iteration and its exit '
                            'depends on it' % (fn['name'], g.nodes[h].line), ok,
                            None if ok else ['deviates in the loop: lines %s; on every iteration: %s; exit depends on loop '
                                             'values: %s' % ([g.nodes[i].line for i in draws_in],
                                                             [g.nodes[i].line for i in fresh], dep)])


def _nan_exits(rep, ctx):
    """LOOP.nan-exit, see rules/nanexit.py"""
    from .. import cpp2ir
    from ..rules import nanexit
    from ..tvcheck import REF_REL, _port_helpers
    rep.rule('LOOP.nan-exit', 'a rejection loop of a ported unit leaves the loop when its acceptance comparison is unordered '
             '(NaN operand) wherever the reference loop does: the unit has no more loops that *stay* on an unordered '
             'comparison than the reference unit, loops over polynomials of literals/deviates/integers excepted '
             '(`!(r > f)` and `r <= f` differ exactly there: one degraded event versus an unbounded number of deviates)')
    nloops = 0
    for name in sorted(ctx.units):
        u = ctx.units[name]
        if name in ('genbbsub', 'rnd1'):
            continue
        cfn, kernel = tvrun.select(ctx.prog, ctx.cands, name)
        if cfn is None:
            continue
        fints = {v for v in _f_names(u) if _f_is_int(u, v)}
        lf = nanexit.rejection_loops(cfgm.build(list(u.body)), fints)
        fns = [cfn] + ([kernel] if kernel is not None else []) + sorted(_port_helpers(ctx, cfn, kernel).values(),
                                                                         key=lambda f: f['name'])
        lc = []
        for f in fns:
            tree, lo = cpp2ir.lower_function(f, ctx.sigs)
            cints = {k for k, t in lo.locals.items() if t.replace('const ', '').strip() in cpp2ir.INT_TYPES} | \
                    {p['name'] for p in f['params'] if p['ty'].replace('const ', '').strip() in cpp2ir.INT_TYPES}
            for l in nanexit.rejection_loops(cfgm.build(tree), cints):
                lc.append((f, l))
        if not lf and not lc:
            continue
        nloops += len(lc)
        for f, l in lc:
            if not l['decided']:
                rep.cannot_decide('LOOP.nan-exit', where(f, l['line']), '%s: the exit condition `%s` of the rejection loop at '
                                  'line %d is not a combination of comparisons' % (f['name'], l['exits'][0][0], l['line']))
        allowance = sum(1 for l in lf if l['trapped'] and not l['nanfree'])
        bad = [(f, l) for f, l in lc if l['trapped'] and not l['nanfree']]
        for f, l in lc:
            ok = not (l['trapped'] and not l['nanfree']) or len(bad) <= allowance
            rep.add('LOOP.nan-exit', '%s:%s' % (f['name'], l['exits'][0][0][:40] if l['exits'] else l['line']),
                    where(f, l['line']),
                    '%s: the rejection loop at line %d %s' % (f['name'], l['line'],
                        'compares only polynomials of literals, deviates and integers' if l['nanfree'] and l['trapped'] else
                        'leaves the loop on an unordered comparison' if not l['trapped'] else
                        'stays on an unordered comparison' + (', as a loop of the reference unit does' if ok else
                                                            ' where no loop of the reference unit does')), ok,
                    None if ok else ['exit tests (condition, stays in the loop when unordered): %s' % l['exits'],
                                     'the reference unit %s (%s:%d) has %d loop(s) that stay on an unordered comparison; '
                                     'this unit has %d' % (name, REF_REL, u.line, allowance, len(bad)),
                                     'a NaN operand (e.g. an unset matrix element, a spectrum evaluated outside its '
                                     'domain) makes this loop draw deviates for ever where the reference returns'])
    rep.analysed['rejection loops of ported units (NaN polarity)'] = nloops
    rep.floor('LOOP.nan-exit', nloops, 17)


def _f_names(u):
    out = set()
    for s in tvrun._walk_stmts(u.body):
        for e in s[1:]:
            if isinstance(e, tuple):
                for x in ir.subexprs(e):
                    if x[0] in ('var', 'idx'):
                        out.add(x[1])
    return out


def _f_is_int(u, v):
    t = u.types.get(v)
    if t:
        return t.startswith('integer')
    return v[:1] in 'ijklmn'


def _natural_loop(g, preds, tail, head):
    body = {head, tail}
    st = [tail]
    while st:
        x = st.pop()
        if x == head:
            continue
        for p in preds[x]:
            if p not in body:
                body.add(p)
                st.append(p)
    return body


def _labels(rep, ctx):
    prog, D = ctx.prog, ctx.D
    fn = D.fn
    from ..rules import cppflow
    F = cppflow.Flow(fn)
    # every path from the generate entry to return passes set_generator(chnuclide_) and set_time(0.0)
    setgen = [n for n in F.nodes(kind='call') if n.stmt[1] == 'event::set_generator']
    ok = False
    det = None
    if setgen:
        n = setgen[0]
        arg = n.stmt[2][-1]
        scheme_calls = [c for c in F.nodes(kind='call') if c.stmt[1] not in ('event::set_generator', 'event::set_time',
                        'decay0_bb', 'event::shift_particles_time', 'bbpars::dump') and c.id in F.reach(n.id)]
        # all generation happens after the label is set: the call dominates every scheme call of the generate section
        gen_nodes = [c for c in F.nodes(kind='call') if c.line > n.line]
        ok = arg == ('var', 'chnuclide_') and all(F.dominates(n, c) for c in gen_nodes)
        if not ok:
            det = ['label argument: %s' % ir.fmt(arg)]
    rep.add('LABEL', 'genbbsub:label', where(fn, setgen[0].line if setgen else fn['l']),
            'genbbsub sets the generator label to the requested name before any scheme runs', ok, det)
    st = [n for n in F.nodes(kind='call') if n.stmt[1] == 'event::set_time']
    okt = bool(st) and all(n.stmt[2][-1][0] == 'num' and n.stmt[2][-1][1] == 0 for n in st) and len(st) >= 2
    rep.add('LABEL', 'genbbsub:time0', where(fn, st[0].line if st else fn['l']),
            'genbbsub forces the event reference time to 0 in both categories (%d calls)' % len(st), okt)
    # gA branch: export_to_event must label the event with the nuclide, like the legacy branch
    ex = prog.fn('bxdecay0::dbd_gA::shoot')
    FE = cppflow.Flow(ex)
    exp = [n for n in FE.nodes(kind='call') if n.stmt[1].endswith('export_to_event')]
    sg = [n for n in FE.nodes(kind='call') if n.stmt[1] == 'event::set_generator' and n.stmt[2][-1][0] != 'str']
    okg = bool(exp) and bool(sg) and all(s_.id in FE.reach(e_.id) and s_.id in FE.pdom.get(e_.id, ()) for e_ in exp for s_ in sg[:1])
    rep.add('LABEL', 'dbd_gA:label', where(ex, sg[0].line if sg else ex['l']),
            'dbd_gA::shoot labels the event with the requested isotope after export_to_event (which stamps a fixed string)',
            okg, None if okg else ['no set_generator(<nuclide>) follows export_to_event() in dbd_gA::shoot'])
    # daughter chaining shape in the generate section
    res = []
    for nm in ctx.bkg + ctx.dbd:
        if '+' not in nm and nm not in ('Bi214', 'Pb214', 'Po218', 'Rn222'):
            continue
        i2 = 2 if nm in ctx.bkg else 1
        prep = genbb.prepare(D, {'i2bbs': i2, 'chnuclide': nm, 'istart': 1})
        g = prep['gc']
        shifts = [n for n in g.nodes if n.kind == 'call' and n.stmt[1] == 'shift']
        # conversely: every chained daughter (a scheme called with creation time 0 after another scheme) is followed by the block shift
        schemes = [n for n in g.nodes if n.kind == 'call' and len(n.stmt[2]) == 2 and n.stmt[2][0] == ('num', Fraction(0)) and
                   n.stmt[1] not in ('shift',) and not n.stmt[1].startswith(('event::', 'particle::'))]
        dom_ = g.dominators()
        for d in schemes:
            if not any(o is not d and o.id in dom_.get(d.id, ()) for o in schemes):
                continue            # the parent: its own decay time is the time base
            nxt = [g.nodes[i] for i in d.succ]
            while len(nxt) == 1 and nxt[0].kind == 'branch' and nxt[0].succ[0] == nxt[0].succ[1]:
                nxt = [g.nodes[nxt[0].succ[0]]]
            okd = len(nxt) == 1 and nxt[0].kind == 'call' and nxt[0].stmt[1] == 'shift' and nxt[0].stmt[2][0] == d.stmt[2][1]
            if not okd:
                rep.add('TIMES.chain', '%s:%s:unshifted' % (nm, d.stmt[1]), where(fn, d.line), '%s: the particles of daughter %s (generated at time 0) are '
                        'shifted as a block by the decay time it returned' % (nm, d.stmt[1]), False,
                        'the call is followed by `%s`' % (ir.fmt_stmt(nxt[0].stmt)[:80] if nxt and nxt[0].stmt else 'nothing'))
        for s in shifts:
            preds = g.preds()
            p1 = [g.nodes[i] for i in preds[s.id]]
            okc = len(p1) == 1 and p1[0].kind == 'call' and len(p1[0].stmt[2]) == 2 and \
                p1[0].stmt[2][0] == ('num', Fraction(0)) and p1[0].stmt[2][1] == s.stmt[2][0]
            if okc:
                p2 = [g.nodes[i] for i in preds[p1[0].id]]
                while len(p2) == 1 and p2[0].kind == 'branch' and ir.count_draws(p2[0].stmt[1]) == 0:
                    p2 = [g.nodes[i] for i in preds[p2[0].id]]       # `if (!front().is_alpha())` between them
                okc = len(p2) == 1 and p2[0].kind == 'assign' and p2[0].stmt[1] == s.stmt[2][1] and \
                    p2[0].stmt[2] == genbb.COUNT
            rep.add('TIMES.chain', '%s:%s' % (nm, p1[0].stmt[1] if p1 and p1[0].kind == 'call' else s.line),
                    where(fn, s.line), '%s: daughter %s called at time 0, its block shifted by its parent decay time from the '
                    'index captured just before' % (nm, p1[0].stmt[1] if p1 and p1[0].kind == 'call' else '?'), okc)
