"""C01 - background/calibration decays reproduce the Decay0 reference, draw for draw (translation validation)."""
from ..framework import Report
from .. import tvcheck


def run(tier, seed):
    rep = Report('C01', level='translation_validation')
    ctx, scope = tvcheck.run(rep, 'background', tier)
    rep.floor('TV.unit', sum(1 for i in rep.instances if i.rule == 'TV.unit'), 80)
    rep.floor('TV.dispatch', sum(1 for i in rep.instances if i.rule == 'TV.dispatch'), 110)
    rep.assumptions += [
        'oracle: resources/code/decay0/decay0_2020-04-20.for as parsed by the f77 front end of /verif',
        'decided: structural equality (bisimulation / symbolic path summaries) of every reference unit reachable from '
        'the background dispatch with its C++ counterpart, and of the dispatch itself for every published name',
        'not decided: bit-level agreement (REAL*4 vs double), numerics of replaced third-party routines (GSL vs CERNLIB)',
        'admissible differences are an explicit table (DESIGN.md 2.4) and every use is listed in coverage',
    ]
    return rep
