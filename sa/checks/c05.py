"""C05 - a published nuclide name selects exactly one decay scheme; catalogues agree."""
import re

from .. import astu, docs, genbb, ir, project, tvcheck
from ..framework import Report, where
from ..project import AnalysisBroken

SCHEME_IGNORE = ('event::set_time', 'event::set_generator', 'shift', 'bb', 'event::shift_particles_time')
CHAIN_DBD = {'Bi214': ['at214low', 'at214'], 'Pb214': ['po214low', 'po214'],
             'Po218': ['rn218low', 'rn218', 'po214'], 'Rn222': ['ra222low', 'ra222', 'rn218', 'po214']}


def _verbatim(rep, prog):
    """the catalogue loaders publish the first word of each list line as it is"""
    from ..rules import cppflow, taint
    rep.rule('CATALOGUE.verbatim', 'the isotope-list loaders insert into the catalogue exactly the word extracted from the line: no statement '
             'between the extraction and the insert modifies it (published names = names in the list files, character for character)')
    n = 0
    for key, fn in sorted(prog.functions.items()):
        if fn['name'] not in ('_init_dbd_isotopes', '_init_background_isotopes') and not \
                (fn.get('file', '').endswith('bb_utils.cc') and any(c['callee']['qn'].endswith('::insert') for c in astu.calls(fn['body']))
                 and any(c['k'] == 'OpCall' and c.get('op') == '>>' for c in astu.walk(fn['body']))):
            continue
        F = cppflow.Flow(fn, keep_io=True, helpers={k: v for k, v in cppflow.private_helpers(prog, fn).items() if not v.get('method')})
        ins = [x for x in F.nodes(kind='call') if x.stmt[1].endswith('::insert') and len(x.stmt[2]) == 2 and x.stmt[2][1][0] == 'var']
        ex = taint.extraction_nodes(F)
        if not ins or not ex:
            continue
        for i in ins:
            n += 1
            v = i.stmt[2][1]
            words = {w for node, s_, vs in ex for w in vs}
            # chain of plain copies back to an extracted word
            chain = [v[1]]
            cur = v
            ok, why = True, None
            for _ in range(4):
                if cur[1] in words:
                    break
                defs = [d for d in F.nodes(kind='assign') if d.stmt[1] == cur and F.dominates(d, i)]
                if not defs:
                    # the word is produced somewhere this rule does not look (an out-parameter of a helper, a member): undecided
                    ok, why = None, '`%s` has no visible definition between the extraction and the insert' % cur[1]
                    break
                if len(defs) != 1 or defs[0].stmt[2][0] != 'var':
                    ok, why = False, '`%s` is not a plain copy of the extracted word (%s)' % (cur[1], ir.fmt(defs[0].stmt[2])[:60])
                    break
                cur = defs[0].stmt[2]
                chain.append(cur[1])
            if ok and cur[1] not in words:
                ok, why = None, '`%s` does not visibly come from the extraction' % v[1]
            if ok is None:
                rep.cannot_decide('CATALOGUE.verbatim', where(fn, i.line), '%s: %s' % (fn['name'], why))
                continue
            if ok:
                src = [node for node, s_, vs in ex if cur[1] in vs and F.dominates(node, i)]
                start = src[-1] if src else None
                names = set(chain)
                for m in F.g.nodes:
                    if start is None or m.id in (start.id, i.id) or not (F.dominates(start, m) and i.id in F.reach(m.id) and m.id in F.reach(start.id)):
                        continue
                    if m.kind == 'assign' and m.stmt[1][0] == 'var' and m.stmt[1][1] in names and not (m.stmt[2][0] == 'var' and m.stmt[2][1] in names):
                        ok, why = False, 'line %d rewrites `%s`' % (m.line, m.stmt[1][1])
                    if m.kind == 'call' and not m.stmt[1].endswith('::insert') and any(a[0] == 'var' and a[1] in names for a in m.stmt[2]) and \
                            not tv_pure(m.stmt[1]):
                        ok, why = False, 'line %d: `%s` may modify `%s` before it is inserted' % (m.line, ir.fmt_stmt(m.stmt)[:60], ', '.join(sorted(names)))
            rep.add('CATALOGUE.verbatim', '%s:%s' % (fn['name'], v[1]), where(fn, i.line), '%s inserts the extracted word unchanged (%s)' % (fn['name'], ' <- '.join(chain)),
                    ok, why)
    # both catalogues are covered: each of the two list initialisers holds a verified insert site or calls a function that does
    site_fns = {i.key.split(':')[0] for i in rep.instances if i.rule == 'CATALOGUE.verbatim'}
    inits = [f for k_, f in prog.functions.items() if f['name'] in ('_init_dbd_isotopes', '_init_background_isotopes')]
    covered = 0
    for f in inits:
        if f['name'] in site_fns or any(c['callee']['qn'].split('::')[-1] in site_fns for c in astu.calls(f['body'])):
            covered += 1
    if not ((len(inits) == 2 and covered == 2) or n >= 2):
        raise AnalysisBroken('the isotope-list loaders: insert sites found for %d of the two catalogues (%d site(s))' % (covered, n))


def tv_pure(name):
    from .. import tv
    return bool(tv.PURE_CALL.search(name)) or name.split('::')[-1] in ('empty', 'size', 'length', 'compare', 'find', 'c_str')


def canon(name):
    return re.sub(r'[^A-Za-z0-9]', '', name).lower()


def run(tier, seed):
    rep = Report('C05')
    ctx = tvcheck.Context()
    D = ctx.D
    fn = D.fn
    rep.rule('DISPATCH.exclusive', 'genbbsub specialised on each published name (constant propagation; the prefix helper '
             'folded from its own body): the generate stage calls the scheme of that nuclide first and nothing but its '
             'documented daughters after it; a double-beta name reaches at most one de-excitation routine')
    rep.rule('DISPATCH.prefix-pairs', 'for every pair of published names where one is a prefix of the other, the two '
             'names reach disjoint first schemes')
    rep.rule('DISPATCH.check=dispatch', 'the initialisation stage accepts a published name iff the generate stage has a '
             'scheme for it; unknown names are rejected')
    rep.rule('DISPATCH.no-draw', 'a dispatch arm consumes no deviate outside the scheme calls')
    rep.rule('CATALOGUE.equal', 'README appendix lists = resource list files = names the code accepts; mode table = '
             'dbd_modes.lis = dbd_mode_type enumerators')
    rep.rule('CATALOGUE.parse', 'every line of the shipped list files is handled by the shipped parsers '
             '(first word; # comments; names without blanks)')
    res = genbb.grid(D, ctx.dbd, ctx.bkg, [0], list(range(1, 21)))
    by = {(r['i2bbs'], r['name'], r['istart']): r for r in res}
    for r in res:
        if r['error']:
            raise AnalysisBroken('dispatch %s: %s' % (r['name'], r['error']))
    units = set(ctx.cands)
    first_scheme = {}
    for (i2, name, ist), r in sorted(by.items()):
        if ist != 1:
            continue
        calls = [c for c, l in r['port_calls'] if c not in SCHEME_IGNORE]
        line = r['port_calls'][0][1] if r['port_calls'] else fn['l']
        base = name.split('+')[0]
        daughters = [canon(d) for d in name.split('+')[1:]]
        if i2 == 2:
            ok = bool(calls) and calls[0] == canon(base) and all(c in daughters for c in calls[1:]) \
                and len(set(calls)) == len(calls)
            first_scheme[name] = calls[0] if calls else None
            rep.add('DISPATCH.exclusive', 'bkg:' + name, where(fn, line),
                    'background name %s -> schemes %s' % (name, calls), ok,
                    None if ok else ['expected the scheme `%s` first, then only %s' % (canon(base), daughters or 'nothing'),
                                     'the generate stage specialised on this name calls: %s' % (calls or 'nothing')])
        else:
            lows = [c for c in calls if c.endswith('low')]
            others = [c for c in calls if not c.endswith('low')]
            exp_chain = CHAIN_DBD.get(name)
            if exp_chain:
                ok = calls == exp_chain
            else:
                ok = len(lows) <= 1 and not others
            first_scheme['dbd:' + name] = lows[0] if lows else None
            rep.add('DISPATCH.exclusive', 'dbd:' + name, where(fn, line),
                    'double-beta name %s -> de-excitation %s' % (name, calls or 'none'), ok,
                    None if ok else ['at most one *low routine (and the documented alpha chain %s) expected' % exp_chain,
                                     'the generate stage specialised on this name calls: %s' % calls])
        rep.add('DISPATCH.no-draw', '%d:%s' % (i2, name), where(fn, r['port_draws'][0] if r['port_draws'] else line),
                '%s: dispatch arm draws no deviate itself' % name, not r['port_draws'],
                None if not r['port_draws'] else ['deviate consumed at line(s) %s of genbbsub.cc' % r['port_draws']])
        ini = by[(i2, name, -1)]
        acc = [a[3] for a in ini['accept']]
        accepted = any(a is True for a in acc)      # some mode 1..20 to the ground state is accepted
        has_scheme = bool(calls) or i2 == 1
        rep.add('DISPATCH.check=dispatch', '%d:%s' % (i2, name), where(fn),
                '%s: accepted at initialisation = %s, scheme at generation = %s' % (name, accepted, has_scheme),
                accepted and has_scheme,
                None if accepted and has_scheme else ['published name is %s at initialisation and %s a scheme at generation'
                                                       % ('accepted' if accepted else 'REJECTED',
                                                          'has' if has_scheme else 'has NO')])
    # prefix pairs
    for cat, names in ((2, ctx.bkg), (1, ctx.dbd)):
        bases = sorted({n.split('+')[0] for n in names})
        for a in bases:
            for b in bases:
                if a != b and b.startswith(a):
                    fa = [n for n in names if n.split('+')[0] == a][0]
                    fb = [n for n in names if n.split('+')[0] == b][0]
                    ka, kb = (fa, fb) if cat == 2 else ('dbd:' + fa, 'dbd:' + fb)
                    sa_, sb_ = first_scheme.get(ka), first_scheme.get(kb)
                    ok = sa_ is not None and sb_ is not None and sa_ != sb_
                    rep.add('DISPATCH.prefix-pairs', '%s<%s' % (a, b), where(fn),
                            'names %s / %s select schemes %s / %s' % (a, b, sa_, sb_), ok)
    # unknown names are rejected at initialisation (both categories)
    probes = ['Xx99', 'Co6', 'co60', 'Te13', 'Ca4']
    pres = genbb.grid(D, probes, probes, [0], [1])
    for r in pres:
        if r['istart'] != -1:
            continue
        acc = [a[3] for a in r['accept']]
        rejected = bool(acc) and all(a is False for a in acc)
        rep.add('DISPATCH.check=dispatch', 'probe:%d:%s' % (r['i2bbs'], r['name']), where(fn),
                'unpublished name %s (category %d) is rejected at initialisation' % (r['name'], r['i2bbs']), rejected)
    # ---- catalogues
    rd = docs.readme_dbd_isotopes()
    rb = docs.readme_background_isotopes()
    ld = docs.lis('resources/description/dbd_isotopes.lis')
    lb = docs.lis('resources/description/background_isotopes.lis')
    for tag, rl, ll, rel in (('dbd', rd, ld, 'resources/description/dbd_isotopes.lis'),
                             ('background', rb, lb, 'resources/description/background_isotopes.lis')):
        rn = [n for n, _ in rl]
        ln = [n for n, _, _ in ll]
        # README may document only the parent of a 'parent+daughter' list entry
        missing = [n for n in ln if n not in rn and n.split('+')[0] not in rn]
        extra = [n for n in rn if n not in ln and n not in [x.split('+')[0] for x in ln]]
        rep.add('CATALOGUE.equal', tag + ':readme=lis', 'README.rst:%d' % (rl[0][1] if rl else 0),
                'README %s isotope list (%d) = %s (%d)' % (tag, len(rn), rel, len(ln)),
                not missing and not extra and len(set(ln)) == len(ln),
                None if not missing and not extra else ['in the list file but not in README: %s' % missing,
                                                         'in README but not in the list file: %s' % extra])
        for n, rest, no in ll:
            ok = re.fullmatch(r'[A-Za-z0-9+\-]+', n) is not None
            rep.add('CATALOGUE.parse', '%s:%s' % (tag, n), '%s:%d' % (rel, no),
                    'list entry `%s` is one blank-free word' % n, ok)
    # mode table
    lm = docs.lis('resources/description/dbd_modes.lis')
    rm = docs.readme_modes()
    prog = ctx.prog
    en = prog.enums.get('bxdecay0::dbd_mode_type')
    if en is None:
        raise AnalysisBroken('enum bxdecay0::dbd_mode_type not found')
    evals = {e['name']: e['val'] for e in en['enumerators']}
    lis_modes = {}
    for w, rest, no in lm:
        if not w.lstrip('-').isdigit() or len(rest) < 2:
            rep.add('CATALOGUE.parse', 'modes:line%d' % no, 'resources/description/dbd_modes.lis:%d' % no,
                    'mode record has id, label, legacy number', False)
            continue
        lis_modes[int(w)] = (rest[0], rest[1], no)
    labels = [v[0] for v in lis_modes.values()]
    rep.add('CATALOGUE.equal', 'modes:labels-injective', 'resources/description/dbd_modes.lis:1',
            'mode labels are pairwise different (label -> mode -> label is the identity)', len(set(labels)) == len(labels))
    legacy = [v[1] for v in lis_modes.values() if not v[1].startswith('-')]
    rep.add('CATALOGUE.equal', 'modes:legacy-injective', 'resources/description/dbd_modes.lis:1',
            'non-negative legacy mode numbers are pairwise different', len(set(legacy)) == len(legacy))
    for enum_name, label, leg, no in rm:
        num = evals.get(enum_name)
        ok = num is not None and num in lis_modes and lis_modes[num][0] == label and \
            (lis_modes[num][1] == leg or (leg in ('', 'N/A', 'NA', '-') and lis_modes[num][1].startswith('-')))
        rep.add('CATALOGUE.equal', 'modes:' + enum_name, 'README.rst:%d' % no,
                'README mode row %s (%s, legacy %s) = enumerator value and dbd_modes.lis record' % (enum_name, label, leg),
                ok, None if ok else ['enumerator value: %s; list record: %s' % (num, lis_modes.get(num))])
    listed = {e for e, _, _, _ in rm}
    for name, val in sorted(evals.items()):
        if re.fullmatch(r'DBDMODE_\d+', name):
            rep.add('CATALOGUE.equal', 'enum:' + name, where({'file': en['file'], 'l': en['l']}),
                    'enumerator %s = %d has a dbd_modes.lis record and a README row' % (name, val),
                    val in lis_modes and name in listed)
    _verbatim(rep, prog)
    rep.floor('DISPATCH.exclusive', sum(1 for i in rep.instances if i.rule == 'DISPATCH.exclusive'), 120)
    rep.floor('CATALOGUE.equal', sum(1 for i in rep.instances if i.rule == 'CATALOGUE.equal'), 40)
    rep.analysed['published names'] = len(ctx.bkg) + len(ctx.dbd)
    rep.analysed['prefix helper'] = 'bxdecay0::name_starts_with folded from its body (sa/minieval.py)'
    rep.extra['exhaustive'] = True
    rep.assumptions += ['decided: everything structural about the dispatch and the catalogues; the event-level statement '
                        'reduces to these given C01/C02 unit-level verdicts']
    _one_engine(rep, ctx.prog)
    from ..rules import cachemem
    cachemem.check(rep, prog)
    return rep


def _one_engine(rep, prog):
    """the generator class hands a request to exactly one engine per shot"""
    from ..rules import cppflow
    rep.rule('DISPATCH.one-engine', 'no path through decay0_generator::shoot() calls more than one engine (genbbsub once, or the gA '
             'sampler once): a `switch` case that falls into the next one, or two independent ifs, would run the double-beta decay and '
             'then the like-named background decay on the same event')
    sh = prog.fn('bxdecay0::decay0_generator::shoot')
    try:
        F = cppflow.Flow(sh, helpers=cppflow.private_helpers(prog, sh))
    except AnalysisBroken:
        F = cppflow.Flow(sh)
    g = F.g
    eng = {n.id for n in F.nodes(kind='call') if n.stmt[1] in ('genbbsub', 'dbd_gA::shoot')}
    if True:
        # engine calls that live in a file-local helper which is not expanded (value-returning): calls of such helpers count too
        locals_ = {f['name'] for f in prog.functions.values() if f.get('file') == sh.get('file') and f is not sh and
                   any(c['callee']['qn'].split('::')[-1] in ('genbbsub',) for c in astu.calls(f['body']))}
        eng |= {n.id for n in g.nodes if n.stmt is not None and n.kind in ('call', 'assign', 'eval') and
               any(x[0] == 'call' and x[1].split('::')[-1] in locals_ for x in ir.subexprs(('op', 'w') + tuple(
                   y for y in (n.stmt[2] if n.kind == 'call' else n.stmt[1:]) if isinstance(y, tuple)))) or
               (n.kind == 'call' and n.stmt[1].split('::')[-1] in locals_)}
        eng |= {n.id for n in F.nodes(kind='call') if n.stmt[1] == 'dbd_gA::shoot'}
    if not eng:
        rep.cannot_decide('DISPATCH.one-engine', where(sh), 'no engine call (genbbsub / dbd_gA::shoot) found in shoot() or its helpers')
        return
    # longest and shortest count of engine calls over the acyclic paths to a normal return (back edges ignored)
    dom = F.dom
    memo = {}

    def span(i, stack):
        if i in memo:
            return memo[i]
        n = g.nodes[i]
        here = 1 if i in eng else 0
        if n.kind == 'return':
            return (here, here)
        if n.kind == 'throw':
            return None
        res = None
        for s_ in n.succ:
            if s_ in stack or s_ in dom.get(i, ()):        # back edge
                continue
            r = span(s_, stack | {i})
            if r is None:
                continue
            res = r if res is None else (min(res[0], r[0]), max(res[1], r[1]))
        if res is None:
            memo[i] = None
            return None
        memo[i] = (res[0] + here, res[1] + here)
        return memo[i]
    r = span(g.entry.id, frozenset())
    ok = r is not None and r[1] == 1          # (a path with none is the undefined category, refused by initialize())
    rep.add('DISPATCH.one-engine', 'shoot', where(sh), 'between %s and %s engine calls on the paths of shoot() that return' %
            (r if r is None else r[0], r if r is None else r[1]), ok,
            None if ok else ['a returning path of shoot() calls %s engines (expected at most one, and one on the defined categories)' % (r,)])
