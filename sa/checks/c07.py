"""C07 - an event depends only on configuration and deviates, never on history or reuse (necessary structural conditions)."""
from .. import astu, callgraph, cpp2ir, ir, project
from ..framework import Report, where
from ..project import AnalysisBroken
from ..rules import cppflow, initstate, inv, statics, typestate

GEN = 'bxdecay0::decay0_generator'


def run(tier, seed):
    rep = Report('C07')
    prog = project.load('lib')
    cg = callgraph.CallGraph(prog)
    sigs = cpp2ir.build_sigs(prog)
    # 1. no static-storage variable written after initialisation
    n = statics.check_statics(rep, prog, cg)
    rep.analysed['non-const static-storage variables'] = n
    groots = cg.keys_of('bxdecay0::decay0_generator::shoot') + cg.keys_of('bxdecay0::genbbsub') + \
        cg.keys_of('bxdecay0::dbd_gA::shoot') + cg.keys_of('bxdecay0::momentum_direction_lock_event_op::operator()')
    nfz = statics.check_frozen_inputs(rep, prog, cg, groots)
    rep.floor('STATICS.frozen-input', nfz, 20)
    # 2. no entropy / time source reachable from initialize / shoot
    rep.rule('GLOBAL-EFFECT.entropy', 'no wall-clock, process id, C random or random_device call is reachable from '
             'decay0_generator::initialize / shoot (or from any library function at all)')
    roots = cg.keys_of(GEN + '::initialize') + cg.keys_of(GEN + '::shoot')
    reach = cg.reachable(roots)
    ent = [s for s in statics.effect_sites(prog, prog.functions.keys()) if s[3] == 'entropy']
    rep.add('GLOBAL-EFFECT.entropy', 'library', 'bxdecay0/', '%d functions reachable from initialize/shoot, %d in the '
            'library: no entropy/time source called' % (len(reach), len(prog.functions)), not ent,
            None if not ent else ['%s calls %s at line %s' % (e[0]['qn'], e[1], e[2]) for e in ent])
    rep.analysed['functions reachable from initialize/shoot'] = len(reach)
    # 3. shoot(): the event is reset before anything is generated
    rep.rule('SHOOT.reset-first', 'in shoot() `event_.reset()` dominates every generator call and every operation call')
    sh = prog.fn(GEN + '::shoot')
    try:
        F = cppflow.Flow(sh, helpers=cppflow.private_helpers(prog, sh))     # engine calls folded into a private helper are expanded
    except AnalysisBroken:
        F = cppflow.Flow(sh)
    rs = [x for x in F.nodes(kind='call') if x.stmt[1] == 'event::reset']
    gens = [x for x in F.nodes(kind='call') if x.stmt[1] in ('genbbsub', 'dbd_gA::shoot') or x.stmt[1].startswith('indirect')
            or x.stmt[1].endswith('operator()')]
    engines = [g for g in gens if g.stmt[1] in ('genbbsub', 'dbd_gA::shoot')]
    # calls of file-local helpers of shoot() (e.g. the operations loop moved into `apply_operations`) must come after the reset too
    locals_ = {f['name'] for f in prog.functions.values() if f.get('file') == sh.get('file') and not f.get('method')}
    gens += [x for x in F.nodes(kind='call') if x.stmt[1].split('::')[-1] in locals_ and x not in gens]
    ok = bool(rs) and len(engines) >= 1 and all(F.dominates(rs[0], g) for g in gens)
    rep.add('SHOOT.reset-first', 'shoot', where(sh, rs[0].line if rs else sh['l']),
            'event_.reset() precedes the %d generator/operation calls of shoot()' % len(gens), ok)
    # ... and it is the *same object* that is reset and then filled: an engine appends to the event it is given, so an event that
    # lives longer than one shot (a member used as a work area, a cached event) and is not cleared on every entry carries the
    # particles of an earlier - possibly failed - shot into this one
    rep.rule('SHOOT.same-event', 'every event handed to an engine or to a post-generation operation in shoot() is the object whose '
             'reset() dominates that call (references are resolved to their referent): nothing is appended to an event that may '
             'still hold particles of an earlier shot')
    pos = {'genbbsub': 1, 'dbd_gA::shoot': 2}
    nse = 0
    for g in gens:
        nm = g.stmt[1]
        i = pos.get(nm, 2 if (nm.endswith('operator()') or nm.startswith('indirect')) else None)
        args = g.stmt[2] if isinstance(g.stmt[2], (list, tuple)) else ()
        if i is None or i >= len(args):
            continue
        tgt = ir.fmt(args[i])
        doms = [r for r in rs if r.stmt[2] and ir.fmt(r.stmt[2][0]) == tgt and F.dominates(r, g)]
        fresh = [v for d in astu.walk(sh['body']) if d['k'] == 'Decl' for v in d['vars']
                 if v['name'] == tgt and v['ty'].replace('bxdecay0::', '').strip() == 'event' and not v.get('static')]
        if not doms and fresh:
            doms = fresh            # a by-value local event of shoot() is default-constructed (empty) on every entry
        nse += 1
        rep.add('SHOOT.same-event', 'shoot:%s:%s' % (nm, tgt), where(sh, g.line),
                '`%s(... %s ...)` fills the event that was reset on entry' % (nm, tgt), bool(doms),
                None if doms else ['no `%s.reset()` dominates this call (reset receivers in shoot(): %s): whatever `%s` held before '
                                   'this shot - e.g. the particles of a shot that threw before handing them over - is still in it'
                                   % (tgt, sorted({ir.fmt(r.stmt[2][0]) for r in rs if r.stmt[2]}) or 'none', tgt)])
    rep.floor('SHOOT.same-event', nse, 2)
    ev = typestate.reset_complete(rep, prog, 'bxdecay0::event', 'bxdecay0::event::reset', 'RESET.complete')
    pt = typestate.reset_complete(rep, prog, 'bxdecay0::particle', 'bxdecay0::particle::reset', 'RESET.complete')
    rep.rule('RESET.complete', 'reset() of event/particle/bbpars assigns every data member (write-set inclusion): a reused '
             'object carries nothing over')
    bp = typestate.reset_complete(rep, prog, 'bxdecay0::bbpars', 'bxdecay0::bbpars::reset', 'RESET.complete')
    # the generator itself: a recycled instance (reset + same settings) must not keep anything a fresh one does not have
    from .c09 import generator_reset_complete
    # (`_debug_` only gates diagnostic printing; its survival across reset() is C09's known finding, it cannot change an event)
    generator_reset_complete(rep, prog, ignore=('_debug_',))
    rep.floor('RESET.complete', ev + pt + bp, 30)
    # a lazily filled cache member must not survive a change of its sources (an earlier getter/dump call would change later events)
    from ..rules import cachemem
    cachemem.check(rep, prog)
    # per-event working members of the event operations are assigned before they are read in every call
    from ..rules import scratch
    for opq in sorted({f['qn'] for f in prog.functions.values() if f.get('name') == '_rotate_event_' and f.get('body')}):
        scratch.check(rep, prog, opq)
    rep.floor('SCRATCH.def-before-use', sum(1 for i in rep.instances if i.rule == 'SCRATCH.def-before-use'), 1)
    # 4. use-after-invalidate (a capacity-dependent result)
    nb, adders = inv.check_all(rep, prog, cg, sigs, prog.functions.keys())
    rep.floor('INV.use-after-invalidate', nb, 6)
    # 5. definite assignment of the working state in _init_
    initstate.def_before_use(rep, prog)
    rep.assumptions += ['decided: four necessary structural conditions (no hidden static state, no entropy source, reset '
                        'before fill / complete resets / no dangling element binding, working state re-assigned by _init_)',
                        'not decided: equality of two concrete event streams']
    return rep
