"""C03 - every event closes its energy budget against the Q-value and honours the window (decided clauses)."""
from fractions import Fraction

from .. import docs, genbb, ir, pathsum, project, tvcheck
from ..framework import Report, where
from ..project import AnalysisBroken
from ..rules import cppflow

TOL = Fraction(3, 1000)       # "a few keV of tabulated-energy rounding"


def run(tier, seed):
    rep = Report('C03')
    ctx = tvcheck.Context()
    prog, D = ctx.prog, ctx.D
    rep.rule('CASCADE.closure', 'in every *low unit, entered with each level L it dispatches on, EVERY path to return emits '
             'transitions whose energies sum to L keV within 3 keV (gamma/electron E; positron/pair E+1.022; '
             'nucltransK* E_gamma); rejection loops emit nothing')
    rep.rule('LEVELS.dispatchable', 'every level energy genbbsub tabulates for an isotope is a level its de-excitation '
             'routine dispatches on (otherwise the routine takes its wrong-level exit and emits nothing)')
    rep.rule('DEEXC.arm', 'every isotope with a tabulated excited level has a de-excitation arm in the generate section')
    rep.rule('E0.siblings', 'the available-energy formulas e0 = Q - E_level [- 4me | - EK - 2me | - 2EK] of decay0_bb and of '
             'the energy check of genbbsub agree (mode lists and expressions)')
    rep.rule('ZERONU.sum', 'the second lepton gets e0 - e1 exactly for the neutrinoless modes without other invisible '
             'particles (labels 0nubb_*), so that the lepton energies sum to e0')
    rep.rule('WINDOW.clamp', 'ebb1 < 0 -> 0 and ebb2 > e0 -> e0 are applied before the spectrum is computed; the second '
             'lepton is drawn in [max(0, ebb1 - e1), ebb2 - e1]')
    # ---- 1. cascade closure
    lows = {}
    for (qn, _), fn in sorted(prog.functions.items()):
        if qn.startswith('bxdecay0::') and qn.endswith('low') and not fn.get('method'):
            lows[fn['name'].lower()] = fn
    unit_levels = {}
    paths_checked = 0
    for name, fn in sorted(lows.items()):
        g, side = pathsum.unit_cfg(fn, ctx.sigs)
        lv = pathsum.dispatch_levels(g)
        unit_levels[name] = lv
        for L in sorted(lv):
            r = pathsum.specialise(g, {'levelkev': L})
            nonconst = [n for n in r.nodes if pathsum.node_energy(n) is None]
            if nonconst:
                rep.add('CASCADE.closure', '%s:%d' % (name, L), where(fn, nonconst[0].line),
                        '%s level %d: emission energy is a constant' % (name, L), False,
                        ['the energy argument of `%s` does not fold to a literal' % ir.fmt_stmt(nonconst[0].stmt)])
                continue
            contrib = pathsum.node_energy
            cyc = pathsum.cycles_contribute(r, contrib)
            if cyc:
                rep.add('CASCADE.closure', '%s:%d' % (name, L), where(fn, cyc[0].line),
                        '%s level %d: loops emit nothing' % (name, L), False,
                        ['emission inside a loop at line %d: %s' % (cyc[0].line, ir.fmt_stmt(cyc[0].stmt))])
                continue
            sums, witness = pathsum.all_path_sums(r, contrib)
            paths_checked += len(sums)
            want = Fraction(L, 1000)
            off = sorted(s for s in sums if abs(s - want) > TOL)
            det = None
            if off:
                w = witness(off[0])
                steps = ['%s (line %d)' % (ir.fmt_stmt(r.nodes[i].stmt)[:90], r.nodes[i].line)
                         for i in w if r.nodes[i].kind == 'call' and r.nodes[i].stmt[1] in pathsum.EMIT]
                det = ['a path emits %.3f MeV instead of %.3f MeV (off by %+.0f keV):' %
                       (float(off[0]), float(want), float((off[0] - want) * 1000))] + steps[:14]
            # site key: the offending transition energies, not line numbers
            key = '%s:%d' % (name, L) if not off else '%s:%d:%s' % (name, L, ','.join('%d' % round(float(o) * 1000) for o in off[:4]))
            rep.add('CASCADE.closure', key, where(fn, lv[L]),
                    '%s level %d keV: %d distinct path totals, all within 3 keV' % (name, L, len(sums)), not off, det)
    rep.analysed['*low units'] = len(lows)
    rep.analysed['distinct path totals examined'] = paths_checked
    # ---- 2./3. level tables and arms
    res = genbb.grid(D, ctx.dbd, [], list(range(-1, 18)), [1])
    by = {(r['name'], r['istart']): r for r in res}
    for nm in ctx.dbd:
        ini, gen = by[(nm, -1)], by[(nm, 1)]
        if ini['error'] or gen['error']:
            raise AnalysisBroken('dispatch %s: %s' % (nm, ini['error'] or gen['error']))
        levels = dict(sorted(ini['levele'].items()))
        low = [c for c, l in gen['port_calls'] if c.endswith('low')]
        excited = {l: e for l, e in levels.items() if e > 0}
        if excited:
            rep.add('DEEXC.arm', nm, where(D.fn), '%s has excited levels %s and a de-excitation arm %s' %
                    (nm, sorted(excited.values()), low), bool(low),
                    None if low else ['levels %s keV are accepted but the generate section calls no *low routine for %s'
                                      % (sorted(excited.values()), nm)])
        if low:
            u = low[0]
            if u not in unit_levels:
                raise AnalysisBroken('de-excitation routine %s of %s not found' % (u, nm))
            missing = {l: e for l, e in levels.items() if e not in unit_levels[u]}
            rep.add('LEVELS.dispatchable', nm, where(lows[u]),
                    '%s: level energies %s are all handled by %s' % (nm, sorted(levels.values()), u), not missing,
                    None if not missing else ['%s does not dispatch on %s keV (level index %s): wrong-level exit, no cascade'
                                              % (u, sorted(missing.values()), sorted(missing))])
    _e0_rules(rep, prog)
    rep.floor('CASCADE.closure', sum(1 for i in rep.instances if i.rule == 'CASCADE.closure'), 170)
    rep.floor('LEVELS.dispatchable', sum(1 for i in rep.instances if i.rule == 'LEVELS.dispatchable'), 44)
    rep.assumptions += ['decided: cascade closure on all CFG paths, level-table agreement, presence of de-excitation arms, '
                        'e0 formula agreement, e2 = e0 - e1 for 0nu modes, window clamps',
                        'not decided: that sampled lepton energies fall inside the window; toallevents >= 1 / monotone '
                        '(numerical integration results); energy closure of the follow-up alpha chains']
    rep.rule('WINDOW.forward', 'each bound of the configured energy-sum window reaches the engine on its own (a one-sided window is honoured)')
    from ..rules import window
    window.forward(rep, project.load('lib'), 'WINDOW.forward')
    # the closure rules count `pair(E)` as E + 1.022 MeV and every other primitive as its argument: the primitives must emit exactly that
    from . import c04 as _c04
    rep.rule('BUDGET.primitive', 'at every call site with a literal energy, the kinetic energies an emission primitive hands to particle() add '
             'up to its energy argument (the convention the cascade-closure summaries and the reference rely on; a primitive that '
             'subtracts the pair threshold itself loses 1.022 MeV at every caller that still passes a kinetic energy)')
    _c04._wrapper_energies(rep, _c04.generation_flows(ctx), budget_rule='BUDGET.primitive')
    # the level energy enters the budget as levelE / 1000.: an integer/integer quotient would truncate it to whole MeV
    from ..rules import intdiv
    lp = project.load('lib')
    bud = [k for k, f in lp.functions.items() if f.get('file', '').endswith(('/genbbsub.cc', '/bb.cc', '/bb.h', '/bb_utils.cc', '/decay0_generator.cc'))
           and f.get('body')]
    rep.analysed['integer/integer divisions in the energy-budget units'] = intdiv.check(rep, lp, bud, rule='BUDGET.no-truncation')
    rep.rule('BUDGET.no-truncation', 'in genbbsub / bb / bb_utils / decay0_generator no integer/integer division has its truncated quotient '
             'converted to floating point (Edlevel = levelE / 1000. must keep the keV part of the daughter level energy)')
    rep.add('BUDGET.no-truncation', 'scan', 'bxdecay0/genbbsub.cc', '%d functions of the energy-budget units scanned' % len(bud), len(bud) >= 10, nontrivial=False)
    return rep


def _guard_modes(F, node, var='modebb'):
    """mode literals of the nearest branch that decides whether `node` executes"""
    best = None
    for b in F.nodes(kind='branch'):
        if F.dominates(b, node) and node.id in F.reach(b.succ[0]) and node.id not in F.reach(b.succ[1]):
            if best is None or F.dominates(best, b):
                best = b
    if best is None:
        return None, None
    c = F.resolve_flags(best.stmt[1])
    lits = sorted({int(z[1]) for x in ir.subexprs(c) if x[0] == 'op' and x[1] == '==' and cppflow.mentions(x, var)
                   for z in x[2:] if z[0] == 'num'})
    return lits, best


def _e0_rules(rep, prog):
    bb = prog.fn('bxdecay0::decay0_bb')
    gs = prog.fn('bxdecay0::genbbsub')
    FB, FG = cppflow.Flow(bb), cppflow.Flow(gs)

    def table(F, fnname):
        rows = []
        for n in F.nodes(kind='assign'):
            l = n.stmt[1]
            if (l[0] == 'var' and l[1] == 'e0') or (l[0] == 'fld' and l[2] == 'e0'):
                if any(x[0] == 'call' and 'quiet' in x[1].lower() for x in ir.subexprs(n.stmt[2])):
                    continue
                lits, b = _guard_modes(F, n)
                cond = ir.fmt(b.stmt[1]) if b is not None else ''
                # drop the level term and field qualifiers
                def f(x):
                    if x[0] == 'fld':
                        return ('var', x[2].lower())
                    if x[0] == 'var':
                        return ('var', x[1].lower())
                    if x[0] == 'num':
                        return ('num', x[1])
                    return x
                e = ir.map_expr(f, n.stmt[2])
                e = ir.map_expr(lambda x: ('num', Fraction(0)) if x == ('var', 'edlevel') else x, e)
                from .. import tv
                rows.append((tuple(lits or ()), 'Z<0' if 'zdbb' in cond.lower() and '<' in cond and '>=' not in cond and '<=' not in cond
                             else ('Z>=0' if 'zdbb' in cond.lower() else ''), tv.canon(e), n.line))
        return rows
    tb, tg = table(FB, 'decay0_bb'), table(FG, 'genbbsub')
    if len(tb) < 4 or len(tg) < 4:
        raise AnalysisBroken('e0 assignments not found (bb: %d, genbbsub: %d)' % (len(tb), len(tg)))
    for (lits, z, e, line) in tb:
        partner = [r for r in tg if r[0] == lits and r[1] == z]
        ok = bool(partner) and partner[0][2] == e
        rep.add('E0.siblings', 'modes%s%s' % (list(lits), z), where(bb, line),
                'decay0_bb: e0 for modes %s %s = %s - E_level, as in the energy check of genbbsub' % (list(lits), z, ir.fmt(e)),
                ok, None if ok else ['genbbsub (line %s) has: %s' % (partner[0][3] if partner else '-',
                                                                      ir.fmt(partner[0][2]) if partner else 'no such case')])
    # e2 = e0 - e1 for the 0nu modes
    labels = {int(w): rest[0] for w, rest, no in docs.lis('resources/description/dbd_modes.lis') if w.isdigit()}
    want = sorted(m for m, lab in labels.items() if lab.startswith('0nubb_'))
    hits = []
    for n in FB.nodes(kind='assign'):
        if n.stmt[1] == ('var', 'e2') and n.stmt[2][0] == 'op' and n.stmt[2][1] == '-' and len(n.stmt[2]) == 4:
            a, b2 = n.stmt[2][2], n.stmt[2][3]
            if 'e0' in ir.fmt(a) and 'e1' in ir.fmt(b2) and ir.count_draws(n.stmt[2]) == 0:
                hits.append(n)
    if not hits:
        raise AnalysisBroken('decay0_bb: assignment e2 = e0 - e1 not found')
    lits, b = _guard_modes(FB, hits[0])
    rep.add('ZERONU.sum', 'e2=e0-e1', where(bb, hits[0].line),
            'e2 = e0 - e1 is applied exactly for modes %s (labels 0nubb_*)' % want, lits == want,
            None if lits == want else ['decay0_bb applies it for modes %s' % lits])
    # window clamps dominate the first spectrum loop of the initialisation block
    clamp = []
    for n in FB.nodes(kind='assign'):
        if ir.fmt(n.stmt[1]).endswith('ebb1') and n.stmt[2] == ('num', Fraction(0), 'f') or \
                (ir.fmt(n.stmt[1]).endswith('ebb1') and n.stmt[2][0] == 'num' and n.stmt[2][1] == 0):
            clamp.append(('ebb1', n))
        if ir.fmt(n.stmt[1]).endswith('ebb2') and 'e0' in ir.fmt(n.stmt[2]) and len(ir.fmt(n.stmt[2])) < 12:
            clamp.append(('ebb2', n))
    spect = [n for n in FB.nodes(kind='assign') if n.stmt[1][0] == 'idx' and 'spthe1' in n.stmt[1][1]]
    for nm in ('ebb1', 'ebb2'):
        cs = [n for k, n in clamp if k == nm]
        ok = False
        if cs and spect:
            c = cs[0]
            g = [b2 for b2 in FB.nodes(kind='branch') if c.id in (b2.succ[0],) and nm in ir.fmt(b2.stmt[1])]
            ok = bool(g) and all(FB.dominates(g[0], s) for s in spect)
        rep.add('WINDOW.clamp', nm, where(bb, cs[0].line if cs else bb['l']),
                'the clamp of %s is applied on every path to the spectrum computation' % nm, ok)
    # the clamped window must not be empty: nothing after the clamps compares the two bounds
    rep.rule('WINDOW.nonempty', 'after `ebb2 = min(ebb2, e0)` a request whose lower bound is not below the (clamped) upper bound - a window that '
             'lies above the available energy - is refused: a throw guarded by a comparison of ebb1 with ebb2 (or with e0) lies in '
             'decay0_bb or genbbsub on the way to the spectrum computation; otherwise events are generated that cannot lie in the window')
    def _cmp_guard(Fx):
        out = []
        for b_, arm in Fx.throw_guards():
            t_ = ir.fmt(b_.stmt[1])
            if 'ebb1' in t_ and ('ebb2' in t_ or 'e0' in t_):
                out.append(b_)
        return out
    wg = _cmp_guard(FB) + _cmp_guard(FG)
    rep.add('WINDOW.nonempty', 'empty-window-refused', where(bb, clamp[-1][1].line if clamp else bb['l']),
            'a window left empty by the clamp to the available energy is refused before the spectrum is computed', bool(wg),
            None if wg else ['no throw in decay0_bb / genbbsub is guarded by a comparison of ebb1 with ebb2 or e0: e.g. Mo100 2nubb (Q = 3.034 MeV) '
                             'with `--energy-min 3.5` is accepted, ebb2 is clamped to 3.034 < ebb1, the integration fails to converge and the '
                             'events delivered have lepton energy sums outside the requested window'])
    r2 = {'re2s': None, 're2f': None}
    for n in FB.nodes(kind='assign'):
        if n.stmt[1] == ('var', 're2s'):
            r2['re2s'] = n
        if n.stmt[1] == ('var', 're2f'):
            r2['re2f'] = n
    ok1 = r2['re2s'] is not None and ir.fmt(r2['re2s'].stmt[2]).replace(' ', '') in (
        'max(0.,(pars.ebb1-e1))', 'max(0.,(ebb1-e1))', 'max(0.,(pars.ebb1-pars.e1))')
    s1 = ir.fmt(r2['re2s'].stmt[2]) if r2['re2s'] else ''
    s2 = ir.fmt(r2['re2f'].stmt[2]) if r2['re2f'] else ''
    ok1 = s1.startswith('max(0') and 'ebb1' in s1 and 'e1' in s1 and '-' in s1
    ok2 = 'ebb2' in s2 and 'e1' in s2 and '-' in s2 and 'max' not in s2
    rep.add('WINDOW.clamp', 'second-lepton-range', where(bb, r2['re2s'].line if r2['re2s'] else bb['l']),
            'second lepton drawn in [%s, %s]' % (s1, s2), ok1 and ok2)
