"""C17 - the Geant4 action hands over each particle unchanged and validates like the core (decided on the extension
parsed against the stand-in Geant4 headers of /verif/stubs/geant4; nothing is executed)."""
from fractions import Fraction

from .. import astu, ir, project
from ..framework import Report, where
from ..project import AnalysisBroken
from ..rules import cppflow, symflow
from ..rules.symalg import Poly

PGA = 'bxdecay0_g4::PrimaryGeneratorAction'
SPECIES = {'is_electron': ('G4Electron::ElectronDefinition', 'ELECTRON'), 'is_positron': ('G4Positron::PositronDefinition', 'POSITRON'),
           'is_gamma': ('G4Gamma::GammaDefinition', 'GAMMA'), 'is_alpha': ('G4Alpha::AlphaDefinition', 'ALPHA')}
# ConfigurationInterface field -> (Configuration field, decay0_generator setter)
FORWARD = {'debug': ('debug', 'set_debug'), 'nuclide': ('nuclide', 'set_decay_isotope'), 'dbd_level': ('dbd_level', 'set_decay_dbd_level'),
           'dbd_mode': ('dbd_mode', 'set_decay_dbd_mode'), 'decay_category': ('decay_category', 'set_decay_category')}


def _is(e, *shape):
    return isinstance(e, tuple) and e[:len(shape)] == shape


def _fld_name(e):
    return e[2] if _is(e, 'fld') else None


def run(tier, seed):
    rep = Report('C17')
    g4 = project.load('g4')
    core = project.load('lib+programs')
    rep.rule('LOOP', 'GeneratePrimaries shoots one decay, then for each element of its particle list, in container order, sets '
             'definition, time, momentum and position and calls GeneratePrimaryVertex exactly once')
    rep.rule('SPECIES', 'the is_X() -> G4X::XDefinition() table is the bijection over the species the core can emit; anything else '
             'throws; the core predicates test the code of the same name')
    rep.rule('UNITS', 'momentum = (get_px, get_py, get_pz) * CLHEP::MeV in that order; time = get_time() * CLHEP::second; position = '
             'the vertex variable, (0,0,0) unless ShootVertex(vertex) ran under HasVertexGenerator()')
    rep.rule('VALIDATION', 'no arm of an if / else-if chain repeats an earlier condition (dead arm); each decay category is checked '
             'against its own catalogue; every error reaches AbortRun; the refusal bounds on seed, mode, level and category labels '
             'agree with the command-line front door of the core')
    rep.rule('FORWARD', 'each configuration field is copied into the field of the same role and handed to the generator setter of '
             'that role; the engine is seeded from the configured seed; a newly built generator is initialised before it is returned')
    gp = g4.fn(PGA + '::GeneratePrimaries')
    F = cppflow.Flow(gp, helpers={k: v for k, v in cppflow.private_helpers(g4, gp).items() if not v.get('method')})
    g = F.g
    # ------------------------------------------------------------------ LOOP
    shoot = [n for n in F.nodes(kind='call') if n.stmt[1] == 'decay0_generator::shoot']
    hdr = [n for n in F.nodes(kind='branch') if _is(n.stmt[1], 'op', 'more')]
    gpv = [n for n in F.nodes(kind='call') if n.stmt[1] == 'G4ParticleGun::GeneratePrimaryVertex']
    if len(shoot) != 1 or len(hdr) != 1 or not gpv:
        raise AnalysisBroken('GeneratePrimaries: anchors not found (shoot %d, particle loop %d, GeneratePrimaryVertex %d)'
                             % (len(shoot), len(hdr), len(gpv)))
    h = hdr[0]
    ev = shoot[0].stmt[2][-1]
    rng = h.stmt[1][2]
    okr = _is(rng, 'call', 'event::get_particles') and rng[2] == ev and F.dominates(shoot[0], h) and shoot[0].id not in F.reach(h.id)
    rep.add('LOOP', 'one-decay', where(gp, shoot[0].line), 'shoot() is called once, before the loop, and the loop runs over get_particles() of '
            'the event it filled (%s)' % ir.fmt(rng), okr)
    body = {i for i in F.reach(h.succ[0]) if h.id in F.reach(i)}
    back = [p for p in g.preds()[h.id] if p in body]
    okl = len(gpv) == 1 and gpv[0].id in body and back == [gpv[0].id] and gpv[0].stmt[2][-1] == ('var', gp['params'][0]['name'])
    # exits of the body other than the back edge: only throws
    leaks = [i for i in body if i != h.id for s in g.nodes[i].succ if s not in body and s != h.id and g.nodes[s].kind != 'throw']
    rep.add('LOOP', 'one-primary-per-particle', where(gp, gpv[0].line), 'every iteration ends in the single GeneratePrimaryVertex(event_) call; '
            'the body has no other way back to the loop header and no exit but a throw', okl and not leaks)
    for setter in ('SetParticleDefinition', 'SetParticleTime', 'SetParticleMomentum', 'SetParticlePosition'):
        ns = {n.id for n in F.nodes(kind='call') if n.stmt[1] == 'G4ParticleGun::' + setter and n.id in body}
        # must-pass: GeneratePrimaryVertex not reachable from the body entry when the setter nodes are removed
        seen, st = set(), [h.succ[0]]
        while st:
            i = st.pop()
            if i in seen or i in ns or i == h.id:
                continue
            seen.add(i)
            st.extend(g.nodes[i].succ)
        rep.add('LOOP', 'per-particle:' + setter, where(gp, gpv[0].line), 'every path of an iteration passes %s before GeneratePrimaryVertex (%d sites)'
                % (setter, len(ns)), bool(ns) and gpv[0].id not in seen)
    # ------------------------------------------------------------------ SPECIES
    pvar = None
    for n in g.nodes:
        if n.kind == 'assign' and _is(n.stmt[2], 'op', 'iter') and n.succ == [h.id]:
            pvar = n.stmt[1]
    if pvar is None:
        raise AnalysisBroken('loop variable of the particle loop not found')
    table = {}
    isdef = lambda e: _is(e, 'call') and len(e) == 2 and e[1].endswith('Definition')
    pc = core.enums.get('bxdecay0::particle_code')
    vals = {e_['name']: e_['val'] for e_ in pc['enumerators']} if pc else {}
    code_pred = {vals[c_]: p_ for p_, (g_, c_) in SPECIES.items() if c_ in vals}
    switch_tests = []
    for n in g.nodes:
        # SetParticleDefinition(G4X::XDefinition()) or `d = G4X::XDefinition()` (a helper's return value, expanded) under is_X(particle)
        arg = None
        if n.kind == 'call' and n.stmt[1] == 'G4ParticleGun::SetParticleDefinition' and n.id in body and isdef(n.stmt[2][1]):
            arg = n.stmt[2][1]
        elif n.kind == 'assign' and n.id in body and isdef(n.stmt[2]):
            arg = n.stmt[2]
        if arg is None:
            continue
        bs = [b for b in F.nodes(kind='branch') if b.succ[0] == n.id]
        if len(bs) == 1 and _is(bs[0].stmt[1], 'op', '==') and len(bs[0].stmt[1]) == 4:
            # `switch (particle.get_code()) { case ELECTRON: ... }`: the species test written on the code itself
            c_ = bs[0].stmt[1]
            for a_, b_ in ((c_[2], c_[3]), (c_[3], c_[2])):
                if _is(a_, 'call') and a_[1].endswith('get_code') and a_[2:] == (pvar,) and b_[0] == 'num' and int(b_[1]) in code_pred:
                    table[code_pred[int(b_[1])]] = arg[1]
                    switch_tests.append(bs[0])
                    break
            else:
                table['?%d' % n.line] = None
            continue
        if len(bs) != 1 or not _is(bs[0].stmt[1], 'call') or bs[0].stmt[1][2:] != (pvar,):
            table['?%d' % n.line] = None
            continue
        table[bs[0].stmt[1][1].split('::')[-1]] = arg[1]
    # when the definition goes through a variable, that variable is what SetParticleDefinition receives
    spd = [n for n in F.nodes(kind='call') if n.stmt[1] == 'G4ParticleGun::SetParticleDefinition' and n.id in body]
    via = {n.stmt[2][1] for n in spd if not isdef(n.stmt[2][1])}
    for v in via:
        defs = [n for n in g.nodes if n.kind == 'assign' and n.stmt[1] == v]
        if v[0] != 'var' or not defs or not all(isdef(d.stmt[2]) for d in defs):
            table['?var'] = None
    want = {k: v[0] for k, v in SPECIES.items()}
    if any(k_.startswith('?') for k_ in table) and not any(not k_.startswith('?') for k_ in table):
        rep.cannot_decide('SPECIES', where(gp), 'table: the tests that select the particle definitions are not species tests this rule reads (%s)' % sorted(table))
    else:
        rep.add('SPECIES', 'table', where(gp), 'is_electron/positron/gamma/alpha select G4Electron/G4Positron/G4Gamma/G4Alpha (found %s)' % table,
                table == want)
    chain_end = None
    for n in F.nodes(kind='branch'):
        if _is(n.stmt[1], 'call') and n.stmt[1][1].endswith('is_alpha') or (n.id in body and _is(n.stmt[1], 'call') and
                                                                                n.stmt[1][1].split('::')[-1] in SPECIES):
            if g.nodes[n.succ[1]].kind == 'throw':
                chain_end = n
    if chain_end is None and switch_tests:
        # switch form: the last case test falls to a throw (the `default:`), directly or through the remaining tests
        for t in switch_tests:
            x = g.nodes[t.succ[1]]
            seen_ = set()
            while x.kind == 'branch' and x in switch_tests and x.id not in seen_:
                seen_.add(x.id)
                x = g.nodes[x.succ[1]]
            if x.kind == 'throw':
                chain_end = t
    if chain_end is None and any(k_.startswith('?') for k_ in table):
        rep.cannot_decide('SPECIES', where(gp), 'the species dispatch is not written as tests of is_X() or of get_code() on the loop particle')
    else:
        rep.add('SPECIES', 'else-throws', where(gp), 'a particle of any other species raises instead of being dropped or mislabelled', chain_end is not None)
    for pred, (gdef, code) in sorted(SPECIES.items()):
        pf = core.fn('bxdecay0::particle::' + pred)
        rets = [astu.src(astu.strip_casts(n['e'])) for n in astu.walk(pf['body']) if n['k'] == 'Return' and n.get('e')]
        rep.add('SPECIES', 'core:' + pred, where(pf), 'particle::%s() is `_code_ == %s`' % (pred, code),
                rets in (['(_code_ == %s)' % code], ['(%s == _code_)' % code]), str(rets))
    # species the core can emit = arms (C04 decides that the generators emit only these four)
    # ------------------------------------------------------------------ UNITS
    R = symflow.Resolve(F, symbols={pvar[1]})
    mom = [n for n in F.nodes(kind='call') if n.stmt[1] == 'G4ParticleGun::SetParticleMomentum' and n.id in body]
    okm, why = False, None
    if len(mom) == 1:
        v = R.at(mom[0].stmt[2][1], mom[0])
        if _is(v, 'call', 'ctor:G4ThreeVector') and len(v) == 5:
            comps = []
            for c in v[2:]:
                if _is(c, 'op', '*') and _is(c[2], 'call') and c[2][2:] == (pvar,) and c[3] == ('var', 'MeV'):
                    comps.append(c[2][1].split('::')[-1])
                elif _is(c, 'op', '*') and _is(c[3], 'call') and c[3][2:] == (pvar,) and c[2] == ('var', 'MeV'):
                    comps.append(c[3][1].split('::')[-1])
                else:
                    comps.append(ir.fmt(c))
            okm = comps == ['get_px', 'get_py', 'get_pz']
            why = None if okm else str(comps)
        else:
            why = ir.fmt(v)
    rep.add('UNITS', 'momentum', where(gp, mom[0].line if mom else None), 'SetParticleMomentum receives G4ThreeVector(get_px()*MeV, get_py()*MeV, '
            'get_pz()*MeV) of the loop particle', okm, why)
    tim = [n for n in F.nodes(kind='call') if n.stmt[1] == 'G4ParticleGun::SetParticleTime' and n.id in body]
    okt, why = False, None
    if len(tim) == 1 and tim[0].stmt[2][1][0] == 'var':
        tv = tim[0].stmt[2][1]

        def sym(e):
            if e == ('var', 'second'):
                return Poly.sym('second')
            if _is(e, 'call', 'particle::get_time') and e[2:] == (pvar,):
                return Poly.sym('t')
            raise AnalysisBroken('unexpected term %s' % ir.fmt(e))
        # the value on the has_time() arm: T: tv := X under has_time(particle); then optionally tv := tv + E; then SetParticleTime(tv)
        hb = [b for b in F.nodes(kind='branch') if _is(b.stmt[1], 'call', 'particle::has_time') and b.stmt[1][2:] == (pvar,) and b.id in body]
        try:
            if len(hb) != 1:
                raise AnalysisBroken('%d has_time() tests' % len(hb))
            T_ = g.nodes[hb[0].succ[0]]
            if T_.kind != 'assign' or T_.stmt[1] != tv or T_.succ != [hb[0].succ[1]]:
                raise AnalysisBroken('the has_time() arm does not assign the time variable')
            p = symflow.poly(R.subst(T_.stmt[2], T_), sym)
            n = g.nodes[hb[0].succ[1]]
            while n.id != tim[0].id:
                if n.kind == 'assign' and n.stmt[1] == tv:
                    rhs = n.stmt[2]
                    if not (_is(rhs, 'op', '+') and rhs[2] == tv):
                        raise AnalysisBroken('time variable rewritten: %s' % ir.fmt_stmt(n.stmt))
                    p = p + symflow.poly(R.subst(rhs[3], n), sym)
                elif n.kind != 'assign' or len(n.succ) != 1:
                    raise AnalysisBroken('unexpected statement between the time assignment and SetParticleTime')
                n = g.nodes[n.succ[0]]
            okt = p == Poly.sym('t') * Poly.sym('second')
            why = None if okt else 'time = %r' % p
        except AnalysisBroken as ex:
            why = str(ex)
    rep.add('UNITS', 'time', where(gp, tim[0].line if tim else None), 'SetParticleTime receives get_time() * CLHEP::second of the loop particle '
            '(plus an event time that is identically 0)', okt, why)
    unit_refs = {}
    for n in astu.walk(gp['body']):
        if n['k'] == 'Ref' and n.get('name') in ('MeV', 'second'):
            unit_refs.setdefault(n['name'], set()).add(n.get('qn') or n.get('id'))
    rep.add('UNITS', 'unit-constants', where(gp), 'MeV and second are the CLHEP constants (%s)' % {k: sorted(map(str, v)) for k, v in unit_refs.items()},
            all(any('CLHEP' in str(x) or 'SystemOfUnits' in str(x) for x in v) for v in unit_refs.values()) and set(unit_refs) == {'MeV', 'second'})
    pos = [n for n in F.nodes(kind='call') if n.stmt[1] == 'G4ParticleGun::SetParticlePosition' and n.id in body]
    okp = len(pos) == 1 and pos[0].stmt[2][1][0] == 'var'
    detail = None
    if okp:
        vv = pos[0].stmt[2][1]
        defs = [n for n in F.nodes(kind='assign') if n.stmt[1] == vv]
        okz = len(defs) == 1 and _is(defs[0].stmt[2], 'call', 'ctor:G4ThreeVector') and all(a[0] == 'num' and a[1] == 0 for a in defs[0].stmt[2][2:]) \
            and defs[0].id not in body
        users = [n for n in F.nodes(kind='call') if vv in n.stmt[2] and n.id != pos[0].id]
        oku = all(n.stmt[1].endswith('::ShootVertex') and n.id not in body and
                  any(_is(b.stmt[1], 'call') and b.stmt[1][1].endswith('HasVertexGenerator') and F.dominates(b, n) and n.id in F.reach(b.succ[0])
                      and n.id not in F.reach(b.succ[1]) for b in F.nodes(kind='branch')) for n in users) and len(users) == 1
        okp = okz and oku
        detail = None if okp else 'definitions %d, other users %s' % (len(defs), [ir.fmt_stmt(n.stmt)[:60] for n in users])
    rep.add('UNITS', 'vertex', where(gp, pos[0].line if pos else None), 'every particle is placed at the one `vertex` value: (0,0,0), overwritten only by '
            'ShootVertex(vertex) under HasVertexGenerator(), before the loop', okp, detail)
    # ------------------------------------------------------------------ VALIDATION
    ndead = 0
    for key, fn in sorted(g4.functions.items()):
        if '/extensions/' not in fn['file']:
            continue
        for n in astu.walk(fn['body']):
            if n['k'] != 'If':
                continue
            conds = []
            x = n
            while x is not None and x['k'] == 'If':
                conds.append((astu.src(x['c']), x.get('l')))
                x = x.get('e')
            if len(conds) < 2:
                continue
            ndead += 1
            seen = {}
            dup = []
            for c, l in conds:
                if c in seen:
                    dup.append('line %s repeats the condition of line %s: %s' % (l, seen[c], c))
                seen.setdefault(c, l)
            rep.add('VALIDATION', 'dead-arm:%s:%s' % (fn['name'], n.get('l')), where(fn, n.get('l')), 'the %d conditions of the if / else-if chain '
                    'are pairwise different' % len(conds), not dup, '; '.join(dup) or None, nontrivial=len(conds) > 2 or bool(dup))
    ac = g4.fn(PGA + '::ApplyConfiguration')
    FA = cppflow.Flow(ac)
    for cat, lookup, val in (('DBD', 'dbd_isotopes', None), ('BACKGROUND', 'background_isotopes', None)):
        look = [b for b in FA.nodes(kind='branch') if any(_is(x, 'call', lookup) for x in ir.subexprs(b.stmt[1]))]
        ok = False
        detail = None
        if len(look) == 1:
            gd = [b for b in FA.nodes(kind='branch') if b.succ[0] == look[0].id]
            enumv = _enum_value(g4, 'DECAY_CATEGORY_' + cat)
            ok = len(gd) == 1 and _is(gd[0].stmt[1], 'op', '==') and gd[0].stmt[1][3] == ir.num(enumv, 'i') and \
                _fld_name(gd[0].stmt[1][2]) == 'decay_category'
            # the guard itself must be live: not the false arm of an identical test
            if ok:
                for b in FA.nodes(kind='branch'):
                    if b.succ[1] == gd[0].id and b.stmt[1] == gd[0].stmt[1]:
                        ok = False
                        detail = 'the guard at line %d can never hold: it is the else-arm of the same test at line %d' % (gd[0].line, b.line)
            if not ok and detail is None:
                detail = 'guard: %s' % (ir.fmt(gd[0].stmt[1]) if gd else None)
        else:
            detail = '%d lookups' % len(look)
        rep.add('VALIDATION', 'catalogue:' + cat.lower(), where(ac, look[0].line if look else None), 'a %s request is checked against %s()' %
                (cat.lower(), lookup), ok, detail)
    # every `error := 1` reaches AbortRun
    abort = [n for n in FA.nodes(kind='call') if n.stmt[1] == 'G4RunManager::AbortRun']
    errs = [n for n in FA.nodes(kind='assign') if n.stmt[1] == ('var', 'error') and n.stmt[2][0] == 'num' and n.stmt[2][1] == 1]
    clears = [n for n in FA.nodes(kind='assign') if n.stmt[1] == ('var', 'error') and n.stmt[2][0] == 'num' and n.stmt[2][1] == 0]
    if len(errs) < 6 or len(abort) != 1:
        raise AnalysisBroken('ApplyConfiguration: %d error sites, %d AbortRun calls' % (len(errs), len(abort)))
    bad = []
    for e in errs:
        # reachability with branches on `error` resolved (error is true from here on unless cleared)
        seen, st = set(), list(e.succ)
        escaped = False
        while st:
            i = st.pop()
            if i in seen or i == abort[0].id:
                continue
            seen.add(i)
            n = FA.g.nodes[i]
            if n in clears:
                escaped = True
            if n.kind == 'return':
                escaped = True
            if n.kind == 'branch':
                t = _truth_with_error(n.stmt[1])
                if t is True:
                    st.append(n.succ[0])
                    continue
                if t is False:
                    st.append(n.succ[1])
                    continue
            st.extend(n.succ)
        if escaped:
            bad.append('line %d' % e.line)
    rep.add('VALIDATION', 'error-aborts', where(ac, abort[0].line), 'each of the %d `error = true` sites reaches AbortRun() on every path (branches on '
            '`error` resolved)' % len(errs), not bad, ', '.join(bad) or None)
    _front_door(rep, g4, core, ac, FA)
    # ------------------------------------------------------------------ FORWARD
    copied = {}
    for n in FA.nodes(kind='assign'):
        l, r = n.stmt[1], n.stmt[2]
        if _is(l, 'fld') and _is(l[1], 'fld') and l[1][2] == 'config':
            r0 = r
            while (_is(r0, 'call') or _is(r0, 'op')) and len(r0) == 3 and r0[1] in ('int', 'double', 'unsigned int', 'cast', 'static_cast'):
                r0 = r0[2]
            if _is(r0, 'fld') and _is(r0[1], 'fld') and r0[1][2] == '_config_':
                copied.setdefault(l[2], set()).add(r0[2])
            elif l[2] == 'decay_category':
                copied.setdefault(l[2], set()).add('decay_category')
    wantc = {'debug', 'seed', 'nuclide', 'dbd_mode', 'dbd_level', 'dbd_min_energy_MeV', 'dbd_max_energy_MeV', 'decay_category'}
    badc = ['%s <- %s' % (k, sorted(v)) for k, v in copied.items() if v != {k}]
    rep.add('FORWARD', 'apply:copy', where(ac), 'ApplyConfiguration copies each interface field into the driver configuration field of the same name '
            '(%d fields)' % len(copied), set(copied) == wantc and not badc, '; '.join(badc) or ('missing: %s' % sorted(wantc - set(copied)) if wantc - set(copied) else None))
    cats = {}
    for b in FA.nodes(kind='branch'):
        c = b.stmt[1]
        if _is(c, 'op', '==') and _fld_name(c[2]) == 'decay_category' and c[3][0] == 'str':
            t = FA.g.nodes[b.succ[0]]
            if t.kind == 'assign' and _fld_name(t.stmt[1]) == 'decay_category':
                cats[c[3][1]] = t.stmt[2]
    wantcat = {'dbd': ir.num(_enum_value(g4, 'DECAY_CATEGORY_DBD'), 'i'), 'background': ir.num(_enum_value(g4, 'DECAY_CATEGORY_BACKGROUND'), 'i')}
    rep.add('FORWARD', 'apply:category', where(ac), 'the labels "dbd" / "background" select DECAY_CATEGORY_DBD / DECAY_CATEGORY_BACKGROUND', cats == wantcat,
            str({k: ir.fmt(v) for k, v in cats.items()}))
    gd = g4.fn(PGA + '::pimpl_type::get_decay0')
    FG = cppflow.Flow(gd)
    sets = {}
    for n in FG.nodes(kind='call'):
        nm = n.stmt[1].split('::')[-1]
        if n.stmt[1].startswith('decay0_generator::set_'):
            sets[nm] = [(_fld_name(a) if _is(a, 'fld') and _is(a[1], 'fld') and a[1][2] == 'config' else ir.fmt(a)) for a in n.stmt[2][1:]]
    badf = []
    for f, (cf, setter) in FORWARD.items():
        if sets.get(setter) != [cf]:
            badf.append('%s(%s)' % (setter, sets.get(setter)))
    rep.add('FORWARD', 'generator:setters', where(gd), 'get_decay0 hands debug, category, nuclide, level and mode to the setter of the same role', not badf,
            '; '.join(badf) or None)
    # energy range: emin <- dbd_min_energy_MeV, emax <- dbd_max_energy_MeV
    RG = symflow.Resolve(FG)
    rng_ = [n for n in FG.nodes(kind='call') if n.stmt[1] == 'decay0_generator::set_decay_dbd_esum_range']
    okrng = False
    detail = None
    if len(rng_) == 1:
        a = [RG.at(x, rng_[0]) for x in rng_[0].stmt[2][1:]]
        names = []
        for x in a:
            fs = {y for y in _flds(x) if y.startswith('dbd_')}
            names.append(sorted(fs))
        okrng = names == [['dbd_min_energy_MeV'], ['dbd_max_energy_MeV']]
        detail = None if okrng else str(names)
    rep.add('FORWARD', 'generator:energy-range', where(gd, rng_[0].line if rng_ else None), 'set_decay_dbd_esum_range(min, max) receives the configured '
            'minimum and maximum in that order', okrng, detail)
    # the construction site: `pdecay0 = new decay0_generator`, or `pdecay0.reset(new decay0_generator)` / make_unique on a smart pointer
    new = [n for n in FG.nodes(kind='assign') if 'new' in ir.fmt(n.stmt[2]) and 'decay0_generator' in ir.fmt(n.stmt[2])]
    new += [n for n in FG.nodes(kind='assign') if _fld_name(n.stmt[1]) == 'pdecay0' and 'new' in ir.fmt(n.stmt[2]) and n not in new]
    new += [n for n in FG.nodes(kind='call') if n.stmt[1].endswith('::reset') and 'unique_ptr' in n.stmt[1] and len(n.stmt[2]) == 2 and
            'new' in ir.fmt(n.stmt[2][1]) and 'decay0_generator' in ir.fmt(n.stmt[2][1])]
    new += [n for n in FG.nodes(kind='assign') if 'make_unique' in ir.fmt(n.stmt[2]) and 'decay0_generator' in ir.fmt(n.stmt[2]) and n not in new]
    if not new:
        rep.cannot_decide('FORWARD', where(gd), 'generator:initialised: the construction of the core generator was not found in %s' % gd['name'])
    init = [n for n in FG.nodes(kind='call') if n.stmt[1] == 'decay0_generator::initialize']
    rets = [n for n in FG.g.nodes if n.kind == 'return']
    oki = len(new) == 1 and len(init) == 1 and FG.dominates(new[0], init[0])
    if oki:
        seen, st = set(), list(new[0].succ)
        while st:
            i = st.pop()
            if i in seen or i == init[0].id:
                continue
            seen.add(i)
            st.extend(FG.g.nodes[i].succ)
        oki = not any(r.id in seen for r in rets)
    if new:
        rep.add('FORWARD', 'generator:initialised', where(gd, init[0].line if init else None), 'a newly built generator cannot be returned without passing '
                'initialize(): every refusal of the core (unknown nuclide, mode, level, window) reaches the caller', oki)
    gg = g4.fn(PGA + '::pimpl_type::get_generator')
    seeds = [astu.src(c['args'][0]) for c in astu.walk(gg['body']) if c['k'] in ('New', 'Ctor', 'TempCtor') and 'default_random_engine' in str(c.get('ty', ''))
             and c.get('args')]
    if not seeds:
        seeds = [astu.src(a) for n in astu.walk(gg['body']) if n['k'] == 'New' for a in n.get('args', [])]
    rep.add('FORWARD', 'engine:seed', where(gg), 'the random engine is constructed from config.seed (%s)' % seeds, seeds == ['config.seed'])
    rep.floor('VALIDATION', ndead, 4)
    # a configuration comparison (used to skip re-instantiation) must look at every field
    from ..rules import typestate as _ts
    _ts.equality_complete(rep, g4, 'EQUALITY.complete')
    return rep


def _flds(e):
    out = set()
    if isinstance(e, tuple):
        if _is(e, 'fld'):
            out.add(e[2])
        for x in e[1:]:
            out |= _flds(x)
    return out


def _truth_with_error(c):
    """truth of a condition given that the local `error` is true (None = unknown)"""
    if c == ('var', 'error'):
        return True
    if _is(c, 'op', 'not') and c[2] == ('var', 'error'):
        return False
    if _is(c, 'op', 'and'):
        vals = [_truth_with_error(x) for x in c[2:]]
        if any(v is False for v in vals):
            return False
        if all(v is True for v in vals):
            return True
    if _is(c, 'op', 'or'):
        vals = [_truth_with_error(x) for x in c[2:]]
        if any(v is True for v in vals):
            return True
        if all(v is False for v in vals):
            return False
    return None


def _enum_value(prog, name):
    for key, fn in prog.functions.items():
        for n in astu.walk(fn['body']):
            if n['k'] == 'Ref' and n.get('dk') == 'enum' and n.get('name') == name:
                return n['val']
    raise AnalysisBroken('enumerator %s is not referenced anywhere in the analysed units' % name)


def _bounds_of(body, var_pred, refuse_pred, pm=None):
    """accepted integer interval [lo, hi] (None = unbounded) from `if (x < c) refuse` style tests; bounds are kept symbolic
    (enumerator name, offset) when they are enumerators"""
    lo, hi = None, None
    sites = 0
    for n in astu.walk(body):
        if n['k'] != 'If' or not refuse_pred(n['t']):
            continue
        for t in _disj(n['c']):
            t = astu.strip_casts(t)
            if t['k'] != 'Bin' or t['op'] not in ('<', '<=', '>', '>='):
                continue
            a, b = astu.strip_casts(t['a']), astu.strip_casts(t['b'])
            if not var_pred(a):
                continue
            v = astu.num_value(b)
            bound = (int(v), 0) if v is not None and v.denominator == 1 else ((b.get('name'), 0) if b['k'] == 'Ref' and b.get('dk') == 'enum' else None)
            if bound is None:
                continue
            sites += 1
            if t['op'] == '<':
                lo = _maxb(lo, bound)
            elif t['op'] == '<=':
                lo = _maxb(lo, (bound[0], bound[1] + 1) if not isinstance(bound[0], int) else (bound[0] + 1, 0))
            elif t['op'] == '>':
                hi = bound
            elif t['op'] == '>=':
                hi = (bound[0], bound[1] - 1) if not isinstance(bound[0], int) else (bound[0] - 1, 0)
    return lo, hi, sites


def _maxb(a, b):
    if a is None:
        return b
    if isinstance(a[0], int) and isinstance(b[0], int):
        return a if a[0] >= b[0] else b
    return b


def _disj(c):
    c = astu.strip_casts(c)
    if c['k'] == 'Paren':
        return _disj(c['e'])
    if c['k'] == 'Bin' and c['op'] == '||':
        return _disj(c['a']) + _disj(c['b'])
    return [c]


def _front_door(rep, g4, core, ac, FA):
    """refusal bounds: Geant4 side (ConfigurationInterface::is_valid_base + ApplyConfiguration) vs cl_parser::parse"""
    parse = core.fn('bxdecay0::cl_parser::parse')
    ivb = g4.fn(PGA + '::ConfigurationInterface::is_valid_base')

    def throws(t):
        return any(x['k'] == 'Throw' for x in astu.walk(t))

    def sets_error(t):
        return any(x['k'] == 'Bin' and x['op'] == '=' and astu.src(x['a']) == 'error' and astu.src(x['b']) == 'true' for x in astu.walk(t))

    def returns_false(t):
        return any(x['k'] == 'Return' and astu.src(x.get('e')) == 'false' for x in astu.walk(t))
    roles = (('seed', 'seed', 'seed'), ('dbd_mode', 'dbd_mode', 'dbd_mode'), ('level', 'level', 'dbd_level'))
    for role, core_local, g4_field in roles:
        c_lo, c_hi, cs = _bounds_of(parse['body'], lambda a, n=core_local: a['k'] == 'Ref' and a.get('name') == n, throws)
        a_lo, a_hi, as_ = _bounds_of(ac['body'], lambda a, n=g4_field: a['k'] == 'Member' and a.get('name') == n and '_config_' in astu.src(a), sets_error)
        v_lo, v_hi, vs = _bounds_of(ivb['body'], lambda a, n=g4_field: (a['k'] == 'Member' and a.get('name') == n) or
                                    (a['k'] == 'Ref' and a.get('name') == n), returns_false)
        if cs == 0 or as_ == 0:
            raise AnalysisBroken('front door: no refusal test found for %s (core %d, Geant4 %d)' % (role, cs, as_))
        g_lo = _maxb(a_lo, v_lo) if (a_lo is None or v_lo is None or (isinstance(a_lo[0], int) and isinstance(v_lo[0], int))) else a_lo
        g_hi = a_hi
        fmtb = lambda b: 'unbounded' if b is None else (str(b[0]) if b[1] == 0 else '%s%+d' % b)
        same = _eqb(g4, c_lo, g_lo) and _eqb(g4, c_hi, g_hi)
        rep.add('VALIDATION', 'front-door:' + role, where(ac), 'accepted %s: core [%s, %s], Geant4 action [%s, %s]'
                % (role, fmtb(c_lo), fmtb(c_hi), fmtb(g_lo), fmtb(g_hi)), same)
    # a lower-bound test can only refuse negative input when the tested field is signed
    rec = g4.records.get(PGA + '::ConfigurationInterface')
    if rec is None:
        raise AnalysisBroken('record ConfigurationInterface not found')
    for fld in ('seed', 'dbd_mode', 'dbd_level'):
        f = [x for x in rec['fields'] if x['name'] == fld]
        if not f:
            raise AnalysisBroken('ConfigurationInterface::%s not found' % fld)
        ty = f[0]['ty']
        unsigned = any(t in ty for t in ('unsigned', 'size_t', 'uint', 'G4uint'))
        rep.add('VALIDATION', 'signed:' + fld, where({'file': rec['file'], 'l': f[0]['l']}), 'ConfigurationInterface::%s is a signed integer (%s): its '
                'lower-bound refusal sees negative requests, as the core front door does (std::stoi then `< 0`)' % (fld, ty), not unsigned,
                None if not unsigned else 'a negative value wraps to a large positive one before the test: negative requests are accepted')
    # category labels
    def direct_cat(t):
        ss = t['s'] if t['k'] == 'Compound' else [t]
        return any(x['k'] == 'Expr' and x['e']['k'] == 'Bin' and x['e']['op'] == '=' and astu.src(x['e']['a']).endswith('decay_category') for x in ss)
    core_labels = {x['v'] for n in astu.walk(parse['body']) if n['k'] == 'If' and direct_cat(n['t']) for x in astu.walk(n['c']) if x['k'] == 'Str'}
    g4_labels = {b.stmt[1][3][1] for b in FA.nodes(kind='branch') if _is(b.stmt[1], 'op', '==') and _fld_name(b.stmt[1][2]) == 'decay_category'
                 and b.stmt[1][3][0] == 'str'}
    rep.add('VALIDATION', 'front-door:category', where(ac), 'category labels: core %s, Geant4 action %s' % (sorted(core_labels), sorted(g4_labels)),
            core_labels == g4_labels and len(core_labels) == 2)


def _eqb(prog, a, b):
    if a is None or b is None:
        return a is None and b is None

    def val(x):
        if isinstance(x[0], int):
            return x[0] + x[1]
        return _enum_value(prog, x[0]) + x[1]
    return val(a) == val(b)
