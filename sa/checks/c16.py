"""C16 - numerical kernels meet their contracts (decided clauses: GL tables and panel driver, rotation algebra, Simpson)."""
from .. import project
from ..framework import Report, where
from ..rules import tablemath, panels, symalg, simpson, qng, stale
from ..rules.symalg import Poly


def run(tier, seed):
    rep = Report('C16')
    prog = project.load(files=[project.repo_unit('bxdecay0/dgmlt1.cc'), project.repo_unit('bxdecay0/dgmlt2.cc'),
                               project.repo_unit('bxdecay0/utils.cc'), project.repo_unit('bxdecay0/tsimpr.cc'),
                               project.repo_unit('bxdecay0/gauss.cc'), project.repo_unit('bxdecay0/divdif.cc')])
    rep.analysed['units'] = sorted(project.relpath(u) for u in prog.units)
    tablemath.check_tables(rep, prog)
    rep.floor('TABLE-MATH.moments', sum(1 for i in rep.instances if i.rule == 'TABLE-MATH.moments'), 56)
    for r, t in (('PANELS.fill', 'one buffer slot per (node, panel) pair'), ('PANELS.pairing', 'weight and node of a slot share the table index'),
                 ('PANELS.node-map', 'affine map of the reference node onto the panel'), ('PANELS.panel-loop', 'all NI panels are visited'),
                 ('PANELS.group', 'the node loop covers exactly one tabulated rule'), ('PANELS.flush', 'flush evaluates and sums exactly the buffered slots'),
                 ('PANELS.chunking', 'first chunk size congruent to the node count modulo the buffer size: every node summed exactly once'),
                 ('PANELS.scale', 'result scaled by half the panel width')):
        rep.rule(r, t)
    for qn in ('bxdecay0::decay0_dgmlt1', 'bxdecay0::decay0_dgmlt2'):
        fn = prog.fn(qn)
        groups = {order: off for off, order in tablemath._groups(fn)}
        panels.check(rep, prog, qn, groups)
    # ---- Euler rotation
    rep.rule('ROTATION', 'rotate_zyz(p, phi, theta, psi) is a proper rotation for all angles and equals Rz(phi) Ry(theta) Rz(psi) p '
             '(polynomial identities modulo sin^2 + cos^2 = 1)')
    A = symalg.Alg(prog)
    rz = prog.fn('bxdecay0::rotate_zyz')
    names = [q['name'] for q in rz['params'][1:4]]

    def Rz(a):
        c, s = Poly.sym('c:' + a), Poly.sym('s:' + a)
        return [[c, -s, Poly()], [s, c, Poly()], [Poly(), Poly(), Poly.const(1)]]

    def Ry(a):
        c, s = Poly.sym('c:' + a), Poly.sym('s:' + a)
        return [[c, Poly(), s], [Poly(), Poly.const(1), Poly()], [-s, Poly(), c]]

    def mm(X, Y):
        return [[sum((X[i][k] * Y[k][j] for k in range(3)), Poly()) for j in range(3)] for i in range(3)]
    want0 = mm(Rz('phi'), mm(Ry('theta'), Rz('psi')))
    # every path through the function (a special-cased angle is a path of its own); a path taken under `angle == 0` may use
    # cos = 1, sin = 0 for that angle, any other path must satisfy the identities as they stand
    pths = A.paths(rz, lambda: [{'x': Poly.sym('px'), 'y': Poly.sym('py'), 'z': Poly.sym('pz')}] +
                   [Poly.sym(n) for n in ('phi', 'theta', 'psi')])
    for dec, r in pths:
        tag = '' if len(pths) == 1 else ':' + ','.join('%s%s' % ('' if t else '!', l) for l, _, t, _ in dec)
        facts = symalg.zero_angle_facts(dec, dict(zip(names, ('phi', 'theta', 'psi'))))
        M = symalg.linear_map(r, ['px', 'py', 'pz'])
        M = [[x.subst(facts) for x in row] for row in M]
        ok, why = symalg.is_rotation(M)
        rep.add('ROTATION', 'orthonormal' + tag, where(rz), 'A^T A = 1 and det A = +1 for the matrix A of rotate_zyz on %s'
                % symalg.describe(dec), ok, why or None)
        want = [[x.subst(facts) for x in row] for row in want0]
        same = all(M[i][j] == want[i][j] for i in range(3) for j in range(3))
        rep.add('ROTATION', 'composition' + tag, where(rz, dec[-1][0] if dec else None),
                'A = Rz(phi) Ry(theta) Rz(psi): psi about z first, then theta about y, then phi about z, as documented '
                'in the source, on %s' % symalg.describe(dec), same,
                None if same else ['A = %r' % M, 'expected on this path: %r' % want])
    for nm, sz in (('transpose', None), ('multiply', None)):
        pass
    simpson.check(rep, prog)
    qng.check(rep, prog)
    nst = stale.check(rep, prog, 'bxdecay0::decay0_divdif')
    rep.floor('STALE.derived', nst, 2)
    rep.assumptions += [
        'decides: Gauss-Legendre table exactness (moment identities, exact rationals), table/sibling agreement, the panel driver (every node '
        'summed once with its own weight, affine node map, scale), rotate_zyz algebra, Simpson weights and exactness on cubics as polynomial identities',
        'decided for the adaptive quadrature: only that QNG is asked for the caller\'s relative tolerance with absolute floor 0 (QNG.tolerance); '
        'not decided: that GSL QNG then meets it, golden section, divided differences, Fermi function values',
    ]
    return rep
