"""C16 — numerical kernels meet their contracts (decided clauses: GL tables, rotation shape)."""
from .. import project
from ..framework import Report
from ..rules import tablemath


def run(tier, seed):
    rep = Report('C16')
    prog = project.load(files=[project.repo_unit('bxdecay0/dgmlt1.cc'), project.repo_unit('bxdecay0/dgmlt2.cc'),
                               project.repo_unit('bxdecay0/utils.cc')])
    rep.analysed['units'] = sorted(project.relpath(u) for u in prog.units)
    tablemath.check_tables(rep, prog)
    rep.floor('TABLE-MATH.moments', sum(1 for i in rep.instances if i.rule == 'TABLE-MATH.moments'), 56)
    rep.assumptions += [
        'decides only: Gauss-Legendre table exactness (moment identities, exact rationals) and table/sibling agreement',
        'not decided: adaptive quadrature tolerance, Simpson, golden section, divided differences, Fermi function values',
    ]
    return rep
