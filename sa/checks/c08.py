"""C08 - no undefined behaviour or memory error on any generation path (UB classes visible in the code's shape)."""
from .. import callgraph, cpp2ir, project
from ..framework import Report
from ..rules import arrays, borrow, intdiv, inv, vecindex


def run(tier, seed):
    rep = Report('C08')
    prog = project.load('lib+programs')
    cg = callgraph.CallGraph(prog)
    sigs = cpp2ir.build_sigs(prog)
    lib = {k for k, f in prog.functions.items() if '/programs/' not in f['file']}
    nb, adders = inv.check_all(rep, prog, cg, sigs, prog.functions.keys())
    rep.analysed['functions analysed'] = len(prog.functions)
    rep.analysed['element bindings found'] = nb
    rep.analysed['functions that may grow an event (call-graph summary)'] = len(adders)
    nlit, ncnt, other = arrays.check_literal_and_counted(rep, prog, lib)
    arrays.check_spectrum_tables(rep, prog)
    nd = arrays.check_int_division(rep, prog, lib)
    nv = vecindex.check(rep, prog, lib)
    rep.analysed['std::vector subscripts with a non-literal index'] = nv
    rep.floor('VECTOR.index', nv, 30)
    rep.analysed['integer/integer divisions'] = intdiv.check(rep, prog, lib)
    rep.analysed['literal subscripts checked'] = nlit
    rep.analysed['counted-loop subscripts checked'] = ncnt
    rep.analysed['integer divisions by a variable'] = nd
    rep.analysed['subscript forms NOT decided (variable index outside a literal-bounded loop)'] = {
        '%s:%s' % k: sorted(v)[:6] for k, v in sorted(other.items())
        if k[1] not in ('spthe1', 'spthe2')}
    rep.floor('INV.use-after-invalidate', nb, 6)
    nbr = borrow.check(rep, prog, prog.functions.keys())
    rep.analysed['stores of a borrowed argument into a member/static'] = nbr
    rep.floor('LIFETIME.borrowed', nbr, 2)
    rep.floor('ARRAY.spectrum', sum(1 for i in rep.instances if i.rule == 'ARRAY.spectrum'), 7)
    rep.assumptions += [
        'decided: use of a particle pointer/reference after the vector may have grown (all functions); an argument borrowed by reference/pointer is '
        'not kept in a member beyond the call (all functions); literal and '
        'counted-loop subscripts of fixed-extent arrays; the spectrum-table obligations; integer division guards',
        'not decided: UB that depends on run-time numerics; subscripts with data-dependent indices listed under '
        '"NOT decided"; anything inside GSL/libstdc++',
    ]
    # a stale/NaN field of the parameter block reaching decay0_bb turns into a negative spectrum index (spthe1[imax..-1] written):
    # the block's fields are assigned before they are read in every initialising call (shared with C04)
    from .. import tvcheck
    from ..rules import bbstate
    nst = bbstate.check(rep, tvcheck.Context())
    rep.floor('STATE.def-before-use', nst, 90)
    return rep
