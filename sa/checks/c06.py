"""C06 - a double-beta configuration is accepted iff the reference rules allow it."""
import os
import re
from fractions import Fraction

from .. import astu, docs, genbb, ir, project, tvcheck
from ..framework import Report, where
from ..project import AnalysisBroken, REPO
from ..rules import cppflow


def run(tier, seed):
    rep = Report('C06')
    ctx = tvcheck.Context()
    D, prog = ctx.D, ctx.prog
    fn = D.fn
    rep.rule('GRID.accept', 'for each isotope the accept/reject table over (level, mode) of genbbsub equals that of the '
             'reference GENBBsub, both obtained by constant propagation (no execution)')
    rep.rule('GRID.reject-no-calls', 'a rejected configuration reaches no scheme/bb call (sets ier and returns)')
    rep.rule('LEVELS.readme', 'levels accepted for an isotope and their energies = README level table')
    rep.rule('GA.route', 'the four gA modes route to the four PROCESS_* of dbd_gA, level 0 only, supported nuclides = README')
    rep.rule('WINDOW', 'inverted window rejected; window-capable mode list = modes for which bb computes toallevents; '
             'a window on a non-capable mode is rejected')
    rep.rule('ERR.callsite', 'every call of genbbsub tests its error code and throws before the event/parameters are used')
    if tier == 'thorough':
        levels, modes = list(range(-1, 18)), list(range(0, 26))
    else:
        levels, modes = list(range(-1, 18)), list(range(0, 22)) + [25]
    res = genbb.grid(D, ctx.dbd + ['Xx99'], [], levels, modes)
    rl = docs.readme_levels()
    points = 0
    for r in res:
        if r['error']:
            raise AnalysisBroken('dispatch %s: %s' % (r['name'], r['error']))
        if r['istart'] != -1:
            continue
        points += r['points']
        diff = [(l, m, a, b) for (l, m, a, b) in r['accept'] if a != b]
        undet = sorted({(l, m) for (l, m, a, b) in r['accept'] if a is None and b is None})
        if undet:
            rep.note('%s: acceptance of (level, mode) %s depends on a variable neither side assigns (itrans02): same on both sides' % (r['name'], undet))
        nacc = sum(1 for a in r['accept'] if a[3])
        det = None
        if diff:
            ex = diff[0]
            det = ['%d of %d points differ, e.g. level %d mode %d: reference %s, port %s' %
                   (len(diff), len(r['accept']), ex[0], ex[1], _w(ex[2]), _w(ex[3])),
                   'levels affected: %s; modes affected: %s' % (sorted({d[0] for d in diff}), sorted({d[1] for d in diff}))]
        key = r['name'] if not diff else '%s:L%s:M%s' % (r['name'], _rng({d[0] for d in diff}), _rng({d[1] for d in diff}))
        rep.add('GRID.accept', key, where(fn),
                '%s: accept/reject table over %d (level, mode) points equals the reference (%d accepted)' %
                (r['name'], len(r['accept']), nacc), not diff, det, nontrivial=nacc > 0)
        rep.add('GRID.reject-no-calls', r['name'], where(fn), '%s: rejected points reach no call' % r['name'],
                not r['reject_calls'],
                None if not r['reject_calls'] else ['level %s mode %s is rejected after calling %s' % r['reject_calls'][0]])
        if r['name'] in rl:
            exp = {i: int(e) for i, sp, e, no in rl[r['name']]}
            got = dict(sorted(r['levele'].items()))
            ok = got == exp
            rep.add('LEVELS.readme', r['name'], 'README.rst:%d' % rl[r['name']][0][3],
                    '%s: tabulated levels and energies %s = README table' % (r['name'], got), ok,
                    None if ok else ['README: %s' % exp, 'port : %s' % got])
        elif r['name'] != 'Xx99':
            rep.add('LEVELS.readme', r['name'], 'README.rst:1', 'README has a level table for %s' % r['name'], False)
    rep.analysed['grid points (isotope x level x mode)'] = points
    _ga_rules(rep, prog)
    _window_rules(rep, prog)
    _callsites(rep, prog)
    rep.floor('GRID.accept', sum(1 for i in rep.instances if i.rule == 'GRID.accept'), 52)
    rep.floor('LEVELS.readme', sum(1 for i in rep.instances if i.rule == 'LEVELS.readme'), 51)
    rep.extra['exhaustive'] = tier == 'thorough'
    rep.assumptions += ['the accept/reject frontier is a finite table: both writers of it (reference and port) are source '
                        'text folded by constant propagation',
                        'not decided: that accepted requests always yield events satisfying C03/C04 (see those checks)']
    return rep


def _w(a):
    return {True: 'accepts', False: 'rejects', None: 'undetermined'}[a]


def _rng(s):
    s = sorted(s)
    return '%s-%s' % (s[0], s[-1]) if len(s) > 1 else str(s[0])


def _enum(prog, qn):
    e = prog.enums.get(qn)
    if e is None:
        raise AnalysisBroken('enum %s not found' % qn)
    return {x['name']: x['val'] for x in e['enumerators']}


def _ga_rules(rep, prog):
    fn = prog.fn('bxdecay0::decay0_generator::_init_')
    F = cppflow.Flow(fn)
    modes = _enum(prog, 'bxdecay0::dbd_mode_type')
    procs = _enum(prog, 'bxdecay0::dbd_gA::process_type')
    want = {modes['DBDMODE_2NUBB_GA_G0']: procs['PROCESS_G0'], modes['DBDMODE_2NUBB_GA_G2']: procs['PROCESS_G2'],
            modes['DBDMODE_2NUBB_GA_G22']: procs['PROCESS_G22'], modes['DBDMODE_2NUBB_GA_G4']: procs['PROCESS_G4']}
    # mode -> process by constant propagation of `_decay_dbd_mode_ = m` through _init_ (file-local helpers expanded): whatever the
    # shape of the selection (if chain, switch, helper function), the residual program calls set_process with one constant
    from .. import cfg as cfgm, cpp2ir, sccp, tv, tvrun
    sigs = cpp2ir.build_sigs(prog)
    tree, lo = cpp2ir.lower_function(fn, sigs)
    helpers = {f['name']: f for f in prog.functions.values() if f.get('file') == fn.get('file') and not f.get('method') and f is not fn}
    if helpers:
        tree = tvrun.inline_helpers(tree, helpers, sigs)
    got = {}
    for m in sorted(want):
        g = cfgm.compact(cfgm.build(list(tree)), drop=('nop', 'io'))

        def fix(x, _m=m):
            if x[0] == 'fld' and x[2] == '_decay_dbd_mode_':
                return ('num', Fraction(_m), 'i')
            return x
        for n in g.nodes:
            tv._rewrite_node(n, lambda e: ir.map_expr(fix, e))
        r = sccp.specialise(g, {}, sccp.Evaluator('c', {}), lambda c, p_: tv._maywrite('c', c, p_))
        sp = [n for n in r.nodes if n.kind == 'call' and n.stmt[1] == 'dbd_gA::set_process']
        vals = {int(n.stmt[2][-1][1]) for n in sp if n.stmt[2][-1][0] == 'num'}
        if len(sp) >= 1 and len(vals) == 1 and all(n.stmt[2][-1][0] == 'num' for n in sp):
            got[m] = (vals.pop(), sp[0].line)
    for m, p in sorted(want.items()):
        g = got.get(m)
        if g is None:
            # constant propagation did not reduce the selection to one constant (a table walked by a loop, an out-parameter, ...):
            # nothing is known about the routing
            rep.cannot_decide('GA.route', where(fn, fn['l']), 'gA mode %d: the process handed to set_process() is not a constant after '
                              'propagating the mode through _init_ and its file-local helpers' % m)
            continue
        rep.add('GA.route', 'mode%d' % m, where(fn, g[1] if g else fn['l']),
                'gA mode %d selects dbd_gA process %d' % (m, p), g is not None and g[0] == p,
                None if g and g[0] == p else ['found: %s' % (g,)])
    lvl = lambda c: cppflow.mentions(c, '_decay_dbd_level_') and ('num', 0, 'i') in [
        (x[0], int(x[1]), x[2]) for x in ir.subexprs(c) if x[0] == 'num' and x[1] == 0]
    for what, pred in (('use_dbd_ga = true', lambda n: n.kind == 'assign' and cppflow.mentions(n.stmt[1], 'use_dbd_ga')
                        and n.stmt[2][0] == 'num' and n.stmt[2][1] != 0),
                       ('dbd_ga_process.initialize()', lambda n: n.kind == 'call' and n.stmt[1] == 'dbd_gA::initialize')):
        ns = F.nodes(pred)
        if not ns:
            raise AnalysisBroken('_init_: statement `%s` not found' % what)
        for n in ns:
            g = F.guarded(n, lvl)
            ok = g is not None
            if not ok and what.startswith('dbd_ga'):
                # initialize() is reached only under use_dbd_ga, which is only set behind the guard
                setters = F.nodes(lambda x: x.kind == 'assign' and cppflow.mentions(x.stmt[1], 'use_dbd_ga')
                                  and x.stmt[2][0] == 'num' and x.stmt[2][1] != 0)
                br = [b for b in F.nodes(kind='branch') if cppflow.mentions(b.stmt[1], 'use_dbd_ga')
                      and F.dominates(b, n) and n.id in F.reach(b.succ[0]) and n.id not in F.reach(b.succ[1])]
                ok = bool(br) and all(F.guarded(s_, lvl) for s_ in setters)
            rep.add('GA.route', 'level0:' + what, where(fn, n.line),
                    '`%s` is only reached after the level != 0 request was refused' % what, ok)
    # supported nuclides
    sfn = prog.fn('bxdecay0::dbd_gA::is_nuclide_supported')
    names = sorted({x['v'] for x in astu.walk(sfn['body']) if x['k'] == 'Str'})
    txt = '\n'.join(docs.readme())
    m = re.search(r'gA modes[^\n]*possible only for ([A-Za-z0-9, \n]+?)\(only', txt)
    doc = sorted(re.findall(r'[A-Z][a-z]?\d+', m.group(1))) if m else None
    rep.add('GA.route', 'nuclides', where(sfn), 'gA nuclides in code %s = README %s' % (names, doc), doc == names)


def _window_rules(rep, prog):
    from ..rules import intdiv
    gb = [k for k, f in prog.functions.items() if f['name'] == 'genbbsub']
    intdiv.check(rep, prog, gb, 'GRID.intdiv')
    from ..rules import window
    window.forward(rep, prog, 'WINDOW')
    ini = prog.fn('bxdecay0::decay0_generator::initialize')
    F = cppflow.Flow(ini, helpers=cppflow.private_helpers(prog, ini, exclude=('_init_', '_reset_')))
    g = [b for b, arm in F.throw_guards() if cppflow.mentions(F.resolve_flags(b.stmt[1]), '_energy_min_')
         and cppflow.mentions(F.resolve_flags(b.stmt[1]), '_energy_max_')]
    calls = [n for n in F.nodes(kind='call') if n.stmt[1] == 'decay0_generator::_init_']
    if not calls:
        raise AnalysisBroken('initialize(): call of _init_ not found')
    arms = {b.id: arm for b, arm in F.throw_guards()}
    ok = bool(g) and all(c.id not in F.reach(g[0].succ[arms[g[0].id]]) for c in calls) and \
        all(c.id in F.reach(g[0].id) for c in calls)
    rep.add('WINDOW', 'inverted:initialize', where(ini, g[0].line if g else ini['l']),
            'initialize() throws on Emin >= Emax before _init_ is called', ok)
    fn = prog.fn('bxdecay0::decay0_generator::_init_')
    F = cppflow.Flow(fn)
    gb = [n for n in F.nodes(kind='call') if n.stmt[1] == 'genbbsub']
    g2 = [(b, arm) for b, arm in F.throw_guards() if cppflow.mentions(b.stmt[1], 'ebb1') and cppflow.mentions(b.stmt[1], 'ebb2')]
    rep.add('WINDOW', 'inverted:_init_', where(fn, g2[0][0].line if g2 else fn['l']),
            '_init_ throws on ebb1 >= ebb2 before genbbsub is called',
            bool(g2) and all(n.id not in F.reach(g2[0][0].succ[g2[0][1]]) for n in gb))
    # a window on a mode that does not support it must be refused
    sup = [b for b in F.nodes(kind='branch') if any(nm == 'dbd_supports_esum_range' for nm, _ in F.calls_in(b))]
    if not sup:
        raise AnalysisBroken('_init_: test dbd_supports_esum_range(...) not found')
    b = sup[0]
    other = F.reach(b.succ[1]) - F.reach(b.succ[0])
    refusing = [x for x, arm in F.throw_guards() if x.id in other and
                (cppflow.mentions(x.stmt[1], '_energy_min_') or cppflow.mentions(x.stmt[1], '_energy_max_')
                 or cppflow.mentions(x.stmt[1], 'has_decay_dbd_esum_range'))]
    rep.add('WINDOW', 'unsupported-window-refused', where(fn, b.line),
            'a configured energy window on a mode without window support is refused by the library', bool(refusing),
            None if refusing else ['the else-arm of `if (dbd_supports_esum_range(mode))` (line %d) neither throws nor '
                                   'looks at the configured window: the request is silently accepted' % b.line])
    # capable-mode list = modes for which decay0_bb computes toallevents
    wer = prog.fn('bxdecay0::dbd_modes_with_esum_range')
    modes = _enum(prog, 'bxdecay0::dbd_mode_type')
    listed = sorted({x['val'] for x in astu.walk(wer['body']) if x['k'] == 'Ref' and x.get('dk') == 'enum'})
    bb = prog.fn('bxdecay0::decay0_bb')
    FB = cppflow.Flow(bb)
    legacy = _enum(prog, 'bxdecay0::legacy_modebb_type')
    comp = set()
    opaque_guard = None
    for n in FB.nodes(kind='assign'):
        if cppflow.mentions(n.stmt[1], 'toallevents') and n.stmt[2][0] != 'num':
            for b2 in FB.nodes(kind='branch'):
                c = FB.resolve_flags(b2.stmt[1])
                if FB.dominates(b2, n) and n.id in FB.reach(b2.succ[0]) and n.id not in FB.reach(b2.succ[1]):
                    eqs = [x for x in ir.subexprs(c) if x[0] == 'op' and x[1] == '==' and cppflow.mentions(x, 'modebb')]
                    if not eqs and not cppflow.mentions(c, 'modebb') and any(x[0] in ('var', 'call') for x in ir.subexprs(c)) and \
                            not any(k_ in ir.fmt(c) for k_ in ('istartbb', 'ebb1', 'ebb2', 'trace', 'debug')):
                        opaque_guard = b2          # e.g. `fe2_func != nullptr`: the mode set is hidden behind a lookup
                    if eqs and all(y[0] == 'op' and y[1] in ('or', '==') for y in ir.subexprs(c)
                                   if y[0] == 'op' and y[1] not in ('==',) or False):
                        comp |= {int(z[1]) for x in eqs for z in x[2:] if z[0] == 'num'}
    # legacy numbering -> BxDecay0 numbering through dbd_modes.lis
    lm = {int(rest[1]): int(w) for w, rest, no in docs.lis('resources/description/dbd_modes.lis')
          if rest[1].lstrip('-').isdigit() and int(rest[1]) >= 0}
    comp_bx = sorted(comp)
    if opaque_guard is not None and listed != comp_bx:
        rep.cannot_decide('WINDOW', where(bb, opaque_guard.line), 'capable-list: the full/window ratio is computed under `%s`, which is not a '
                          'test of the mode itself: the set of modes cannot be read off' % ir.fmt(opaque_guard.stmt[1])[:60])
    else:
      rep.add('WINDOW', 'capable-list', where(wer),
            'window-capable modes %s = modes for which decay0_bb computes the full/window ratio %s' % (listed, comp_bx),
            listed == comp_bx, None if listed == comp_bx else ['bb.cc computes toallevents for modes %s' % comp_bx])


def _callsites(rep, prog):
    n = 0
    for (qn, _), fn in prog.functions.items():
        if not qn.startswith('bxdecay0::') or qn == 'bxdecay0::genbbsub':
            continue
        if not any(c['callee']['qn'] == 'bxdecay0::genbbsub' for c in astu.calls(fn['body'])):
            continue
        F = cppflow.Flow(fn)
        for node in F.nodes(kind='call'):
            if node.stmt[1] != 'genbbsub':
                continue
            n += 1
            err = node.stmt[2][-2]
            nxt = F.g.nodes[node.succ[0]] if node.succ else None
            guards = {b.id: arm for b, arm in F.throw_guards()}
            ok = nxt is not None and nxt.kind == 'branch' and nxt.id in guards and err in list(ir.subexprs(nxt.stmt[1]))
            rep.add('ERR.callsite', '%s:%d' % (fn['name'], n), where(fn, node.line),
                    '%s: genbbsub(...) is immediately followed by `if (%s != 0) throw`' % (fn['name'], ir.fmt(err)), ok)
    rep.floor('ERR.callsite', n, 4)
