"""C13 - bxdecay0-run output is reproducible, complete and equal to the library API's (decided clauses)."""
from .. import astu, ir, project
from ..framework import Report, where
from ..project import AnalysisBroken
from ..rules import cppflow, records, statics


def _bound_is_nb_events(dr, c):
    """`ievent < _config_.nb_events`, or `ievent < N` with N a local initialised from _config_.nb_events and never reassigned"""
    c = astu.strip_casts(c)
    if c['k'] == 'Paren':
        c = astu.strip_casts(c['e'])
    if c['k'] != 'Bin' or c['op'] != '<' or astu.src(astu.strip_casts(c['a'])) != 'ievent':
        return False
    b = astu.strip_casts(c['b'])
    if astu.src(b) == '_config_.nb_events':
        return True
    if b['k'] == 'Ref' and b.get('dk') == 'local':
        from ..rules.scopes import Locals
        L = Locals(dr)
        v = L.decl.get(b['id'])
        return v is not None and 'init' in v and astu.src(astu.strip_casts(v['init'])) == '_config_.nb_events' and not L.assigns.get(b['id'])
    return False


def run(tier, seed):
    rep = Report('C13')
    prog = project.load('lib+programs')
    rep.rule('ORDER.output', 'in driver::run: initialize() precedes the first write to the event stream; the `@status` marker is '
             'written after the generation loop and after the event file is closed; in main: parse == PS_OK and the driver '
             'constructor precede run()')
    rep.rule('LOOP.shape', 'one shoot, one id insertion, one store per iteration of `for (ievent = 0; ievent < nb_events; ++ievent)`')
    rep.rule('DETERMINISM', 'the only time source of the program flows only into the companion file; the engine is seeded from '
             'config.seed only; the only other consumer of the engine is the activity timer, used only when an activity is set')
    rep.rule('CONFIG.forwarded', 'every configuration field the command-line parser can set is forwarded by the driver to the '
             'generator / MDL setter of the same role, or is in the reviewed exemption table')
    rep.rule('REFUSAL', 'the driver constructor refuses unknown nuclides (per category), undefined mode, a window on a mode '
             'without window support, non-positive activity and an empty basename before anything is generated')
    dr = prog.fn('bxdecay0::driver::run')
    F = cppflow.Flow(dr, keep_io=True)
    if not [n for n in F.nodes(kind='call') if n.stmt[1] == 'decay0_generator::shoot']:
        # the event loop may have been moved into a private helper of the driver (or a file-local function): expand it
        try:
            F = cppflow.Flow(dr, keep_io=True, helpers=cppflow.private_helpers(prog, dr))
        except AnalysisBroken:
            F = cppflow.Flow(dr, keep_io=True)
    init = [n for n in F.nodes(kind='call') if n.stmt[1] == 'decay0_generator::initialize']
    shoot = [n for n in F.nodes(kind='call') if n.stmt[1] == 'decay0_generator::shoot']
    store = [n for n in F.nodes(kind='call') if n.stmt[1] == 'event::store']
    close = [n for n in F.nodes(kind='call') if n.stmt[1].endswith('::close')]
    ios = [n for n in F.g.nodes if n.kind == 'io' or (n.kind == 'call' and n.stmt[1] == 'operator<<')]

    def txt(n):
        return str(n.stmt[2]) if n.kind == 'io' else ir.fmt_stmt(n.stmt)
    fevent_ins = [n for n in ios if 'fevent' in txt(n)]
    status = [n for n in ios if '@status' in txt(n)]
    if not (init and shoot and store and status and len(close) >= 2):
        raise AnalysisBroken('driver::run: anchors not found (initialize/shoot/store/@status/close)')
    rep.add('ORDER.output', 'initialize-first', where(dr, init[0].line),
            'decay0.initialize() dominates every insertion into the event stream and every store()',
            all(F.dominates(init[0], n) for n in fevent_ins + store))
    fclose = [c for c in close if 'fevent' in ir.fmt_stmt(c.stmt)]
    okst = bool(fclose) and len(status) == 1 and F.dominates(fclose[0], status[0]) and \
        status[0].id not in F.g.reachable_from_succ(status[0].id) and fclose[0].id not in F.g.reachable_from_succ(fclose[0].id)
    # the marker must come after the loop: it is not inside any cycle and the loop header dominates it
    rep.add('ORDER.output', 'status-after-close', where(dr, status[0].line),
            'the `@status=0` line is written once, after fevent.close()', okst)
    between = [n for n in F.g.nodes if n.kind in ('call',) and n.stmt[1] != 'operator<<' and fclose and
               F.dominates(fclose[0], n) and n.id != fclose[0].id and F.dominates(n, status[0]) and n.id != status[0].id]
    rep.add('ORDER.output', 'nothing-can-fail-between', where(dr, status[0].line),
            'no call that can fail lies between fevent.close() and the marker (%d calls)' % len(between), not between)
    mn = prog.fn('main')
    FM = cppflow.Flow(mn)
    run_ = [n for n in FM.nodes(kind='call') if n.stmt[1] == 'driver::run']
    okb = [b for b in FM.nodes(kind='branch') if 'parse_status' in ir.fmt(b.stmt[1]) or 'PS_OK' in ir.fmt(b.stmt[1])]
    ctor = [n for n in FM.g.nodes if n.stmt is not None and 'driver' in ir.fmt_stmt(n.stmt) and n.kind in ('assign', 'call', 'eval')
            and 'driverConfig' in ir.fmt_stmt(n.stmt) and n.stmt[1] != 'cl_parser::parse' and 'parse' not in ir.fmt_stmt(n.stmt)]
    rep.add('ORDER.output', 'main', where(mn), 'main: run() is reached only when parse() returned PS_OK',
            bool(run_) and bool(okb) and F is not None and FM.dominates(okb[0], run_[0]) and run_[0].id not in FM.reach(okb[0].succ[1]))
    # ---- loop shape
    body = None
    for n in F.g.nodes:
        for h in n.succ:
            if h in F.dom.get(n.id, ()) and shoot[0].id in _nat(F, n.id, h):
                body = _nat(F, n.id, h)
                head = F.g.nodes[h]
    if body is None:
        raise AnalysisBroken('generation loop not found')
    in_body = lambda lst: [x for x in lst if x.id in body]
    # the record id: the first value inserted into the event stream inside the loop (whatever the variable is called, whatever
    # the loop form); by identity of the stream handed to event::store
    from ..rules import streams as _st
    from ..rules.scopes import Locals as _Locals
    Ld = _Locals(dr)
    chs_ = _st.chains(dr)
    ev_roots = {_st.root_of(c['args'][0])[1] for c in astu.calls(dr['body']) if c['k'] == 'MCall' and
                c['callee']['qn'] == 'bxdecay0::event::store' and c.get('args')}
    lines_in_body = {F.g.nodes[i].line for i in body}
    idch = [c for c in chs_ if c['root'][1] in ev_roots and c['l'] in lines_in_body and
            any(not _st.is_manip(o) for o in c['ops'])]
    idvar = None
    if len(idch) == 1:
        first = [astu.strip_casts(o) for o in idch[0]['ops'] if not _st.is_manip(o)][0]
        if first['k'] == 'Ref' and first.get('dk') == 'local':
            idvar = first
    ids = [n for n in fevent_ins if n.id in body and idvar is not None and n.line == idch[0]['l']]
    tails = [n for n in F.g.nodes for h_ in n.succ if h_ == head.id and n.id in body]
    every_iter = lambda x: all(F.dominates(x, t) for t in tails)
    oks = len(in_body(shoot)) == 1 and len(in_body(store)) == 1 and len(ids) == 1 and \
        F.dominates(in_body(shoot)[0], ids[0]) and F.dominates(ids[0], in_body(store)[0]) and every_iter(in_body(store)[0])
    rep.add('LOOP.shape', 'one-record-per-iteration', where(dr, head.line),
            'each iteration: shoot -> `<event stream> << id` -> store (exactly one of each, on every path round the loop)', oks)
    okc, whyc = False, None
    if idvar is None:
        whyc = 'the record id inserted into the event stream is not a local variable'
    else:
        vname = idvar['name']
        defs_in = [n for n in F.g.nodes if n.id in body and n.kind == 'assign' and n.stmt[1] == ('var', vname)]
        defs_out = [n for n in F.g.nodes if n.id not in body and n.kind == 'assign' and n.stmt[1] == ('var', vname)]
        plus1 = len(defs_in) == 1 and ir.fmt(defs_in[0].stmt[2]).replace(' ', '') in ('(%s+1)' % vname, '(1+%s)' % vname)
        # start value s (the one definition outside the loop, dominating the head)
        s0 = None
        if len(defs_out) == 1 and defs_out[0].stmt[2][0] == 'num' and F.dominates(defs_out[0], head):
            s0 = defs_out[0].stmt[2][1]
        # inserted value v + c, read off the insertion node
        cofs = None
        if len(ids) == 1 and ids[0].kind == 'call':
            for x in ir.subexprs(('op', 'wrap') + tuple(ids[0].stmt[2])):
                if x == ('var', vname) and cofs is None:
                    cofs = 0
                if x[0] == 'op' and x[1] in ('-', '+') and len(x) == 4 and x[2] == ('var', vname) and x[3][0] == 'num':
                    cofs = -x[3][1] if x[1] == '-' else x[3][1]
        elif len(ids) == 1:
            cofs = 0          # an `io` node: the operand is the variable itself (checked through the chain above)
        # the increment runs on every path round the loop, after the insertion
        order = plus1 and len(ids) == 1 and every_iter(defs_in[0]) and not F.dominates(defs_in[0], ids[0])
        exits = [b for b in F.nodes(kind='branch') if b.id in body and any(x not in body for x in b.succ)]

        def bound(c):
            """('<' | '<=', is-nb_events)"""
            if not (c[0] == 'op' and c[1] in ('<', '<=') and c[2] == ('var', vname)):
                return None
            b_ = c[3]
            if b_[0] == 'fld' and 'nb_events' in ir.fmt(b_):
                return c[1]
            if b_[0] == 'var':
                dd = [n for n in F.g.nodes if n.kind == 'assign' and n.stmt[1] == b_]
                if len(dd) == 1 and dd[0].stmt[2][0] == 'fld' and 'nb_events' in ir.fmt(dd[0].stmt[2]):
                    return c[1]
            return None
        rel = bound(exits[0].stmt[1]) if len(exits) == 1 else None
        okb_ = rel is not None
        # first id = s + c = 0; number of iterations = nb_events: s = 0 with `<`, s = 1 with `<=`
        start0 = s0 is not None and cofs is not None and s0 + cofs == 0 and ((rel == '<' and s0 == 0) or (rel == '<=' and s0 == 1))
        okc = bool(plus1 and start0 and order and okb_)
        if not okc:
            whyc = 'id variable `%s`: starts at 0: %s; one `+ 1` per iteration, after the insertion: %s; the loop ends on `%s < nb_events` only: %s' % (
                vname, bool(start0), bool(order), vname, bool(okb_))
    rep.add('LOOP.shape', 'ids-consecutive-from-0', where(dr, head.line), 'the record id runs 0, 1, ... nb_events-1: it starts at 0, is '
            'inserted and then incremented once on every path round the loop, and the loop ends on `id < nb_events` only', bool(okc), whyc)
    # ---- determinism
    progkeys = [k for k, f in prog.functions.items() if '/programs/' in f['file']]
    ent = [s for s in statics.effect_sites(prog, prog.functions.keys()) if s[3] == 'entropy']
    from ..rules import streams
    chs = streams.chains(dr)
    comp = [c for c in chs if any(astu.strip_casts(o)['k'] == 'Str' and '@status' in astu.strip_casts(o).get('v', '') for o in c['ops'])]
    if not comp:
        raise AnalysisBroken('driver::run: the insertion chain that writes the `@status` marker was not found')
    companion = comp[0]['root']
    # streams whose text ends in the companion file: the companion itself and string buffers inserted into it with .str()
    feeds = {companion[1]: companion}
    grew = True
    while grew:
        grew = False
        for c in chs:
            if c['root'][1] in feeds:
                for o in c['ops']:
                    r2 = streams.str_source(o)
                    if r2 is not None and r2[1] not in feeds:
                        feeds[r2[1]] = r2
                        grew = True
    evroots = {streams.root_of(c['args'][0])[1] for c in astu.calls(dr['body']) if c['k'] == 'MCall' and
               c['callee']['qn'] == 'bxdecay0::event::store' and c.get('args')}
    for fn, q, line, kind, c in ent:
        okt = False
        why = None
        if q in ('time', 'std::time') and (fn is dr or fn['qn'] == dr['qn']):
            tvar = [v for n in astu.walk(dr['body']) if n['k'] == 'Decl' for v in n['vars'] if 'init' in v and
                    any(x.get('callee', {}).get('qn') in ('time', 'std::time') for x in astu.calls(v['init']))]
            if len(tvar) == 1:
                vid = tvar[0]['id']
                refs = [x for x in astu.walk(dr['body']) if x['k'] == 'Ref' and x.get('id') == vid]
                direct = {}
                for ch in chs:
                    for o in ch['ops']:
                        o2 = astu.strip_casts(o)
                        if o2['k'] == 'Ref' and o2.get('id') == vid:
                            direct[id(o2)] = ch
                stray = [x for x in refs if id(x) not in direct]
                tainted = {ch['root'][1]: ch['root'] for ch in direct.values()}
                grew = True
                while grew:
                    grew = False
                    for ch in chs:
                        for o in ch['ops']:
                            r2 = streams.str_source(o)
                            if r2 is not None and r2[1] in tainted and ch['root'][1] not in tainted:
                                tainted[ch['root'][1]] = ch['root']
                                grew = True
                bad = [r for k_, r in tainted.items() if not (k_ in feeds or r[2] in streams.LOG_STREAMS or 'stringstream' in r[3])
                       or k_ in evroots]
                okt = bool(refs) and not stray and not bad
                if not okt:
                    why = ['`%s` is used outside an insertion at line(s) %s' % (tvar[0]['name'], [x.get('l') for x in stray])] if stray else \
                          ['the time value reaches the stream(s) %s' % [r[2] for r in bad]]
        rep.add('DETERMINISM', '%s:%s' % (fn['name'], q), where(fn, line),
                '%s: the value of %s() only goes to the companion file (directly, through a string buffer, or to the log)' % (fn['name'], q), okt, why)
    # ---- the companion reports the effective settings: real-valued settings are written with the precision of the event file
    rep.rule('COMPANION.precision', 'every floating-point value inserted into the companion file (directly or through a string buffer '
             'whose text is inserted into it) goes through a stream on which precision(>= 15) was set before: the reported settings '
             'reproduce the run (default formatting keeps 6 significant digits)')
    precs = streams.precision_calls(dr)
    nfl = 0
    for ch in chs:
        if ch['root'][1] not in feeds:
            continue
        inchain = None
        for o in ch['ops']:
            sp = streams.setprecision_of(o)
            if sp is not None:
                inchain = sp
                continue
            if not streams.is_floating(o):
                continue
            nfl += 1
            before = [(l, n_) for r, n_, l, node in precs if r[1] == ch['root'][1] and l is not None and l < ch['l'] and
                      _unconditional(dr, node)]
            last = max(before)[1] if before else None
            eff = inchain if inchain is not None else last
            ok = eff is not None and eff >= 15
            rep.add('COMPANION.precision', '%s' % astu.src(o)[:50], where(dr, ch['l']),
                    '`%s << %s` is formatted with at least 15 significant digits' % (ch['root'][2], astu.src(o)[:50]), ok,
                    None if ok else ['no `%s.precision(N >= 15)` (nor std::setprecision) is in force at this insertion (%s): the value '
                                     'is written with %s significant digits, the run uses the full value'
                                     % (ch['root'][2], 'stream declared at %s' % ch['root'][1], 'the default 6' if eff is None else eff)])
    rep.floor('COMPANION.precision', nfl, 5)
    eng = [v for n in astu.walk(dr['body']) if n['k'] == 'Decl' for v in n['vars'] if 'random_engine' in v['ty'] or 'mt19937' in v['ty']]
    okeng = len(eng) == 1 and 'init' in eng[0] and [astu.src(a) for a in eng[0]['init'].get('args', [])] == ['_config_.seed']
    rep.add('DETERMINISM', 'engine-seed', where(dr, eng[0]['l'] if eng else dr['l']),
            'the deviate engine is constructed from _config_.seed only', okeng)
    timer = [n for n in F.g.nodes if n.stmt is not None and n.kind != 'io' and 'decay_timer' in ir.fmt_stmt(n.stmt)
             and 'generator' in ir.fmt_stmt(n.stmt) and n.id in body]
    def _guarded_by_activity(t):
        # under an `if` on the activity, or in the arm of a conditional expression whose test is on the activity
        if any(b.kind == 'branch' and 'activity' in ir.fmt(b.stmt[1]) and b.succ[0] != b.succ[1] and
               (F.dominates(F.g.nodes[b.succ[0]], t) or F.dominates(F.g.nodes[b.succ[1]], t)) and not
               (F.dominates(F.g.nodes[b.succ[0]], t) and F.dominates(F.g.nodes[b.succ[1]], t)) for b in F.g.nodes):
            return True
        for x in ir.subexprs(('op', 'wrap') + tuple(y for y in t.stmt[1:] if isinstance(y, tuple))):
            if x[0] == 'op' and x[1] == '?:' and len(x) == 5 and 'activity' in ir.fmt(x[2]) and \
                    ('decay_timer' in ir.fmt(x[3])) != ('decay_timer' in ir.fmt(x[4])):
                return True
        return False
    okt2 = bool(timer) and all(_guarded_by_activity(t) for t in timer)
    others = [n for n in F.g.nodes if n.id in body and n.stmt is not None and n.kind != 'io' and
              ('generator' in ir.fmt_stmt(n.stmt) or 'prng' in ir.fmt_stmt(n.stmt)) and n not in timer and n not in shoot]
    rep.add('DETERMINISM', 'engine-consumers', where(dr, timer[0].line if timer else dr['l']),
            'inside the loop the engine is consumed by shoot() and, only when an activity is set, by the decay timer',
            okt2 and not others, None if okt2 and not others else ['other consumers: %s' % [ir.fmt_stmt(n.stmt)[:60] for n in others]])
    # ---- configuration forwarding
    cp = prog.fn('bxdecay0::cl_parser::parse')
    setf = set()
    for n in astu.walk(cp['body']):
        tgt = None
        if n['k'] == 'Bin' and n['op'] == '=':
            tgt = n['a']
        elif n['k'] == 'OpCall' and n['op'] == '=' and n['args']:
            tgt = n['args'][0]
        if tgt is not None:
            t = astu.src(tgt)
            if t.startswith('config_.'):
                setf.add(t[len('config_.'):])
    used = astu_texts(dr) | astu_texts(prog.fn('bxdecay0::driver::driver'))
    exempt = {'basename': 'file naming only', 'logging': 'verbosity only'}
    for f in sorted(setf):
        okf = ('_config_.' + f) in used or ('config_.' + f) in used or f in exempt or \
            (f.startswith('mdl_config.') and '_config_.mdl_config' in used)
        rep.add('CONFIG.forwarded', f, where(cp), 'option field `%s` is consumed by the driver%s' %
                (f, (' (exempt: %s)' % exempt[f]) if f in exempt else ''), okf)
    rep.floor('CONFIG.forwarded', len(setf), 12)
    # the driver uses the parsed configuration as it is
    rep.rule('CONFIG.verbatim', 'the driver never rewrites a setting it was given: `_config_` is assigned as a whole from a '
             'configuration argument and no member function of the driver assigns, increments or otherwise mutates one of its fields (a re-mapped seed, '
             'count or mode makes the run differ from what the library API yields for the command line\'s own settings)')
    nwhole = 0
    for k_, f_ in sorted(prog.functions.items()):
        if f_.get('cls') != 'bxdecay0::driver' or not f_.get('body'):
            continue
        for n_ in astu.walk(f_['body']):
            tgt = None
            if n_['k'] == 'Bin' and n_['op'].endswith('=') and n_['op'] not in ('==', '!=', '<=', '>='):
                tgt = n_['a']
            elif n_['k'] == 'OpCall' and n_['op'].endswith('=') and n_['op'] not in ('==', '!=', '<=', '>=') and n_['args']:
                tgt = n_['args'][0]
            elif n_['k'] == 'Un' and n_['op'] in ('++', '--'):
                tgt = n_['e']
            elif n_['k'] == 'MCall' and n_.get('callee', {}).get('qn', '').split('::')[-1] in (
                    'clear', 'assign', 'append', 'push_back', 'erase', 'insert', 'swap', 'resize', 'replace', 'reset', 'pop_back'):
                tgt = n_.get('obj')
            if tgt is None:
                continue
            t_ = astu.src(astu.strip_casts(tgt))
            if t_ == '_config_':
                rhs = n_['b'] if n_['k'] == 'Bin' else (n_['args'][1] if n_['k'] == 'OpCall' and len(n_['args']) > 1 else None)
                r_ = astu.strip_casts(rhs) if rhs else None
                okw = r_ is not None and r_.get('k') == 'Ref' and r_.get('dk') == 'param' and n_.get('op') == '='
                nwhole += 1
                if okw:
                    rep.add('CONFIG.verbatim', '%s:_config_' % f_['name'], where(f_, n_.get('l')),
                            '%s: `_config_` is set as a whole from the argument `%s`' % (f_['qn'], r_['name']), True)
                else:
                    rep.cannot_decide('CONFIG.verbatim', where(f_, n_.get('l')), '`_config_` is assigned from `%s`, not from a parameter as a whole'
                                      % astu.src(rhs)[:60])
            elif (t_.startswith('_config_.') or t_.startswith('this->_config_.')) and t_.split('_config_.')[-1].split('.')[0] in ('basename', 'logging'):
                rep.add('CONFIG.verbatim', '%s:%s' % (f_['name'], t_), where(f_, n_.get('l')),
                        '%s adjusts `%s` (file naming / verbosity only: no event depends on it)' % (f_['qn'], t_), True, nontrivial=False)
            elif t_.startswith('_config_.') or t_.startswith('this->_config_.'):
                rep.add('CONFIG.verbatim', '%s:%s' % (f_['name'], t_), where(f_, n_.get('l')),
                        '%s rewrites the setting `%s`' % (f_['qn'], t_), False,
                        ['`%s` is changed after the command line was parsed: the run no longer uses the value the user gave '
                         '(and that the API would be given)' % t_])
    rep.floor('CONFIG.verbatim', nwhole, 1)
    # one option, one value: an option arm of the parser stores its own value and nothing derived from it elsewhere
    rep.rule('CONFIG.one-option-one-field', 'each `arg == "--option"` arm of cl_parser::parse assigns at most one configuration field from '
             'its value (plus literal flags such as use_mdl = true): no option silently changes a setting that has no option of its own')
    narms = 0
    for n_ in astu.walk(cp['body']):
        if n_['k'] != 'If':
            continue
        opts = [x['v'] for x in astu.walk(n_['c']) if x['k'] == 'Str' and str(x['v']).startswith('-')]
        if not opts or 'arg' not in astu.src(n_['c']):
            continue
        derived, flags = [], []
        for a_ in astu.walk(n_['t']):
            if a_['k'] in ('Bin', 'OpCall') and a_.get('op') == '=':
                lhs, rhs = (a_['a'], a_['b']) if a_['k'] == 'Bin' else (a_['args'][0], a_['args'][1])
                t_ = astu.src(lhs)
                if not t_.startswith('config_.'):
                    continue
                r_ = astu.strip_casts(rhs)
                literal = r_['k'] in ('Bool', 'Num', 'Str') or (r_['k'] == 'Ref' and r_.get('dk') == 'enum')
                (flags if literal else derived).append(t_[len('config_.'):])
        narms += 1
        rep.add('CONFIG.one-option-one-field', opts[-1], where(cp, n_.get('l')), 'option %s stores %s%s' %
                ('/'.join(opts), sorted(set(derived)) or 'no value', (' and sets the flags %s' % sorted(set(flags))) if flags else ''),
                len(set(derived)) <= 1, None if len(set(derived)) <= 1 else 'fields assigned from computed values in one arm: %s' % sorted(set(derived)),
                nontrivial=bool(derived))
    rep.floor('CONFIG.one-option-one-field', narms, 15)
    # role check for the generator setters
    roles = {'set_decay_category': 'decay_category', 'set_decay_isotope': 'nuclide', 'set_decay_dbd_level': 'level',
             'set_decay_dbd_mode': 'dbd_mode'}
    for c in astu.calls(dr['body']):
        nm = c['callee']['qn'].split('::')[-1]
        if nm in roles:
            a = astu.src(c['args'][0])
            rep.add('CONFIG.forwarded', 'role:' + nm, where(dr, c.get('l')), '%s(%s) receives the field of its role' % (nm, a),
                    a == '_config_.' + roles[nm])
    # ---- refusal before generation
    dc = prog.fn('bxdecay0::driver::driver')
    FD = cppflow.Flow(dc)
    gtxt = [ir.fmt(b.stmt[1]) for b, arm in FD.throw_guards()]
    need = {'category': 'decay_category', 'nuclide-empty': 'nuclide', 'background-catalogue': 'background_isotopes',
            'dbd-catalogue': 'dbd_isotopes', 'mode': 'dbd_mode', 'window-capability': 'dbd_supports_esum_range',
            'activity': 'activity_Bq', 'basename': 'basename'}
    for k, pat in need.items():
        rep.add('REFUSAL', k, where(dc), 'driver constructor throws on an invalid %s' % k, any(pat in t for t in gtxt))
    _per_category(rep, prog, dc, FD)
    _window_guard(rep, dc)
    rep.assumptions += ['decided: write ordering, loop shape, determinism sources, configuration forwarding, refusal predicates',
                        'not decided: byte identity of two actual files, exact equality with API events beyond the structural '
                        'clauses, behaviour under I/O errors (the stream state of the event file is never consulted)']
    return rep


def _window_guard(rep, dc):
    """the window-support refusal must fire as soon as ONE bound of the window is given"""
    from ..rules.scopes import Locals, parent_map
    L = Locals(dc)
    pm = parent_map(dc['body'])
    sup = [n for n in astu.walk(dc['body']) if n['k'] == 'If' and any(c['callee']['qn'].endswith('dbd_supports_esum_range') for c in astu.calls(n['c']))
           and any(x['k'] == 'Throw' for x in astu.walk(n['t']))]
    if len(sup) != 1:
        raise AnalysisBroken('driver constructor: the window-support refusal was not found (%d candidates)' % len(sup))
    conds = [sup[0]['c']]
    x = sup[0]
    while id(x) in pm:
        par = pm[id(x)]
        if par['k'] == 'If' and x is par.get('t'):
            conds.append(par['c'])
        x = par

    def ev(e, st):
        e = astu.strip_casts(e)
        k = e['k']
        if k == 'Paren':
            return ev(e['e'], st)
        if k == 'Un' and e['op'] == '!':
            v = ev(e['e'], st)
            return None if v is None else not v
        if k == 'Bin' and e['op'] in ('||', '&&'):
            a, b = ev(e['a'], st), ev(e['b'], st)
            if e['op'] == '||':
                return True if (a is True or b is True) else (None if (a is None or b is None) else False)
            return False if (a is False or b is False) else (None if (a is None or b is None) else True)
        if k == 'Call' and e['callee']['qn'] in ('std::isnan', 'isnan') and e['args']:
            t = astu.src(e['args'][0])
            for b_ in ('min', 'max'):
                if 'energy_%s_MeV' % b_ in t:
                    return not st[b_]
            return None
        if k == 'Bin' and e['op'] in ('==', '!=') and astu.src(e['a']) == astu.src(e['b']):
            t = astu.src(e['a'])
            for b_ in ('min', 'max'):
                if 'energy_%s_MeV' % b_ in t:
                    return st[b_] if e['op'] == '==' else not st[b_]
        if k == 'Ref' and e.get('dk') == 'local':
            v = L.decl.get(e['id'])
            if v is not None and 'init' in v and not L.assigns.get(e['id']):
                return ev(v['init'], st)
        if k == 'Call' and e['callee']['qn'].endswith('dbd_supports_esum_range'):
            return False             # the case of interest: the mode has no window support
        return 'other'               # a condition about something else (category, mode defined ...): assumed to hold
    bad = []
    undecided = False
    for st in ({'min': True, 'max': False}, {'min': False, 'max': True}, {'min': True, 'max': True}):
        for c in conds:
            mentions = 'energy_min_MeV' in astu.src(c) or 'energy_max_MeV' in astu.src(c) or \
                any(x_['k'] == 'Ref' and x_.get('dk') == 'local' and L.decl.get(x_['id'], {}).get('init') is not None and
                    ('energy_m' in astu.src(L.decl[x_['id']]['init'])) for x_ in astu.walk(c))
            if not mentions:
                continue
            v = ev(c, st)
            if v is None:
                undecided = True
            elif v is False or v == 'other':
                if v is False:
                    bad.append('with %s the refusal is skipped by `%s`' % (' and '.join('E%s %s' % (k_, 'set' if s_ else 'unset') for k_, s_ in sorted(st.items())), astu.src(c)[:90]))
    if undecided and not bad:
        rep.cannot_decide('REFUSAL', where(dc, sup[0].get('l')), 'the conditions around the window-support refusal are not in a form this rule evaluates')
        return
    rep.add('REFUSAL', 'window:one-bound-suffices', where(dc, sup[0].get('l')), 'an energy window with only a lower or only an upper bound on a mode without '
            'window support is refused like a two-sided one', not bad, '; '.join(bad) or None)


def astu_texts(fn):
    out = set()
    for n in astu.walk(fn['body']):
        if n['k'] == 'Member':
            out.add(astu.src(n))
            t = astu.src(n)
            while '.' in t:
                t = t.rsplit('.', 1)[0]
                out.add(t)
    return out


def _nat(F, tail, head):
    preds = F.g.preds()
    body = {head, tail}
    st = [tail]
    while st:
        x = st.pop()
        if x == head:
            continue
        for p in preds[x]:
            if p not in body:
                body.add(p)
                st.append(p)
    return body


def _unconditional(fn, node):
    """the call is a statement of the function's top-level block (not under an if / loop)"""
    for st in fn['body'].get('s', []):
        if st['k'] == 'Expr' and any(x is node for x in astu.walk(st)):
            return True
    return False


def _per_category(rep, prog, dc, FD):
    """REFUSAL per-category: a nuclide missing from the catalogue of the *requested* category is refused even when the other
    catalogue lists it (three-valued path search through the constructor: is a normal return reachable?)"""
    en = prog.enums.get('bxdecay0::decay0_generator::decay_category_type')
    if not en:
        raise AnalysisBroken('REFUSAL: enumeration decay_category_type not found')
    val = {e['name']: e['val'] for e in en['enumerators']}
    scen = [('background', val['DECAY_CATEGORY_BACKGROUND'], 'background_isotopes', 'dbd_isotopes'),
            ('dbd', val['DECAY_CATEGORY_DBD'], 'dbd_isotopes', 'background_isotopes')]

    def ev(e, cat, absent, present):
        k = e[0]
        if k == 'num':
            return e[1] != 0
        if k == 'op' and e[1] == 'not':
            v = ev(e[2], cat, absent, present)
            return None if v is None else (not v)
        if k == 'op' and e[1] in ('and', 'or'):
            vs = [ev(x, cat, absent, present) for x in e[2:]]
            if e[1] == 'and':
                return False if any(v is False for v in vs) else (None if any(v is None for v in vs) else True)
            return True if any(v is True for v in vs) else (None if any(v is None for v in vs) else False)
        if k == 'op' and e[1] in ('==', '!=') and len(e) == 4:
            a, b = e[2], e[3]
            for x, y in ((a, b), (b, a)):
                if x[0] == 'fld' and x[2] == 'decay_category' and y[0] == 'num':
                    return (y[1] == cat) == (e[1] == '==')
        if k == 'call' and e[1].split('::')[-1] in ('count', 'contains') and len(e) >= 3 and e[2][0] == 'call':
            which = e[2][1].split('::')[-1]
            if which == absent:
                return False
            if which == present:
                return True
        if k == 'op' and e[1] in ('>', '!=') and len(e) == 4 and e[3][0] == 'num' and e[3][1] == 0:
            return ev(e[2], cat, absent, present)
        if k == 'op' and e[1] in ('==', '<=', '<') and len(e) == 4 and e[3][0] == 'num' and e[3][1] == (1 if e[1] == '<' else 0) \
                and e[2][0] == 'call':
            v = ev(e[2], cat, absent, present)             # count(..) == 0 / <= 0 / < 1
            return None if v is None else (not v)
        return None
    for name, cat, absent, present in scen:
        seen, st, leak = set(), [(FD.g.entry.id, ())], None
        while st and leak is None:
            i, path = st.pop()
            if i in seen:
                continue
            seen.add(i)
            n = FD.g.nodes[i]
            if n.kind == 'return':
                leak = path
                break
            if n.kind == 'throw':
                continue
            if n.kind == 'branch' and len(n.succ) == 2 and n.succ[0] != n.succ[1]:
                v = ev(n.stmt[1], cat, absent, present)
                if v is not False:
                    st.append((n.succ[0], path + ((n.line, True),)))
                if v is not True:
                    st.append((n.succ[1], path + ((n.line, False),)))
                continue
            for s_ in n.succ:
                st.append((s_, path))
        ok = leak is None
        rep.add('REFUSAL', 'per-category:' + name, where(dc, leak[-1][0] if leak else dc['l']),
                'a %s request for a nuclide that %s() does not list is refused by the constructor even when %s() lists it'
                % (name, absent, present), ok,
                None if ok else ['the constructor can return normally (tests passed: %s): the name then reaches the generator, whose '
                                 'dispatch matches name prefixes - e.g. a background request for a double-beta name' %
                                 ', '.join('line %d %s' % (l, 'taken' if t else 'not taken') for l, t in leak[-6:])])
