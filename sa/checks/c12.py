"""C12 - independent generators do not interfere when used from different threads (shared mutable state enumerated)."""
from .. import callgraph, project
from ..framework import Report, where
from ..rules import statics


def run(tier, seed):
    rep = Report('C12')
    prog = project.load('lib')
    cg = callgraph.CallGraph(prog)
    n = statics.check_statics(rep, prog, cg)
    rep.analysed['non-const static-storage variables'] = n
    groots = cg.keys_of('bxdecay0::decay0_generator::shoot') + cg.keys_of('bxdecay0::genbbsub') + \
        cg.keys_of('bxdecay0::dbd_gA::shoot') + cg.keys_of('bxdecay0::momentum_direction_lock_event_op::operator()')
    nfz = statics.check_frozen_inputs(rep, prog, cg, groots)
    rep.floor('STATICS.frozen-input', nfz, 20)
    rep.analysed['functions'] = len(prog.functions)
    rep.rule('GLOBAL-EFFECT.locked', 'every call that changes process-wide state (GSL error handler, environment, locale, '
             'signal handlers, C random seed) lies in the scope of a lock on one static mutex taken earlier in the same function')
    statics._PROG[0] = prog
    sites = statics.effect_sites(prog, prog.functions.keys())
    m = 0
    for fn, q, line, kind, c in sites:
        if kind != 'mutator':
            continue
        m += 1
        ok = statics.lock_dominates(fn, c)
        rep.add('GLOBAL-EFFECT.locked', '%s:%s' % (fn['name'], q), where(fn, line),
                '%s: `%s(...)` is executed while holding a static mutex' % (fn['name'], q), ok,
                None if ok else ['no std::lock_guard/unique_lock on a static mutex is alive at this call' +
                                 (' (a member initialiser runs before the members declared after it, whatever the order written in the '
                                  'initialiser list: the lock member must be declared first)' if fn.get('ctor') else '')])
    rep.rule('GLOBAL-EFFECT.one-mutex', 'all the sites that change one process-wide resource hold one and the same mutex: two '
             'save/disable/restore sections under different mutexes do not exclude each other (one thread restores the default '
             'handler while the other relies on it being off)')
    byres = {}
    for fn, q, line, kind, c in sites:
        if kind == 'mutator':
            byres.setdefault(statics.RESOURCE.get(q, q), []).append((fn, q, line, statics.held_mutexes(fn, c)))
    for res, items in sorted(byres.items()):
        if any(not held for fn, q, line, held in items):
            continue            # a site with no visible lock is GLOBAL-EFFECT.locked's finding, not a second-mutex question
        common = None
        for fn, q, line, held in items:
            ids = {h[0] for h in held}
            common = ids if common is None else common & ids
        ok = bool(common)
        worst = items[-1]
        if not ok:
            # name the site(s) whose mutex differs from the first site's
            first = {h[0] for h in items[0][3]}
            diff = [it for it in items if not ({h[0] for h in it[3]} & first)]
            worst = diff[0] if diff else items[-1]
        rep.add('GLOBAL-EFFECT.one-mutex', res, where(worst[0], worst[2]),
                '%d site(s) changing %s all hold the same static mutex' % (len(items), res), ok,
                None if ok else ['%s (%s) `%s` under %s' % (where(f, l), f['name'], q, sorted('%s declared at %s' % (h[1], h[0]) for h in held) or 'no mutex')
                                 for f, q, l, held in items])
    rep.rule('GLOBAL-EFFECT.nonreentrant', 'no library function calls a C routine that keeps state in a hidden process-wide static '
             '(strtok, localtime, rand, strerror, ...): such a call is shared mutable state between threads (reentrant *_r variants, '
             'iostreams and <random> engines owned by the caller are fine)')
    libkeys = [k for k, f in prog.functions.items() if '/bxdecay0/' in f.get('file', '')]
    nr = statics.nonreentrant_sites(prog, libkeys)
    rep.add('GLOBAL-EFFECT.nonreentrant', 'library', 'bxdecay0/', '%d library functions scanned: no call of a non-reentrant C routine' % len(libkeys),
            not nr, ['%s calls %s at line %s' % (f['qn'], q, l) for f, q, l in nr] or None)
    rep.rule('OWNERSHIP', 'no class of the library holds a raw pointer or reference to state shared between instances: '
             'pointer/reference members are listed with the reason they are per-instance')
    allow = {('(anonymous namespace)::pdf_interpolator_type', 'choice'): 'pointer to a constant GSL type descriptor',
             ('(anonymous namespace)::pdf_interpolator_type', 'interp'): 'GSL object allocated and freed by this instance',
             ('(anonymous namespace)::pdf_interpolator_type', 'xacc'): 'GSL accelerator allocated and freed by this instance',
             ('(anonymous namespace)::pdf_interpolator_type', 'yacc'): 'GSL accelerator allocated and freed by this instance',
             ('bxdecay0::event_reader::pimpl_type', 'reader'): 'back-reference to the owning reader',
             ('bxdecay0::std_random', '_generator_'): 'reference to the deviate engine supplied by the caller (one per instance '
                                                     'by the property\'s own premise)'}
    for qn, r in sorted(prog.records.items()):
        for f in r['fields']:
            if '*' in f['ty'] or f['ty'].rstrip().endswith('&'):
                key = (qn, f['name'])
                ty = f['ty'].strip()
                if key not in allow and ('(*)' in ty or ty.replace('const ', '').startswith('gsl_error_handler_t')):      # GSL: a function type
                    rep.add('OWNERSHIP', '%s::%s' % key, where({'file': r['file'], 'l': f['l']}),
                            '%s::%s (%s): pointer to a function (code is immutable)' % (qn, f['name'], f['ty'][:60]), True, nontrivial=False)
                    continue
                if key not in allow and ty.startswith('const ') and (ty.endswith('*') or ty.endswith('* const')) and ty.count('*') == 1 \
                        and any(b in ty for b in ('double', 'float', 'int', 'char', 'long', 'bool', 'unsigned', 'short')):
                    # pointer to constant scalars (a view on a literal table): nothing can be written through it, and what it points
                    # to - if it has static storage - is judged by STATICS.immutable
                    rep.add('OWNERSHIP', '%s::%s' % key, where({'file': r['file'], 'l': f['l']}),
                            '%s::%s (%s): read-only view on constant scalars' % (qn, f['name'], f['ty']), True, nontrivial=False)
                    continue
                rep.add('OWNERSHIP', '%s::%s' % key, where({'file': r['file'], 'l': f['l']}),
                        '%s::%s (%s): %s' % (qn, f['name'], f['ty'], allow.get(key, 'NOT in the reviewed table')),
                        key in allow)
    rep.floor('STATICS.immutable', n, 40)
    rep.floor('GLOBAL-EFFECT.locked', m, 2)
    rep.assumptions += ['a data race needs shared mutable state: the check enumerates all of it (statics, process-wide '
                        'mutators, pointer members); schedules themselves are not explored',
                        'GSL and libstdc++ internals are trusted to be thread-safe as documented']
    return rep
