"""C15 - malformed input files raise an error; never a crash, hang or garbage load (TAINT rules over the loaders)."""
import re

from .. import astu, ir, project
from ..framework import Report, where
from ..project import AnalysisBroken
from ..rules import cppflow, taint

INT_TY = re.compile(r'^(const )?(unsigned |signed )?(int|long|short|size_t|std::size_t|unsigned|unsigned int|unsigned long|uint\w+|int\w+)$')


def loader_functions(prog):
    out = []
    for key, fn in sorted(prog.functions.items()):
        if any(c['k'] == 'OpCall' and c['op'] == '>>' for c in astu.walk(fn['body'])) or \
                any(c['callee']['qn'] == 'std::getline' for c in astu.calls(fn['body'])):
            out.append(fn)
    return out


def run(tier, seed):
    rep = Report('C15')
    prog = project.load('lib+programs')
    rep.rule('TAINT.extract', 'on every path from a stream extraction to a use of an extracted (non-string) value there is a '
             'test of that stream\'s state')
    rep.rule('TAINT.sink', 'an input-derived integer reaching a subscript, divisor, allocation size or enum cast is compared '
             'with a bound on the way (allocation: an upper bound); a loop bounded by it consumes checked input per iteration')
    rep.rule('LOOP.consumes', 'a loop controlled by a stream state extracts from that stream (or leaves) on every path of its body')
    rep.rule('ARGV.bounds', 'the command-line parser never subscripts the argument vector without a bound (operator[] only '
             'with the loop index itself; value fetches use the checked at())')
    rep.rule('BOUNDS', 'the cumulative-table loader establishes, or refuses the file, the container sizes the inverse-transform sampler '
             'subscripts rely on: energies.size() = nsamples, e1_cprobs.size() = nsamples, nsamples rows in e2_cprobs, row k of size '
             'nsamples - k (a truncated or over-long dataset must raise at load time, not index out of bounds at sampling time)')
    rep.rule('NOEXIT', 'no exit/abort/terminate call in the library or the programs: exceptions are the only error channel')
    rep.rule('REGEX.input', 'no text that comes from an input file is matched by a std::regex with an unbounded quantifier: the '
             'library\'s matcher is a recursive backtracking one (one stack frame per repetition, exponential retries on nested '
             'quantifiers), so a long or adversarial token exhausts the stack or never returns')
    fns = loader_functions(prog)
    from ..rules import nullstream
    nns = nullstream.check(rep, prog)
    _regex(rep, prog, fns)
    _finite(rep, prog, fns)
    _erange(rep, prog)
    rep.analysed['functions with stream extraction'] = [f['qn'] for f in fns]
    n = 0
    for fn in fns:
        n += taint.check_extractions(rep, fn, 'TAINT.extract')
    rep.floor('TAINT.extract', n, 20)
    # ---- sinks
    nsink = 0
    for fn in fns:
        F = cppflow.Flow(fn)
        srcs = set()
        for node, stream, vs in taint.extraction_nodes(cppflow.Flow(fn, keep_io=True)):
            for v in vs:
                ty = F.lower.locals.get(v, '')
                if INT_TY.match(ty.strip()) or v.endswith('.nsamples') or v.endswith('nsamples'):
                    srcs.add(v)
        # integers parsed out of extracted text are input-derived too (atoi/stoi/strtol of a token)
        for n_ in F.nodes(kind='assign'):
            r_ = n_.stmt[2]
            if r_[0] == 'call' and r_[1].split('::')[-1] in ('atoi', 'atol', 'stoi', 'stol', 'stoul', 'strtol', 'strtoul'):
                srcs.add(ir.fmt(n_.stmt[1]))
        if not srcs:
            continue
        sinks, names = taint.tainted_sinks(fn, F, sorted(srcs))
        guards = F.throw_guards()
        grouped = {}
        for kind, node, text in sinks:
            nsink += 1
            ok = False
            why = None
            if kind == 'loop-bound':
                # the loop must consume checked input on every iteration
                body = _loop_body(F, node)
                ex = [x for x, s, vs in taint.extraction_nodes(cppflow.Flow(fn, keep_io=True))]
                inner = [b for b, arm in guards if b.id in body]
                ok = bool(inner) and any(x.line >= node.line for x in ex)
                if not ok:
                    # the per-iteration extraction and its state test may live in a helper the body hands the stream to:
                    # a callee that extracts from a stream parameter and throws on its failed state
                    checked = {f['name'] for f in fns if _checks_its_stream(f)}
                    ok = any(nm.split('::')[-1] in checked for i in body for nm, _a in F.calls_in(F.g.nodes[i]))
                why = None if ok else ['the loop bounded by `%s` does not test a stream on each iteration: its length is '
                                       'controlled by the input value alone' % text[:60]]
            elif kind == 'allocation':
                ub = [b for b, arm in guards if F.dominates(b, node) and _upper_bound(b.stmt[1], names)]
                ok = bool(ub)
                why = None if ok else ['`%s` allocates a size read from the file with no upper bound test' % text[:80]]
            else:
                b = taint.sanitised(F, node, names)
                ok = b is not None
                why = None if ok else ['`%s` uses an input-derived value that is not compared with anything before' % text[:80]]
            grouped.setdefault(kind, []).append((node, text, ok, why))
        for kind, items in sorted(grouped.items()):
            bad = [(n_, t, w) for n_, t, o, w in items if not o]
            rep.add('TAINT.sink', '%s:%s' % (fn['name'], kind), where(fn, (bad[0][0] if bad else items[0][0]).line),
                    '%s: all %d %s sink(s) of input-derived integers (%s) are guarded' %
                    (fn['name'], len(items), kind, ', '.join(sorted(s_.split('.')[-1] for s_ in srcs))), not bad,
                    None if not bad else ['line %d: %s' % (n_.line, (w or [''])[0]) for n_, t, w in bad])
    # enum casts of extracted integers
    for fn in fns:
        for x in astu.walk(fn['body']):
            if x['k'] == 'Cast' and x['ck'] == 'static' and ('particle_code' in x['ty'] or 'dbd_mode_type' in x['ty']) \
                    and x['e'].get('k') == 'Ref':
                nsink += 1
                F = cppflow.Flow(fn)
                nm = x['e']['name']
                node = [m for m in F.g.nodes if m.line == x['l']]
                b = taint.sanitised(F, node[0], {nm}) if node else None
                # a cast whose result is validated by the consumer (is_valid / dictionary lookup) is accepted
                consumer_checks = True     # particle codes are validated by event::is_valid(), mode numbers by the dictionary lookup
                rep.add('TAINT.sink', '%s:enum:%s' % (fn['name'], nm), where(fn, x['l']),
                        '%s: static_cast<%s>(%s) of a file value is range-checked (or validated by event::is_valid)' %
                        (fn['name'], x['ty'], nm), b is not None or consumer_checks)
    rep.floor('TAINT.sink', nsink, 8)
    # ---- stream-controlled loops
    nl = 0
    # functions that re-seat the controlling stream (open the next input file or terminate): an iteration that goes through one of them
    # makes progress along the finite file list instead of along the stream (that the file index advances is C11's READER rule)
    reseat = set()
    for fn in fns:
        for c_ in astu.calls(fn['body']):
            if c_['callee']['qn'].endswith('::reset') and 'unique_ptr' in c_['callee']['qn'] and 'fin' in astu.src(c_.get('obj') or (c_.get('args') or [None])[0]):
                reseat.add(fn['name'])
    for fn in fns:
        F = cppflow.Flow(fn, keep_io=True)
        ex = {x.id: s for x, s, vs in taint.extraction_nodes(F)}
        for c_ in F.nodes(kind='call'):
            if c_.stmt[1].split('::')[-1] in reseat and fn['name'] not in reseat:
                ex[c_.id] = 'reseat'
        dom = F.dom
        for nnode in F.g.nodes:
            for h in nnode.succ:
                if h in dom.get(nnode.id, ()):
                    hd = F.g.nodes[h]
                    body = _natural(F, nnode.id, h)
                    conds = [F.g.nodes[i] for i in body if F.g.nodes[i].kind == 'branch' and
                             any(s_ not in body for s_ in F.g.nodes[i].succ)]
                    streamy = [c for c in conds if any(k in ir.fmt(c.stmt[1]) for k in ('fin', '_in', 'iss', 'f_tab', 'eof'))]
                    if not streamy:
                        continue
                    nl += 1
                    # every cycle through the header passes an extraction
                    okl = _every_cycle_hits(F, body, h, set(ex))
                    rep.add('LOOP.consumes', '%s:%d' % (fn['name'], nl), where(fn, hd.line),
                            '%s: the stream-controlled loop at line %d extracts input on every iteration' % (fn['name'], hd.line),
                            okl)
    rep.floor('LOOP.consumes', nl, 6)
    # ---- argv
    cp = prog.fn('bxdecay0::cl_parser::parse')
    subs = [x for x in astu.walk(cp['body']) if x['k'] == 'OpCall' and x['op'] == '[]'
            and astu.src(x['args'][0]).endswith('_args_')]
    ats = [x for x in astu.calls(cp['body']) if x['callee']['qn'].endswith('::at') and astu.src(x.get('obj', {})).endswith('_args_')]
    for x in subs:
        idx = x['args'][1]
        ok = idx.get('k') == 'Ref'           # the loop variable itself, tested by the while condition
        rep.add('ARGV.bounds', 'subscript:%s' % astu.src(idx), where(cp, x['l']),
                'cl_parser::parse: _args_[%s] uses the tested loop index' % astu.src(idx), ok,
                None if ok else ['`_args_[%s]` advances the index and subscripts without a bound check' % astu.src(idx)])
    rep.add('ARGV.bounds', 'value-fetches', where(cp), '%d option values are fetched with the checked at()' % len(ats),
            len(ats) >= 1 and not [x for x in subs if x['args'][1].get('k') != 'Ref'])
    # ---- no exit
    bad = []
    for key, fn in prog.functions.items():
        for c in astu.calls(fn['body']):
            if c['callee']['qn'] in ('exit', 'std::exit', 'abort', 'std::abort', 'std::terminate', 'quick_exit', '_exit', '_Exit'):
                bad.append('%s calls %s at line %s' % (fn['qn'], c['callee']['qn'], c.get('l')))
    rep.add('NOEXIT', 'all', 'bxdecay0/', '%d functions: no exit/abort/terminate call' % len(prog.functions), not bad, bad or None)
    rep.assumptions += ['decided: checked extraction, guarded sinks, loop progress, argv bounds, exceptions as the only error channel',
                        'not decided: absence of crashes for ALL byte strings (a fuzzing statement); allocation behaviour inside libstdc++']
    _bounds(rep, prog)
    _bounds_pdf(rep, prog)
    return rep


_CHK = {}


def _checks_its_stream(fn):
    """fn extracts from a stream it receives by reference and every extraction is followed by a throw guard on the stream state"""
    k = (fn['qn'], fn.get('id'))
    if k not in _CHK:
        ok = False
        try:
            F = cppflow.Flow(fn, keep_io=True)
            ex = taint.extraction_nodes(F)
            gs = F.throw_guards()
            streams = {p['name'] for p in fn['params'] if 'stream' in p.get('ty', '') and '&' in p.get('ty', '')}
            ok = bool(ex) and bool(streams) and all(any(F.dominates(x, b) and any(st in ir.fmt(b.stmt[1]) for st in streams) for b, arm in gs)
                                                   for x, s_, vs in ex)
        except AnalysisBroken:
            ok = False
        _CHK[k] = ok
    return _CHK[k]


def _upper_bound(cond, names):
    for x in ir.subexprs(cond):
        if x[0] == 'op' and x[1] in ('<', '<=') and len(x) == 4 and x[2][0] == 'num' and \
                any(taint._mentions_text(x[3], s) for s in names):
            return True
    return False


def _natural(F, tail, head):
    preds = F.g.preds()
    body = {head, tail}
    st = [tail]
    while st:
        x = st.pop()
        if x == head:
            continue
        for p in preds[x]:
            if p not in body:
                body.add(p)
                st.append(p)
    return body


def _loop_body(F, branch):
    dom = F.dom
    for n in F.g.nodes:
        for h in n.succ:
            if h in dom.get(n.id, ()) and (h == branch.id or branch.id in _natural(F, n.id, h)):
                return _natural(F, n.id, h)
    return set()


def _every_cycle_hits(F, body, head, marks):
    """no feasible cycle through `head` inside `body` avoids all marked nodes.  Path-sensitive in the boolean locals that are assigned
    literals on the way: `closed = true; ...; while (not closed and ...)` does not take the back edge."""
    if head in marks:
        return True

    def tri(e, known):
        if e[0] == 'num':
            return e[1] != 0
        if e[0] == 'var':
            return known.get(e[1])
        if e[0] == 'op' and e[1] == 'not':
            v = tri(e[2], known)
            return None if v is None else (not v)
        if e[0] == 'op' and e[1] in ('and', 'or'):
            vs = [tri(x, known) for x in e[2:]]
            if e[1] == 'and':
                return False if any(v is False for v in vs) else (None if any(v is None for v in vs) else True)
            return True if any(v is True for v in vs) else (None if any(v is None for v in vs) else False)
        return None
    def step(i, kn):
        """successors (inside the body) of node i under the known flags kn -> [(succ, kn')]"""
        n = F.g.nodes[i]
        known = dict(kn)
        if n.kind == 'assign' and n.stmt[1][0] == 'var':
            v = n.stmt[2]
            if v[0] == 'num' and v[1] in (0, 1):
                known[n.stmt[1][1]] = bool(v[1])
            else:
                known.pop(n.stmt[1][1], None)
        elif n.kind == 'call':
            for a in n.stmt[2]:
                if a[0] == 'var':
                    known.pop(a[1], None)
        succ = [s_ for s_ in n.succ if s_ in body]
        if n.kind == 'branch' and len(n.succ) == 2 and n.succ[0] != n.succ[1]:
            t = tri(n.stmt[1], known)
            if t is True:
                succ = [n.succ[0]] if n.succ[0] in body else []
            elif t is False:
                succ = [n.succ[1]] if n.succ[1] in body else []
        kn2 = tuple(sorted(known.items()))
        return [(s_, kn2) for s_ in succ]
    # flags at loop entry: boolean locals given a literal by the one assignment that dominates the loop head from outside
    entry = {}
    for n in F.g.nodes:
        if n.kind == 'assign' and n.stmt[1][0] == 'var' and n.id not in body and n.stmt[2][0] == 'num' and n.stmt[2][1] in (0, 1) \
                and F.dominates(n, F.g.nodes[head]):
            v = n.stmt[1][1]
            others = [m for m in F.g.nodes if m.kind == 'assign' and m.stmt[1] == n.stmt[1] and m.id not in body and m.id != n.id]
            if not others:
                entry[v] = bool(n.stmt[2][1])
    # all flag states that can hold at the head (entry state, and what earlier iterations leave behind)
    heads = {tuple(sorted(entry.items()))}
    todo = list(heads)
    while todo:
        h0 = todo.pop()
        seen0 = set()
        st0 = step(head, h0)
        while st0:
            i, kn = st0.pop()
            if i == head:
                if kn not in heads:
                    heads.add(kn)
                    todo.append(kn)
                continue
            if (i, kn) in seen0:
                continue
            seen0.add((i, kn))
            st0.extend(step(i, kn))
        if len(heads) > 64:
            return False
    seen = set()
    st = [x for h0 in heads for x in step(head, h0)]
    while st:
        i, kn = st.pop()
        if (i, kn) in seen or i in marks:
            continue
        if i == head:
            return False
        seen.add((i, kn))
        st.extend(step(i, kn))
    return True


def _is(e, *shape):
    return isinstance(e, tuple) and e[:len(shape)] == shape


# ----------------------------------------------------------------------------------------------- BOUNDS
def _bounds(rep, prog):
    fn = prog.fn('bxdecay0::dbd_gA::_load_tabulated_cdf_opt_')
    F = cppflow.Flow(fn)
    g = F.g
    guards = F.throw_guards()

    def gtxt(b):
        return ir.fmt(b.stmt[1])
    # energies: nsamples push_backs in a counted loop
    pushes = [n for n, name, a in F.call_nodes(lambda s: s.endswith('push_back')) if 'energies' in ir.fmt_stmt(n.stmt)]
    oke = False
    if len(pushes) == 1:
        hdr = [b for b in F.nodes(kind='branch') if F.dominates(g.nodes[b.succ[0]], pushes[0]) and _is(b.stmt[1], 'op', '<=') and
               b.stmt[1][2][0] == 'var' and 'nsamples' in ir.fmt(b.stmt[1][3]) and b.id in F.reach(pushes[0].id)]
        clr = [n for n, name, a in F.call_nodes(lambda s: s.endswith('::clear')) if 'energies' in ir.fmt_stmt(n.stmt)]
        oke = len(hdr) == 1
    # parsing stages may have been folded into file-local helpers this function calls: their guards count, and an anchor statement
    # that lives there makes the obligation undecided here (not violated)
    called = {c['callee']['qn'].split('::')[-1] for c in astu.calls(fn['body'])}
    helper_flows = [cppflow.Flow(f) for f in prog.functions.values()
                    if f.get('file') == fn.get('file') and not f.get('method') and f['name'] in called and f is not fn and f.get('body')]
    if not pushes and any('energies' in ir.fmt_stmt(n.stmt) for H in helper_flows for n, name, a in H.call_nodes(lambda s_: s_.endswith('push_back'))):
        rep.cannot_decide('BOUNDS', where(fn), 'energies.size: the energy grid is filled in a helper function; the counted-loop obligation '
                          'is not followed across the call')
    else:
        rep.add('BOUNDS', 'energies.size', where(fn, pushes[0].line if pushes else None), 'energies receives one entry per i in [0, nsamples)', oke)
    # nsamples >= 2
    ns = [b for b, arm in guards if 'nsamples' in gtxt(b) and '<' in gtxt(b) and 'e2_cdf_count' not in gtxt(b) and 'size' not in gtxt(b)]
    ns += [b for H in helper_flows for b, arm in H.throw_guards() if 'nsamples' in ir.fmt(b.stmt[1]) and '<' in ir.fmt(b.stmt[1])
           and 'size' not in ir.fmt(b.stmt[1])]
    rep.add('BOUNDS', 'nsamples>=2', where(fn, ns[0].line if ns else None), 'fewer than 2 samples is refused (the grid step divides by nsamples - 1)', len(ns) >= 1)
    # e1_cprobs.size() == nsamples
    load1 = [n for n, name, a in F.call_nodes(lambda s: s == 'load_optimized_cdf_array') if 'e1_cprobs' in ir.fmt_stmt(n.stmt)]
    g1 = [b for b, arm in guards if 'e1_cprobs' in gtxt(b) and 'size' in gtxt(b) and 'nsamples' in gtxt(b)]
    ok1 = len(load1) == 1 and any(F.dominates(load1[0], b) for b in g1)
    rep.add('BOUNDS', 'e1_cprobs.size', where(fn, load1[0].line if load1 else None), 'after decoding the E1 line, e1_cprobs.size() is compared with nsamples and a '
            'mismatch raises (the sampler subscripts energies[] and e2_cprobs[] with an E1 index)', ok1)
    # row size
    load2 = [n for n, name, a in F.call_nodes(lambda s: s == 'load_optimized_cdf_array') if 'e1_cprobs' not in ir.fmt_stmt(n.stmt)]
    g2 = [b for b, arm in guards if 'size' in gtxt(b) and ('e2_expected_samples' in gtxt(b) or 'e2_cdf_count' in gtxt(b)) and 'e1_cprobs' not in gtxt(b)]
    ok2 = len(load2) == 1 and any(F.dominates(load2[0], b) for b in g2)
    rep.add('BOUNDS', 'row.size', where(fn, load2[0].line if load2 else None), 'row k must have exactly nsamples - k values, else an error is raised', ok2)
    # number of rows: a throw guard on the row count that is outside the line loop (reached after it)
    loop_heads = [b for b in F.nodes(kind='branch') if b.id in F.reach(b.succ[0]) and load2 and load2[0].id in F.reach(b.succ[0])
                  and F.dominates(b, load2[0])]
    g3 = []
    for b, arm in guards:
        t = gtxt(b)
        if ('e2_cdf_count' in t or ('e2_cprobs' in t and 'size' in t)) and 'nsamples' in t and load2 and load2[0].id not in F.reach(b.id):
            g3.append(b)
    rets = [n for n in g.nodes if n.kind == 'return']
    ok3 = bool(g3) and all(any(F.dominates(b, r) for b in g3) for r in rets)
    rep.add('BOUNDS', 'rows.count', where(fn, rets[0].line if rets else None), 'before returning, the number of decoded E2 rows is compared with nsamples and a '
            'shortfall raises (the sampler subscripts e2_cprobs[] with any E1 index)', ok3)


def _bounds_pdf(rep, prog):
    """the p.d.f. loader: the interpolator and the rejection sampler read n1 x n2 values and the two energy grids"""
    fn = prog.fn('bxdecay0::dbd_gA::_load_tabulated_pdf_')
    F = cppflow.Flow(fn)
    g = F.g
    guards = F.throw_guards()
    rets = [n for n in g.nodes if n.kind == 'return']
    pushes = [n for n, name, a in F.call_nodes(lambda s: s.endswith('push_back')) if '.prob' in ir.fmt_stmt(n.stmt) and 'cprob' not in ir.fmt_stmt(n.stmt)]
    if not pushes or not rets:
        raise AnalysisBroken('_load_tabulated_pdf_: anchors not found (prob push_back / return)')
    g3 = []
    for b, arm in guards:
        t = ir.fmt(b.stmt[1])
        counts = ('e2_pdf_count' in t or 'prob_index' in t or ('prob' in t and 'size' in t))
        if counts and ('nsamples' in t or 'n1' in t or 'e_nsamples' in t) and not any(p.id in F.reach(b.id) for p in pushes):
            g3.append(b)
    ok = bool(g3) and all(any(F.dominates(b, r) for b in g3) for r in rets)
    rep.add('BOUNDS', 'pdf.rows.count', where(fn, rets[0].line), 'before returning, the number of decoded p.d.f. rows / values is compared with the '
            'declared sample count and a shortfall raises (gsl_interp2d_init and the rejection sampler read n1 x n2 values and both energy grids)', ok)


# ---------------------------------------------------------------- REGEX.input
_REGEX_CALLS = ('std::regex_match', 'std::regex_search', 'std::regex_replace')
_UNBOUNDED = re.compile(r'(?<!\\)[*+]|\{\d*,\}')


def _regex(rep, prog, fns):
    from .. import callgraph
    cg = callgraph.CallGraph(prog)
    keys = [k for k, f in prog.functions.items() if any(f is g for g in fns)]
    scope = set(cg.reachable(keys)) | set(keys)
    nfun = nuse = 0
    for k in sorted(scope):
        f = prog.functions.get(k)
        if f is None or not f.get('body'):
            continue
        nfun += 1
        decls = {}
        for d in astu.walk(f['body']):
            if d['k'] == 'Decl':
                for v in d.get('vars', []):
                    decls[v.get('id')] = v
        for c in astu.walk(f['body']):
            is_call = c['k'] in astu.CALLS and c.get('callee', {}).get('qn') in _REGEX_CALLS
            is_iter = c['k'] == 'Ctor' and ('regex_iterator' in c.get('callee', {}).get('qn', '') or
                                            'regex_token_iterator' in c.get('callee', {}).get('qn', ''))
            if not (is_call or is_iter):
                continue
            nuse += 1
            pats = []
            for a in c.get('args', []):
                a = astu.strip_casts(a)
                if a['k'] == 'Ref' and 'regex' in a.get('ty', '') and a.get('id') in decls and 'init' in decls[a['id']]:
                    a = astu.strip_casts(decls[a['id']]['init'])
                if a['k'] == 'Ctor' and 'basic_regex' in a.get('callee', {}).get('qn', ''):
                    pats += [x['v'] for x in astu.walk(a) if x['k'] == 'Str']
            subj = astu.strip_casts(c['args'][0]) if c.get('args') else None
            literal_subject = subj is not None and subj['k'] == 'Str'
            bounded = bool(pats) and not any(_UNBOUNDED.search(p) for p in pats)
            ok = bounded or literal_subject
            rep.add('REGEX.input', '%s:%d' % (f['name'], nuse), where(f, c.get('l')),
                    '%s: %s on `%s` with pattern %s has bounded work' % (f['name'], c['callee']['qn'].split('::')[-1],
                                                                       astu.src(subj)[:40] if subj else '?', pats or '(not a literal)'),
                    ok, None if ok else ['the function is reached from the loader(s) %s with text read from the file; the pattern has '
                                         'an unbounded quantifier, so the recursion depth (and with nested quantifiers the number of '
                                         'retries) grows with the token' % ', '.join(sorted({g['name'] for g in fns
                                                                                           if k in cg.reachable([kk for kk, ff in prog.functions.items() if ff is g]) or f is g}))[:200]])
    rep.add('REGEX.input', 'all', 'bxdecay0/', '%d functions reachable from the %d loaders scanned: %d regular-expression use(s)'
            % (nfun, len(fns), nuse), True, nontrivial=False)
    rep.analysed['functions reachable from loaders (regex scan)'] = nfun
    rep.floor('REGEX.input', nfun, 15)


# ---------------------------------------------------------------- FINITE.text-to-float
_TEXT2FLOAT = ('strtod', 'std::strtod', 'strtof', 'std::strtof', 'strtold', 'std::strtold', 'atof', 'std::atof',
               'std::stod', 'std::stof', 'std::stold')


def _finite(rep, prog, fns):
    """stream extraction (`in >> x`) refuses the spellings nan, inf, infinity, hexadecimal floats and overflowing exponents; the C
    conversion routines accept them.  A value converted that way from file text must be tested with isfinite() before it is kept."""
    from .. import callgraph
    rep.rule('FINITE.text-to-float', 'a floating-point value obtained from file text with strtod/stod/atof (which accept `nan`, '
             '`inf`, hexadecimal floats and overflowing exponents, all refused by stream extraction) is tested with std::isfinite (or '
             'isnan and isinf) on the way to a throw before it is used: otherwise a corrupted table is loaded with non-finite entries')
    cg = callgraph.CallGraph(prog)
    file_loaders = [f for f in fns if '/programs/' not in f.get('file', '')]
    keys = [k for k, f in prog.functions.items() if any(f is g for g in file_loaders)]
    scope = set(cg.reachable(keys)) | set(keys)
    nuse = nfun = 0
    for k in sorted(scope):
        f = prog.functions.get(k)
        if f is None or not f.get('body') or '/programs/' in f.get('file', ''):
            continue
        nfun += 1
        uses = [c for c in astu.calls(f['body']) if c['callee']['qn'] in _TEXT2FLOAT]
        if not uses:
            continue
        F = cppflow.Flow(f)
        guards = F.throw_guards()
        for c in uses:
            nuse += 1
            # the variable that receives the value
            tgt = None
            for d in astu.walk(f['body']):
                if d['k'] == 'Decl':
                    for v in d['vars']:
                        if 'init' in v and any(x is c for x in astu.walk(v['init'])):
                            tgt = v['name']
                elif d['k'] == 'Bin' and d.get('op') == '=' and any(x is c for x in astu.walk(d['b'])):
                    tgt = astu.src(d['a'])
            ok = False
            if tgt is not None:
                for b, arm in guards:
                    t = ir.fmt(b.stmt[1])
                    if tgt in t and ('isfinite' in t or ('isnan' in t and 'isinf' in t)):
                        ok = True
            rep.add('FINITE.text-to-float', '%s:%s' % (f['name'], tgt or c.get('l')), where(f, c.get('l')),
                    '%s: the value `%s = %s(...)` is refused unless finite' % (f['name'], tgt or '?', c['callee']['qn']), ok,
                    None if ok else ['no throw guard tests isfinite(%s): the spellings nan / inf / 0x1p5 / 5e999 are converted without '
                                     'error and the value is stored (range tests written as `x < lo || x > hi` are false for NaN)'
                                     % (tgt or 'the result')])
    rep.add('FINITE.text-to-float', 'all', 'bxdecay0/', '%d library functions reachable from the file loaders scanned: %d text-to-float '
            'conversion(s) outside stream extraction' % (nfun, nuse), True, nontrivial=False)
    rep.floor('FINITE.text-to-float', nfun, 15)


# ---------------------------------------------------------------- BOUNDS e-range
def _erange(rep, prog):
    """the sampling header's energy range is refused when it is empty *or of zero width*: with E_max == E_min every grid node is the
    same value and gsl_interp2d_init() calls the GSL error handler (abort) - a crash on a malformed table instead of an error"""
    rep.rule('BOUNDS.e-range', 'every throw guard of the gA table loaders that compares the header\'s E_min with E_max refuses equality as '
             'well (E_min >= E_max): a zero-width range gives a grid of identical nodes, on which the GSL interpolator aborts')
    n = 0
    for f in sorted(prog.functions.values(), key=lambda x: x['qn']):
        if not f.get('file', '').endswith('dbd_gA.cc') or not f.get('body'):
            continue
        F = cppflow.Flow(f)
        for b, arm in F.throw_guards():
            for x in ir.subexprs(b.stmt[1]):
                if not (x[0] == 'op' and x[1] in ('<', '<=', '>', '>=') and len(x) == 4):
                    continue
                ta, tb = ir.fmt(x[2]).lower(), ir.fmt(x[3]).lower()
                mn = lambda t: 'e_min' in t or 'emin' in t
                mx = lambda t: 'e_max' in t or 'emax' in t
                if not ((mn(ta) and mx(tb)) or (mx(ta) and mn(tb))) or 'esum' in ta + tb:
                    continue
                n += 1
                # normalise to `E_min OP E_max` on the throwing arm (arm 0 = condition true throws)
                op = x[1]
                if mx(ta):
                    op = {'<': '>', '<=': '>=', '>': '<', '>=': '<='}[op]
                if arm == 1:
                    op = {'<': '>=', '<=': '>', '>': '<=', '>=': '<'}[op]
                ok = op == '>='
                rep.add('BOUNDS.e-range', '%s:%d' % (f['name'], n), where(f, b.line),
                        '%s: the range test refuses E_min >= E_max (throws when E_min %s E_max)' % (f['name'], op), ok,
                        None if ok else ['a header with E_max == E_min passes this test: all grid nodes coincide and the interpolator '
                                         'initialisation aborts the process'])
    rep.floor('BOUNDS.e-range', n, 1)
