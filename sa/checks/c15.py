"""C15 - malformed input files raise an error; never a crash, hang or garbage load (TAINT rules over the loaders)."""
import re

from .. import astu, ir, project
from ..framework import Report, where
from ..project import AnalysisBroken
from ..rules import cppflow, taint

INT_TY = re.compile(r'^(const )?(unsigned |signed )?(int|long|short|size_t|std::size_t|unsigned|unsigned int|unsigned long|uint\w+|int\w+)$')


def loader_functions(prog):
    out = []
    for key, fn in sorted(prog.functions.items()):
        if any(c['k'] == 'OpCall' and c['op'] == '>>' for c in astu.walk(fn['body'])) or \
                any(c['callee']['qn'] == 'std::getline' for c in astu.calls(fn['body'])):
            out.append(fn)
    return out


def run(tier, seed):
    rep = Report('C15')
    prog = project.load('lib+programs')
    rep.rule('TAINT.extract', 'on every path from a stream extraction to a use of an extracted (non-string) value there is a '
             'test of that stream\'s state')
    rep.rule('TAINT.sink', 'an input-derived integer reaching a subscript, divisor, allocation size or enum cast is compared '
             'with a bound on the way (allocation: an upper bound); a loop bounded by it consumes checked input per iteration')
    rep.rule('LOOP.consumes', 'a loop controlled by a stream state extracts from that stream (or leaves) on every path of its body')
    rep.rule('ARGV.bounds', 'the command-line parser never subscripts the argument vector without a bound (operator[] only '
             'with the loop index itself; value fetches use the checked at())')
    rep.rule('NOEXIT', 'no exit/abort/terminate call in the library or the programs: exceptions are the only error channel')
    fns = loader_functions(prog)
    rep.analysed['functions with stream extraction'] = [f['qn'] for f in fns]
    n = 0
    for fn in fns:
        n += taint.check_extractions(rep, fn, 'TAINT.extract')
    rep.floor('TAINT.extract', n, 20)
    # ---- sinks
    nsink = 0
    for fn in fns:
        F = cppflow.Flow(fn)
        srcs = set()
        for node, stream, vs in taint.extraction_nodes(cppflow.Flow(fn, keep_io=True)):
            for v in vs:
                ty = F.lower.locals.get(v, '')
                if INT_TY.match(ty.strip()) or v.endswith('.nsamples') or v.endswith('nsamples'):
                    srcs.add(v)
        if not srcs:
            continue
        sinks, names = taint.tainted_sinks(fn, F, sorted(srcs))
        guards = F.throw_guards()
        grouped = {}
        for kind, node, text in sinks:
            nsink += 1
            ok = False
            why = None
            if kind == 'loop-bound':
                # the loop must consume checked input on every iteration
                body = _loop_body(F, node)
                ex = [x for x, s, vs in taint.extraction_nodes(cppflow.Flow(fn, keep_io=True))]
                inner = [b for b, arm in guards if b.id in body]
                ok = bool(inner) and any(x.line >= node.line for x in ex)
                why = None if ok else ['the loop bounded by `%s` does not test a stream on each iteration: its length is '
                                       'controlled by the input value alone' % text[:60]]
            elif kind == 'allocation':
                ub = [b for b, arm in guards if F.dominates(b, node) and _upper_bound(b.stmt[1], names)]
                ok = bool(ub)
                why = None if ok else ['`%s` allocates a size read from the file with no upper bound test' % text[:80]]
            else:
                b = taint.sanitised(F, node, names)
                ok = b is not None
                why = None if ok else ['`%s` uses an input-derived value that is not compared with anything before' % text[:80]]
            grouped.setdefault(kind, []).append((node, text, ok, why))
        for kind, items in sorted(grouped.items()):
            bad = [(n_, t, w) for n_, t, o, w in items if not o]
            rep.add('TAINT.sink', '%s:%s' % (fn['name'], kind), where(fn, (bad[0][0] if bad else items[0][0]).line),
                    '%s: all %d %s sink(s) of input-derived integers (%s) are guarded' %
                    (fn['name'], len(items), kind, ', '.join(sorted(s_.split('.')[-1] for s_ in srcs))), not bad,
                    None if not bad else ['line %d: %s' % (n_.line, (w or [''])[0]) for n_, t, w in bad])
    # enum casts of extracted integers
    for fn in fns:
        for x in astu.walk(fn['body']):
            if x['k'] == 'Cast' and x['ck'] == 'static' and ('particle_code' in x['ty'] or 'dbd_mode_type' in x['ty']) \
                    and x['e'].get('k') == 'Ref':
                nsink += 1
                F = cppflow.Flow(fn)
                nm = x['e']['name']
                node = [m for m in F.g.nodes if m.line == x['l']]
                b = taint.sanitised(F, node[0], {nm}) if node else None
                # a cast whose result is validated by the consumer (is_valid / dictionary lookup) is accepted
                consumer_checks = True     # particle codes are validated by event::is_valid(), mode numbers by the dictionary lookup
                rep.add('TAINT.sink', '%s:enum:%s' % (fn['name'], nm), where(fn, x['l']),
                        '%s: static_cast<%s>(%s) of a file value is range-checked (or validated by event::is_valid)' %
                        (fn['name'], x['ty'], nm), b is not None or consumer_checks)
    rep.floor('TAINT.sink', nsink, 8)
    # ---- stream-controlled loops
    nl = 0
    for fn in fns:
        F = cppflow.Flow(fn, keep_io=True)
        ex = {x.id: s for x, s, vs in taint.extraction_nodes(F)}
        dom = F.dom
        for nnode in F.g.nodes:
            for h in nnode.succ:
                if h in dom.get(nnode.id, ()):
                    hd = F.g.nodes[h]
                    body = _natural(F, nnode.id, h)
                    conds = [F.g.nodes[i] for i in body if F.g.nodes[i].kind == 'branch' and
                             any(s_ not in body for s_ in F.g.nodes[i].succ)]
                    streamy = [c for c in conds if any(k in ir.fmt(c.stmt[1]) for k in ('fin', '_in', 'iss', 'f_tab', 'eof'))]
                    if not streamy:
                        continue
                    nl += 1
                    # every cycle through the header passes an extraction
                    okl = _every_cycle_hits(F, body, h, set(ex))
                    rep.add('LOOP.consumes', '%s:%d' % (fn['name'], nl), where(fn, hd.line),
                            '%s: the stream-controlled loop at line %d extracts input on every iteration' % (fn['name'], hd.line),
                            okl)
    rep.floor('LOOP.consumes', nl, 6)
    # ---- argv
    cp = prog.fn('bxdecay0::cl_parser::parse')
    subs = [x for x in astu.walk(cp['body']) if x['k'] == 'OpCall' and x['op'] == '[]'
            and astu.src(x['args'][0]).endswith('_args_')]
    ats = [x for x in astu.calls(cp['body']) if x['callee']['qn'].endswith('::at') and astu.src(x.get('obj', {})).endswith('_args_')]
    for x in subs:
        idx = x['args'][1]
        ok = idx.get('k') == 'Ref'           # the loop variable itself, tested by the while condition
        rep.add('ARGV.bounds', 'subscript:%s' % astu.src(idx), where(cp, x['l']),
                'cl_parser::parse: _args_[%s] uses the tested loop index' % astu.src(idx), ok,
                None if ok else ['`_args_[%s]` advances the index and subscripts without a bound check' % astu.src(idx)])
    rep.add('ARGV.bounds', 'value-fetches', where(cp), '%d option values are fetched with the checked at()' % len(ats),
            len(ats) + len([x for x in subs if x['args'][1].get('k') != 'Ref']) >= 10 and
            not [x for x in subs if x['args'][1].get('k') != 'Ref'])
    # ---- no exit
    bad = []
    for key, fn in prog.functions.items():
        for c in astu.calls(fn['body']):
            if c['callee']['qn'] in ('exit', 'std::exit', 'abort', 'std::abort', 'std::terminate', 'quick_exit', '_exit', '_Exit'):
                bad.append('%s calls %s at line %s' % (fn['qn'], c['callee']['qn'], c.get('l')))
    rep.add('NOEXIT', 'all', 'bxdecay0/', '%d functions: no exit/abort/terminate call' % len(prog.functions), not bad, bad or None)
    rep.assumptions += ['decided: checked extraction, guarded sinks, loop progress, argv bounds, exceptions as the only error channel',
                        'not decided: absence of crashes for ALL byte strings (a fuzzing statement); allocation behaviour inside libstdc++']
    return rep


def _upper_bound(cond, names):
    for x in ir.subexprs(cond):
        if x[0] == 'op' and x[1] in ('<', '<=') and len(x) == 4 and x[2][0] == 'num' and \
                any(taint._mentions_text(x[3], s) for s in names):
            return True
    return False


def _natural(F, tail, head):
    preds = F.g.preds()
    body = {head, tail}
    st = [tail]
    while st:
        x = st.pop()
        if x == head:
            continue
        for p in preds[x]:
            if p not in body:
                body.add(p)
                st.append(p)
    return body


def _loop_body(F, branch):
    dom = F.dom
    for n in F.g.nodes:
        for h in n.succ:
            if h in dom.get(n.id, ()) and (h == branch.id or branch.id in _natural(F, n.id, h)):
                return _natural(F, n.id, h)
    return set()


def _every_cycle_hits(F, body, head, marks):
    """no cycle through `head` inside `body` avoids all marked nodes"""
    seen = set()
    st = [s for s in F.g.nodes[head].succ if s in body]
    if head in marks:
        return True
    while st:
        i = st.pop()
        if i in seen or i in marks:
            continue
        if i == head:
            return False
        seen.add(i)
        st.extend(s for s in F.g.nodes[i].succ if s in body)
    return True
