"""C02 - double-beta events reproduce the Decay0 reference for every isotope/level/mode (translation validation)."""
from ..framework import Report
from .. import tvcheck


def run(tier, seed):
    rep = Report('C02', level='translation_validation')
    ctx, scope = tvcheck.run(rep, 'dbd', tier)
    rep.floor('TV.unit', sum(1 for i in rep.instances if i.rule == 'TV.unit'), 85)
    rep.floor('TV.dispatch', sum(1 for i in rep.instances if i.rule == 'TV.dispatch'), 100)
    rep.assumptions += [
        'oracle: resources/code/decay0/decay0_2020-04-20.for as parsed by the f77 front end of /verif',
        'decided: isotope records / accept-reject / de-excitation dispatch for 51 isotopes x levels x modes by constant '
        'propagation on both sides; structural equality of bb, the spectrum functions, dshelp1/2, the *low cascades, '
        'the alpha-chain units and shared helpers',
        'not decided: values of the pre-computed spectra, rejection trajectories, toallevents as a number',
    ]
    return rep
