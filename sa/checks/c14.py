"""C14 - the gA sampler stays in the kinematic domain and inverts its cumulative tables (decided clauses only)."""
import ast as pyast
import os
from fractions import Fraction

from .. import astu, ir, project
from ..framework import Report, where
from ..project import AnalysisBroken
from ..rules import cppflow, statics, symalg, symflow
from ..rules.symalg import Poly

GA = 'bxdecay0::dbd_gA'
ENCODER = 'resources/data/dbd_gA/tools/mkocdfdata.py'


def T(k, j=0):
    """10^(k*cur9 + j) as a Laurent monomial in T = 10^cur9"""
    c = Fraction(10) ** j
    return Poly({((('T', k),) if k else ()): c})


# ----------------------------------------------------------------------------------------------- encoder (python)
class Encoder:
    def __init__(self, path):
        self.path = path
        tree = pyast.parse(open(path).read())
        fs = [n for n in tree.body if isinstance(n, pyast.FunctionDef) and n.name == 'save_tab_cdf']
        if len(fs) != 1:
            raise AnalysisBroken('encoder: save_tab_cdf not found in %s' % path)
        self.fn = fs[0]
        self.out = self.fn.args.args[2].arg
        self.parents = {}
        for n in pyast.walk(self.fn):
            for c in pyast.iter_child_nodes(n):
                self.parents[c] = n

    def linear_exp(self, n, var):
        """(k, j) with n == k*var + j"""
        if isinstance(n, pyast.Constant) and isinstance(n.value, int):
            return (0, n.value)
        if isinstance(n, pyast.Name) and n.id == var:
            return (1, 0)
        if isinstance(n, pyast.UnaryOp) and isinstance(n.op, pyast.USub):
            k, j = self.linear_exp(n.operand, var)
            return (-k, -j)
        if isinstance(n, pyast.BinOp) and isinstance(n.op, (pyast.Add, pyast.Sub)):
            a, b = self.linear_exp(n.left, var), self.linear_exp(n.right, var)
            s = 1 if isinstance(n.op, pyast.Add) else -1
            return (a[0] + s * b[0], a[1] + s * b[1])
        raise AnalysisBroken('encoder: exponent %s is not linear in %s' % (pyast.dump(n), var))

    def poly(self, n, sym):
        if isinstance(n, pyast.Constant) and isinstance(n.value, (int, float)):
            return Poly.const(astu.dec(repr(n.value)))
        if isinstance(n, pyast.Name):
            return sym(n.id)
        if isinstance(n, pyast.UnaryOp) and isinstance(n.op, pyast.USub):
            return -self.poly(n.operand, sym)
        if isinstance(n, pyast.BinOp):
            if isinstance(n.op, pyast.Pow) and isinstance(n.left, pyast.Constant) and n.left.value == 10:
                k, j = self.linear_exp(n.right, 'cur9')
                return T(k, j)
            a, b = self.poly(n.left, sym), self.poly(n.right, sym)
            if isinstance(n.op, pyast.Add):
                return a + b
            if isinstance(n.op, pyast.Sub):
                return a - b
            if isinstance(n.op, pyast.Mult):
                return a * b
        raise AnalysisBroken('encoder: unsupported expression %s (line %s)' % (pyast.dump(n)[:80], getattr(n, 'lineno', '?')))

    def writes(self):
        """[(class, node)] for every out_.write(...)"""
        out = []
        for n in pyast.walk(self.fn):
            if isinstance(n, pyast.Call) and isinstance(n.func, pyast.Attribute) and n.func.attr == 'write' and \
                    isinstance(n.func.value, pyast.Name) and n.func.value.id == self.out:
                a = n.args[0]
                cls = 'unknown'
                if isinstance(a, pyast.Constant) and isinstance(a.value, str):
                    cls = {' ': 'sep', '\n': 'eol', '!1': 'one'}.get(a.value, 'literal:%r' % a.value)
                elif isinstance(a, pyast.Call) and isinstance(a.func, pyast.Attribute) and a.func.attr == 'format':
                    v = a.func.value
                    if isinstance(v, pyast.Constant) and v.value == '^{:d}' and len(a.args) == 1 and \
                            isinstance(a.args[0], pyast.Name):
                        cls = 'caret:' + a.args[0].id
                    elif isinstance(v, pyast.Name) and len(a.args) == 1 and isinstance(a.args[0], pyast.Name):
                        cls = 'float:%s:%s' % (v.id, a.args[0].id)
                out.append((cls, n))
        return out

    def assigns(self, name):
        return [n for n in pyast.walk(self.fn) if isinstance(n, pyast.Assign) and len(n.targets) == 1 and
                isinstance(n.targets[0], pyast.Name) and n.targets[0].id == name]

    def guard_of(self, n):
        """conditions of the enclosing if statements (as source)"""
        out = []
        x = n
        while x in self.parents:
            p = self.parents[x]
            if isinstance(p, pyast.If) and x in p.body:
                out.append(pyast.unparse(p.test))
            x = p
        return out


def run(tier, seed):
    rep = Report('C14')
    prog = project.load('lib')
    rep.rule('CODEC', 'the token classes written by the documented encoder (mkocdfdata.py: save_tab_cdf) are exactly the ones the '
             'decoder load_optimized_cdf_array recognises, no class shadows another, both sides raise the run-of-nines level only '
             'upward with the same bias 1 - 10^-n, and decode(encode(x)) = x as a Laurent-polynomial identity in 10^n; one value '
             'is pushed per value token')
    rep.rule('SEARCH', 'inverse-transform method: each search returns the first index whose cumulative value is >= the deviate, '
             'throws when there is none, the throw dominates every use of the index; the energy is the linear interpolation between '
             'the cell bounds (energies and cumulative values taken at the same index, index-1 only under index > 0, else 0); '
             'the E2 table is the row of the E1 index; two deviates, one per energy')
    rep.rule('REJECTION', 'rejection method: a pair is delivered only under the acceptance test that contains e1 + e2 < esum_max; '
             'each energy is a convex combination of the first and last sample energy with a deviate reflected into the triangle')
    rep.rule('EVENT', 'export_to_event appends exactly two particles, both ELECTRON, at time 0, whose momenta are one common '
             'rotate_zyz rotation of (0,0,p1) and p2 (0, sin, cos) with p^2 = e (e + 2 m): kinetic energies e1, e2 and opening angle '
             'cos12 as polynomial identities; shoot passes energies, then angle, then export, each value to the parameter of its role')
    _codec(rep, prog)
    _search(rep, prog)
    _rejection(rep, prog)
    _event(rep, prog)
    _grid(rep, prog)
    _fresh_tables(rep, prog)
    return rep


# ----------------------------------------------------------------------------------------------- CODEC
def _codec(rep, prog):
    path = os.path.join(project.REPO, ENCODER)
    if not os.path.exists(path):
        raise AnalysisBroken('encoder script %s not found' % ENCODER)
    enc = Encoder(path)
    dec = prog.fn('bxdecay0::load_optimized_cdf_array')
    w = enc.writes()
    classes = sorted({c.split(':')[0] for c, n in w})
    rep.add('CODEC', 'encoder:token-classes', '%s:%d' % (ENCODER, enc.fn.lineno),
            'the encoder writes separators, `^<int>`, `!1` and one formatted float (found: %s)' % classes,
            set(classes) == {'sep', 'eol', 'caret', 'one', 'float'}, None)
    # float format: built from literal pieces, general/fixed/exponent notation -> starts with a digit, sign, '.', 'n' or 'i'
    fl = [c for c, n in w if c.startswith('float:')]
    okf = False
    if len(fl) == 1:
        fmtname = fl[0].split(':')[1]
        a = enc.assigns(fmtname)
        if len(a) == 1:
            src = pyast.unparse(a[0].value)
            okf = src.replace('"', "'").startswith("'{:.'") and src.replace('"', "'").rstrip().endswith(("'g}'", "'e}'", "'f}'"))
    rep.add('CODEC', 'encoder:float-format', '%s:%d' % (ENCODER, enc.fn.lineno), 'value tokens are printf-style floats: they cannot begin with '
            '`^` nor equal `!1`', okf)
    # decoder token tests
    body = None
    for n in astu.walk(dec['body']):
        if n['k'] == 'While':
            body = n['body']
    if body is None:
        raise AnalysisBroken('decoder: token loop not found')
    chain = None
    lead = []
    stmts = body['s']
    for i, s in enumerate(stmts):
        if s['k'] == 'If' and 'token' in astu.src(s['c']) and s.get('e') is not None:
            chain = s
            # a preceding `if (token...) { ...; continue; }` is the first arm of the same chain (else-if flattened after a continue)
            j = i - 1
            while j >= 0 and stmts[j]['k'] == 'If' and stmts[j].get('e') is None and 'token' in astu.src(stmts[j]['c']) and \
                    (stmts[j]['t']['s'][-1] if stmts[j]['t']['k'] == 'Compound' and stmts[j]['t']['s'] else stmts[j]['t'])['k'] == 'Continue':
                lead.insert(0, stmts[j])
                j -= 1
    if chain is None:
        raise AnalysisBroken('decoder: token if-chain not found')
    arms = [(astu.src(x['c']), x['t']) for x in lead]
    x = chain
    while x is not None and x['k'] == 'If':
        arms.append((astu.src(x['c']), x['t']))
        x = x.get('e')
    else_arm = x
    conds = [c for c, t in arms]
    want = ["(token[0] == '^')", '(token == "!1")']
    norm = [c.replace('\\', '') for c in conds]
    okc = len(arms) == 2 and _is_caret_test(arms[0][0]) and _is_one_test(arms[1][0]) and else_arm is not None
    rep.add('CODEC', 'decoder:token-classes', where(dec, chain.get('l')), 'the decoder tests `^...` first, then `!1`, else parses a float '
            '(found: %s)' % conds, okc)
    if not okc:
        return
    caret_arm, one_arm = arms[0][1], arms[1][1]
    # caret arm: atoi(token.substr(1)); upward-only update; continue
    upd = [n for n in astu.walk(caret_arm) if n['k'] == 'If']
    okup = False
    det = None
    if len(upd) == 1:
        c = astu.strip_casts(upd[0]['c'])
        asg = [n for n in astu.walk(upd[0]['t']) if n['k'] == 'Bin' and n['op'] == '=']
        names = [astu.src(a['a']) for a in asg]
        okup = c['k'] == 'Bin' and c['op'] == '>' and astu.src(c['b']) == 'cur9' and names[:1] == ['cur9'] and \
            names.count('cur9') == 1 and astu.src(asg[0]['b']) == astu.src(c['a'])
        lv = [v for n in astu.walk(caret_arm) if n['k'] == 'Decl' for v in n['vars'] if v['name'] == astu.src(c['a'])]
        okup = okup and len(lv) == 1 and astu.src(lv[0]['init']).replace('std::', '').startswith('atoi(') and \
            any(cc['callee']['qn'].endswith('::substr') and astu.num_value(astu.strip_casts(cc['args'][0])) == 1
                for cc in astu.calls(caret_arm))
        det = None if okup else astu.src(upd[0]['c'])
    last = caret_arm['s'][-1] if caret_arm['k'] == 'Compound' else caret_arm
    okcont = last['k'] == 'Continue'
    allcur = [n for r, how, n in statics.written_refs(dec['body']) if r.get('name') == 'cur9']
    rep.add('CODEC', 'decoder:level-upward', where(dec, caret_arm.get('l')), '`^n` sets cur9 = n only when n > cur9 (the text after `^` read '
            'as an integer), then bias9, and yields no value', okup and okcont and len(allcur) == 1, det)
    eu = [a for a in enc.assigns('cur9') if enc.guard_of(a)]
    okeu = len(eu) == 1 and enc.guard_of(eu[0]) == ['this9 > cur9'] and pyast.unparse(eu[0].value) == 'this9' and \
        len(enc.assigns('cur9')) == 2
    carets = [(c, n) for c, n in w if c.startswith('caret:')]
    okcw = len(carets) == 1 and carets[0][0] == 'caret:cur9' and enc.guard_of(carets[0][1])[-1:] == ['this9 > cur9'] and \
        carets[0][1].lineno > eu[0].lineno if eu else False
    vals = [(c, n) for c, n in w if c.startswith(('float:', 'one'))]
    okorder = bool(carets) and all(n.lineno > carets[0][1].lineno for c, n in vals)
    rep.add('CODEC', 'encoder:level-upward', '%s:%d' % (ENCODER, eu[0].lineno if eu else enc.fn.lineno), 'the encoder raises cur9 only '
            'under `this9 > cur9`, writes `^cur9` there, and writes it before the value it applies to', okeu and okcw and okorder)
    # bias formula on both sides
    one = Poly.const(1)
    want_bias = one - T(-1)
    eb = enc.assigns('bias9')
    okb = bool(eb)
    for a in eb:
        try:
            okb = okb and enc.poly(a.value, lambda s: (_ for _ in ()).throw(AnalysisBroken('symbol ' + s))) == want_bias
        except AnalysisBroken:
            okb = False
    upd_b = [a for a in eb if enc.guard_of(a) == ['this9 > cur9']]
    okb = okb and len(upd_b) == 1 and upd_b[0].lineno > eu[0].lineno if eu else False

    def cpp_poly(e, symnames):
        def res(x):
            x = astu.strip_casts(x)
            if x['k'] == 'Call' and x['callee']['qn'] in ('std::pow', 'pow') and astu.num_value(astu.strip_casts(x['args'][0])) == 10:
                k, j = _linear_exp(x['args'][1], 'cur9')
                return T(k, j)
            if x['k'] == 'Ref' and x['name'] in symnames:
                return symnames[x['name']]
            if x['k'] == 'Ref' and x.get('dk') == 'local' and x['name'] not in ('cur9',) and x.get('id') not in busy:
                return cached_local(x)
            return None

        def cached_local(x):
            # a local that caches a power of ten of the level: every symbolic definition must be the same polynomial, every constant
            # definition its value before the first marker (cur9 = -1, T = 1/10), and every raise of cur9 must refresh it
            from ..rules.scopes import Locals, parent_map
            L = Locals(dec)
            v = L.decl.get(x['id'])
            if v is None:
                return None
            defs = ([v['init']] if 'init' in v else []) + [a['b'] for a in L.assigns.get(x['id'], []) if a['op'] == '=']
            if not defs or any(a['op'] != '=' for a in L.assigns.get(x['id'], [])):
                return None
            busy.add(x['id'])
            try:
                vals = [_ResAlg(res).ex(dec, d, {}, 0) for d in defs]
            finally:
                busy.discard(x['id'])
            sym = [p_ for p_ in vals if p_.symbols()]
            if not sym or any(p_ != sym[0] for p_ in sym):
                return None
            at0 = Poly({tuple((s_, e_) for s_, e_ in k if s_ != 'T'): c * (Fraction(1, 10) ** dict(k).get('T', 0)) for k, c in sym[0].t.items()})
            if any(p_ != at0 for p_ in vals if not p_.symbols()):
                raise _Stale('cached %s starts at a value that is not its formula at cur9 = -1' % x['name'])
            pm = parent_map(dec['body'])
            for a in astu.walk(dec['body']):
                if a['k'] == 'Bin' and a['op'] == '=' and astu.src(a['a']) == 'cur9' and astu.num_value(astu.strip_casts(a['b'])) is None:
                    blk = pm.get(id(pm.get(id(a), {})), {})
                    sibs = blk.get('s', []) if blk.get('k') == 'Compound' else []
                    after = [t for t in sibs if t.get('l', 0) >= a.get('l', 0)]
                    if not any(y['k'] == 'Bin' and y['op'] == '=' and astu.strip_casts(y['a']).get('id') == x['id'] for t in after for y in astu.walk(t)):
                        raise _Stale('cached %s is not refreshed where cur9 is raised (line %s): a stale power of ten is used after the level changes' % (x['name'], a.get('l')))
            return sym[0]
        busy = set()
        return _ResAlg(res).ex(dec, e, {}, 0)
    db = [n for n in astu.walk(dec['body']) if n['k'] == 'Bin' and n['op'] == '=' and astu.src(n['a']) == 'bias9']
    stale = []
    try:
        okdb = len(db) == 1 and cpp_poly(db[0]['b'], {}) == want_bias
    except _Stale as ex:
        okdb = False
        stale.append(str(ex))
    except AnalysisBroken as ex:
        raise AnalysisBroken('decoder: the bias formula is outside the algebra this rule can normalise (%s): cannot decide' % ex)
    rep.add('CODEC', 'bias', where(dec, db[0].get('l') if db else None), 'both sides use bias9 = 1 - 10^-cur9, recomputed right after cur9 '
            'is raised', bool(okb) and okdb, '; '.join(stale) or None)
    # value formula: inverse of each other
    dv = [n for n in astu.walk(else_arm) if n['k'] == 'Bin' and n['op'] == '=' and astu.src(n['a']) == 'cprob']
    ev = enc.assigns(vals[0][0].split(':')[2]) if vals and vals[0][0].startswith('float:') else \
        [a for c, n in vals if c.startswith('float:') for a in enc.assigns(c.split(':')[2])]
    okinv, why = False, None
    if len(dv) == 1 and len(ev) == 1:
        try:
            digits = [v['name'] for n in astu.walk(else_arm) if n['k'] == 'Decl' for v in n['vars'] if v.get('ty') == 'double']
            d = cpp_poly(dv[0]['b'], {'bias9': want_bias, **{x: Poly.sym('d') for x in digits}})
            back = enc.poly(ev[0].value, lambda s: {'cprob': d, 'bias9': want_bias}[s] if s in ('cprob', 'bias9')
                            else (_ for _ in ()).throw(AnalysisBroken('encoder symbol ' + s)))
            okinv = back == Poly.sym('d') and 'd' in d.symbols()
            why = None if okinv else 'decode(d) = %r; encode(decode(d)) = %r' % (d, back)
        except _Stale as ex:
            why = str(ex)
        except (AnalysisBroken, KeyError) as ex:
            raise AnalysisBroken('codec: a value formula is outside the algebra this rule can normalise (%s): cannot decide' % ex)
    else:
        why = '%d decoder / %d encoder value formulas' % (len(dv), len(ev))
    rep.add('CODEC', 'inverse', where(dec, dv[0].get('l') if dv else None), 'encode(decode(d)) = d at every level n: cprob = bias9 + d 10^-(n+1) '
            'inverts p = (cprob - bias9) 10^(n+1)', okinv, why)
    # !1 -> exactly 1.0, encoder writes !1 only under `one`
    o = [n for n in astu.walk(one_arm) if n['k'] == 'Bin' and n['op'] == '=']
    ok1 = len(o) == 1 and astu.src(o[0]['a']) == 'cprob' and astu.num_value(astu.strip_casts(o[0]['b'])) == 1
    ones = [n for c, n in w if c == 'one']
    ok1e = len(ones) == 1 and enc.guard_of(ones[0])[:1] == ['one']
    rep.add('CODEC', 'one', where(dec, one_arm.get('l')), '`!1` decodes to exactly 1.0 and is written only for values that round to 1', ok1 and ok1e)
    # parse failure throws before the value is used; one push per value token
    F = cppflow.Flow(dec)
    push = [n for n, name, a in F.call_nodes(lambda s: s.endswith('push_back'))]
    okp = len(push) == 1 and 'cprob' in ir.fmt_stmt(push[0].stmt)
    if okp:
        # the push is not reachable from the caret arm without a new token extraction
        ext = [n for n, name, a in F.call_nodes(lambda s: s == 'operator>>') if 'token' in ir.fmt_stmt(n.stmt)]
        okp = len(ext) >= 1
    # the value variable(s) declared in the plain-token arm, the assignment `cprob = f(value)`, and a throw guard between the
    # conversion and that assignment which tests the conversion's own outcome: the state of the stream the value was extracted
    # from, or the end pointer / the value of a strto*-style conversion (finiteness of the value is C15's FINITE rule)
    dvars = [v['name'] for n in astu.walk(else_arm) if n['k'] == 'Decl' for v in n['vars'] if v.get('ty') == 'double']
    asn = [n for n in F.nodes(kind='assign') if n.stmt[1] == ('var', 'cprob') and any(dn in ir.fmt(n.stmt[2]) for dn in dvars)]
    conv = set(dvars)
    for n in astu.walk(else_arm):
        if n['k'] == 'OpCall' and n.get('op') == '>>' and any(astu.src(a) in dvars for a in n['args'][1:]):
            conv.add(astu.src(n['args'][0]))                       # the stream extracted from
        if n['k'] == 'Decl':
            for v in n['vars']:
                if 'init' in v and any(c_['callee']['qn'].split('::')[-1] in ('strtod', 'strtof', 'strtold', 'stod', 'stof')
                                       for c_ in astu.calls(v['init'])):
                    for c_ in astu.calls(v['init']):
                        for a in c_.get('args', [])[1:]:
                            conv.add(astu.src(astu.strip_casts(a)).lstrip('&'))    # end pointer / position argument
    gd = [b for b, arm in F.throw_guards() if any(cv and cv in ir.fmt(b.stmt[1]) for cv in conv)]
    okg = len(asn) == 1 and any(F.dominates(g_, asn[0]) for g_ in gd)
    rep.add('CODEC', 'decoder:one-value-per-token', where(dec, push[0].line if push else None), 'one push_back(cprob) per value token; a token '
            'that is not a number raises before its value is used', okp and okg)


def _is_caret_test(c):
    c = c.replace(' ', '')
    return c in ("(token[0]=='^')", "('^'==token[0])") or c.startswith("(token[0]==94") or "'^'" in c and 'token[0]' in c and '==' in c


def _is_one_test(c):
    return c.replace(' ', '') in ('(token=="!1")', '("!1"==token)')


def _linear_exp(e, var):
    e = astu.strip_casts(e)
    if e['k'] == 'Paren':
        return _linear_exp(e['e'], var)
    if e['k'] == 'Num':
        v = astu.num_value(e)
        if v.denominator == 1:
            return (0, int(v))
    if e['k'] == 'Ref' and e['name'] == var:
        return (1, 0)
    if e['k'] == 'Un' and e['op'] == '-':
        k, j = _linear_exp(e['e'], var)
        return (-k, -j)
    if e['k'] == 'Bin' and e['op'] in '+-':
        a, b = _linear_exp(e['a'], var), _linear_exp(e['b'], var)
        s = 1 if e['op'] == '+' else -1
        return (a[0] + s * b[0], a[1] + s * b[1])
    raise AnalysisBroken('exponent %s is not linear in %s' % (astu.src(e), var))


class _Stale(Exception):
    pass


class _ResAlg(symalg.Alg):
    def __init__(self, resolver):
        super().__init__(None)
        self.resolver = resolver

    def ex(self, fn, e, env, depth):
        v = self.resolver(e)
        if v is not None:
            return v
        if e['k'] == 'Paren':
            return self.ex(fn, e['e'], env, depth)
        return super().ex(fn, e, env, depth)


# ----------------------------------------------------------------------------------------------- SEARCH
def _is(e, *shape):
    return isinstance(e, tuple) and e[:len(shape)] == shape


def _search(rep, prog):
    n0 = len(rep.instances)
    fn = prog.fn(GA + '::_shoot_e1_e2_inverse_transform_method_')
    direct = cppflow.Flow(fn)
    own_loops = [b for b in direct.nodes(kind='branch') if _is(b.stmt[1], 'op', '<=') and _is(b.stmt[1][3], 'call', 'std::vector::size')]
    _search_body(rep, prog, fn)
    if len(own_loops) < 2 and any(not i.ok for i in rep.instances[n0:]):
        # the searches live in helper functions; expanded, they are not in the one shape this rule can judge (found = i; break)
        bad = [i for i in rep.instances[n0:] if not i.ok]
        del rep.instances[n0:]
        rep.cannot_decide('SEARCH', where(fn), 'the table searches were moved into helper functions whose expanded form is not the recognised '
                          'first-cell search (%s)' % bad[0].desc[:80])


def _search_body(rep, prog, fn):
    F = cppflow.Flow(fn, helpers={k: v for k, v in cppflow.private_helpers(prog, fn).items() if not v.get('method')})
    g = F.g
    outs = [p['name'] for p in fn['params'][1:3]]
    # search loops: BRANCH (i <= size(V)) whose true arm is BRANCH (u <= V[i-1]) -> found := i-1 -> loop exit
    loops = []
    for b in F.nodes(kind='branch'):
        c = b.stmt[1]
        if _is(c, 'op', '<=') and c[2][0] == 'var' and _is(c[3], 'call', 'std::vector::size'):
            i, V = c[2], c[3][2]
            t = g.nodes[b.succ[0]]
            ok = t.kind == 'branch' and _is(t.stmt[1], 'op', '<=') and t.stmt[1][2][0] == 'var' and \
                t.stmt[1][3] == ('op', '[]', V, ('op', '-', i, ir.num(1, 'i')))
            a = g.nodes[t.succ[0]] if ok else None
            ok = ok and a.kind == 'assign' and a.stmt[1][0] == 'var' and a.stmt[2] == ('op', '-', i, ir.num(1, 'i')) and \
                a.succ == [b.succ[1]]
            inc = g.nodes[t.succ[1]] if ok else None
            ok = ok and inc.kind == 'assign' and inc.stmt[1] == i and inc.stmt[2] == ('op', '+', i, ir.num(1, 'i')) and inc.succ == [b.id]
            init = [n for n in F.nodes(kind='assign') if n.stmt[1] == i and n.id != (inc.id if inc else -1)]
            ok = ok and len(init) == 1 and init[0].stmt[2] == ir.num(1, 'i') and init[0].succ == [b.id]
            loops.append(dict(b=b, V=V, i=i, ok=bool(ok), u=t.stmt[1][2][1] if t.kind == 'branch' and _is(t.stmt[1], 'op', '<=') else None,
                              found=a.stmt[1][1] if ok else None, setn=a))
    if len(loops) != 2:
        raise AnalysisBroken('inverse-transform: expected 2 cumulative-table search loops, found %d' % len(loops))
    loops.sort(key=lambda L: L['b'].line)
    R = symflow.Resolve(F)
    for k, L in enumerate(loops):
        tag = 'E%d' % (k + 1)
        fd = L['found']
        ok = L['ok']
        if ok:
            ds = sorted(R.defs.get(fd, ()))
            other = [g.nodes[d] for d in ds if d != L['setn'].id]
            ok = len(other) == 1 and other[0].stmt[2] == ir.num(-1, 'i') and F.dominates(other[0], L['b'])
        rep.add('SEARCH', tag + ':first-cell', where(fn, L['b'].line), 'for (i = 0; i < V.size(); i++) if (u <= V[i]) { found = i; break; } '
                'with found = -1 before: the first cell whose cumulative value reaches the deviate', ok)
        if not ok:
            continue
        guard = [b for b, arm in F.throw_guards() if b.stmt[1] == ('op', '==', ('var', fd), ir.num(-1, 'i')) and arm == 0]
        uses = [n for n in g.nodes if n.stmt is not None and n.id != L['setn'].id and
                any(x[0] == 'op' and x[1] == '[]' and ('var', fd) in set(ir.subexprs(x[3])) for e in F.exprs(n) for x in ir.subexprs(e))]
        okg = len(guard) == 1 and uses and all(F.dominates(guard[0], n) and n.id in F.reach(guard[0].succ[1]) for n in uses)
        rep.add('SEARCH', tag + ':not-found-throws', where(fn, guard[0].line if guard else L['b'].line), '`found == -1` throws, and the throw guard '
                'dominates the %d statements that subscript with the index' % len(uses), bool(okg))
        # the deviate: one draw
        ud = sorted(R.defs.get(L['u'], ()))
        oku = len(ud) == 1 and g.nodes[ud[0]].stmt[2] == ('draw',)
        L['oku'] = oku
    draws = sum(ir.count_draws(e) for n in g.nodes for e in F.exprs(n))
    rep.add('SEARCH', 'deviates', where(fn), 'exactly two deviates are consumed, one per search (%d found)' % draws,
            draws == 2 and all(L.get('oku') for L in loops) and loops[0]['u'] != loops[1]['u'])
    # E2 table = row of the E1 index
    V2 = loops[1]['V']
    okrow = _is(V2, 'op', '[]') and V2[3] == ('var', loops[0]['found']) and _is(V2[2], 'fld') and V2[2][2] == 'e2_cprobs' and \
        _is(loops[0]['V'], 'fld') and loops[0]['V'][2] == 'e1_cprobs'
    rep.add('SEARCH', 'E2:row-of-E1-index', where(fn, loops[1]['b'].line), 'the second search runs over e2_cprobs[<E1 index>] (found: %s)' % ir.fmt(V2), okrow)
    # interpolation
    ret = [n for n in g.nodes if n.kind == 'return']
    if len(ret) != 1:
        raise AnalysisBroken('inverse-transform: several returns')
    energies = set()
    for k, L in enumerate(loops):
        tag = 'E%d' % (k + 1)
        if not L['ok']:
            continue
        R2 = symflow.Resolve(F, symbols={x['found'] for x in loops} | {x['u'] for x in loops})
        val = R2.value(outs[k], ret[0])
        fd, V = ('var', L['found']), L['V']
        ratios = []

        def sym(e, _fd=fd, _V=V):
            if e == ('var', L['u']):
                return Poly.sym('u')
            if _is(e, 'op', '[]'):
                arr, idx = e[2], e[3]
                name = 'C' if arr == _V else ('E' if _is(arr, 'fld') and arr[2] == 'energies' else None)
                if name == 'E':
                    energies.add(arr)
                if name and idx == _fd:
                    return Poly.sym(name + '0')
                if name and idx == ('op', '-', _fd, ir.num(1, 'i')):
                    raise AnalysisBroken('%s[index-1] used outside `index > 0`' % name)
            if _is(e, 'phi'):
                c, a, b = e[1], e[2], e[3]
                if c == ('op', '>', _fd, ir.num(0, 'i')) and b[0] == 'num' and b[1] == 0 and _is(a, 'op', '[]') and \
                        a[3] == ('op', '-', _fd, ir.num(1, 'i')):
                    name = 'C' if a[2] == _V else ('E' if _is(a[2], 'fld') and a[2][2] == 'energies' else None)
                    if name:
                        return Poly.sym(name + 'm')
                raise AnalysisBroken('lower bound is %s' % ir.fmt(e))
            if _is(e, 'op', '/'):
                ratios.append((symflow.poly(e[2], sym), symflow.poly(e[3], sym)))
                return Poly.sym('r%d' % len(ratios))
            raise AnalysisBroken('unexpected term %s' % ir.fmt(e))
        ok, why = False, None
        try:
            p = symflow.poly(val, sym)
            Em, E0, Cm, C0, u = (Poly.sym(s) for s in ('Em', 'E0', 'Cm', 'C0', 'u'))
            ok = len(ratios) == 1 and p == Em + (E0 - Em) * Poly.sym('r1') and ratios[0] == (u - Cm, C0 - Cm)
            why = None if ok else '%s = %r with ratio %r' % (outs[k], p, ratios)
        except AnalysisBroken as ex:
            why = str(ex)
        rep.add('SEARCH', tag + ':interpolation', where(fn, L['b'].line), '%s = Emin + (Emax - Emin) (u - Cmin)/(Cmax - Cmin) with (Emax, Cmax) at the '
                'found index and (Emin, Cmin) at index-1, or (0, 0) for the first cell' % outs[k], ok, why)
    rep.add('SEARCH', 'one-energy-grid', where(fn), 'both energies are read from the same energies table', len(energies) == 1,
            None if len(energies) == 1 else str(sorted(map(ir.fmt, energies))))


# ----------------------------------------------------------------------------------------------- REJECTION
def _rejection(rep, prog):
    fn = prog.fn(GA + '::_shoot_e1_e2_rejection_')
    F = cppflow.Flow(fn, helpers={k: v for k, v in cppflow.private_helpers(prog, fn).items() if not v.get('method')})
    g = F.g
    outs = [p['name'] for p in fn['params'][1:3]]
    setn = {o: [n for n in F.nodes(kind='assign') if n.stmt[1] == ('var', o)] for o in outs}
    if any(len(v) != 1 for v in setn.values()):
        rep.add('REJECTION', 'single-delivery', where(fn), 'each output is assigned once', False, str({k: len(v) for k, v in setn.items()}))
        return
    locs = [setn[o][0].stmt[2] for o in outs]
    acc = setn[outs[0]][0]
    # acceptance, whatever the loop form: the outputs are assigned exactly under `ptest < p and e1 + e2 < esum_max`, with the tested
    # values, and the loop is left exactly then (rules/loopsem.py)
    from ..rules import loopsem
    from ..rules.scopes import Locals
    L = Locals(fn)

    def draws_in(n):
        return any(x['k'] == 'OpCall' and x.get('op') == '()' and x['callee']['qn'].endswith('i_random::operator()') for x in astu.walk(n))
    loops_ = [n for n in astu.walk(fn['body']) if n['k'] in ('While', 'For', 'Do') and draws_in(n['body'])]
    if len(loops_) != 1:
        rep.cannot_decide('REJECTION', where(fn), 'accept-in-domain: %d loops drawing deviates in %s (the sampling loop may have moved '
                          'into a helper)' % (len(loops_), fn['name']))
        return
    w = loops_[0]
    deliver = {}
    domain_ops = []

    def atom_of(e, sem):
        if e['k'] == 'Bin' and e['op'] in ('<', '<=', '>', '>='):
            a, b, op = astu.strip_casts(e['a']), astu.strip_casts(e['b']), e['op']
            while a['k'] == 'Paren':
                a = astu.strip_casts(a['e'])
            while b['k'] == 'Paren':
                b = astu.strip_casts(b['e'])
            if op in ('>', '>='):
                a, b, op = b, a, {'>': '<', '>=': '<='}[op]
            if astu.src(b).endswith('esum_max') and a['k'] == 'Bin' and a['op'] == '+':
                domain_ops.append(sorted([astu.src(astu.strip_casts(a['a'])), astu.src(astu.strip_casts(a['b']))]))
                return ('atom', 'e1 + e2 < esum_max')
            if a['k'] == 'Ref' and b['k'] == 'Ref':
                return ('atom', '%s < %s' % (a['name'], b['name']))
        return None

    def on_assign(name, rhs, op, sem):
        if name in outs and op == '=':
            deliver.setdefault(name, []).append((sem.pc, astu.src(astu.strip_casts(rhs))))

    def decl_of(i):
        d = L.decl.get(i)
        if d is None:
            return None
        d = dict(d)
        d['assigned'] = bool(L.assigns.get(i))
        return d
    pre_bool = {}
    for i_, d_ in L.decl.items():
        if d_.get('ty', '').strip() == 'bool' and 'init' in d_ and d_.get('l', 0) < w.get('l', 0) and \
                astu.strip_casts(d_['init'])['k'] == 'Bool':
            pre_bool[d_['name']] = bool(astu.strip_casts(d_['init'])['v'])
    sem = loopsem.LoopSem(w, decl_of, atom_of, on_assign, pre_bool)
    try:
        leave = sem.run()
    except AnalysisBroken as ex:
        rep.cannot_decide('REJECTION', where(fn, w.get('l')), 'accept-in-domain: ' + str(ex))
        return
    opaque = [a for f_ in [leave] + [c for v in deliver.values() for c, _ in v] for a in loopsem.atoms(f_)
              if isinstance(a, str) and a.startswith('opaque:')]
    if opaque or any(len(v) != 1 for v in deliver.values()) or set(deliver) != set(outs):
        rep.cannot_decide('REJECTION', where(fn, w.get('l')), 'accept-in-domain: the delivery of (%s, %s) is not one assignment each under '
                          'conditions this rule interprets (%s)' % (outs[0], outs[1], sorted(set(opaque))[:3]))
        return
    conds = [deliver[o][0][0] for o in outs]
    vals = [deliver[o][0][1] for o in outs]
    tests = sorted(a for a in loopsem.atoms(conds[0]) if not a.startswith('carried:') and a != 'e1 + e2 < esum_max')
    expected = ('atom', 'e1 + e2 < esum_max')
    for a in tests:
        expected = loopsem.f_and(('atom', a), expected)
    ok1, cex1 = loopsem.equivalent_loop(sem, conds[0], expected)
    ok2, cex2 = loopsem.equivalent_loop(sem, conds[1], expected)
    ok3, cex3 = loopsem.equivalent_loop(sem, leave, expected)
    okv = bool(domain_ops) and all(sorted(vals) == d for d in domain_ops)
    okacc = ok1 and ok2 and ok3 and okv and len(tests) >= 1 and 'e1 + e2 < esum_max' in loopsem.atoms(conds[0])
    why = None
    if not okacc:
        why = ['(%s, %s) are assigned when %s / %s' % (outs[0], outs[1], loopsem.show(conds[0]), loopsem.show(conds[1])),
               'the loop is left when %s' % loopsem.show(leave),
               'required: exactly when the von Neumann test passes and e1 + e2 < esum_max holds for the delivered values %s (tested: %s)'
               % (vals, domain_ops)]
    rep.add('REJECTION', 'accept-in-domain', where(fn, w.get('l')), 'the pair (%s, %s) is delivered, and the loop left, exactly when '
            'ptest < p and e1 + e2 < esum_max hold, and the delivered values are the tested ones' % tuple(outs),
            okacc and all(l[0] == 'var' for l in locs), why)
    if not (okacc and all(l[0] == 'var' for l in locs)):
        return
    R = symflow.Resolve(F)
    for k, l in enumerate(locs):
        v = R.value(l[1], acc)
        fr, bk, devs = [], [], []

        def sym(e):
            if _is(e, 'call', 'std::vector::front'):
                fr.append(e[2])
                return Poly.sym('f')
            if _is(e, 'call', 'std::vector::back'):
                bk.append(e[2])
                return Poly.sym('b')
            if _is(e, 'phi'):
                c, a, b = e[1], e[2], e[3]
                # r := 1 - r under r1 + r2 > 1
                if _is(c, 'op', '>') and c[3][0] == 'num' and c[3][1] == 1 and _is(c[2], 'op', '+') and c[2][2][0] == 'var' and \
                        c[2][3][0] == 'var' and c[2][2] != c[2][3] and b in (c[2][2], c[2][3]) and a == ('op', '-', ir.num(1, 'f'), b) and \
                        all(_is_draw(R, F, x[1]) for x in (c[2][2], c[2][3])):
                    devs.append(b[1])
                    return Poly.sym('r')
                raise AnalysisBroken('deviate is %s' % ir.fmt(e))
            if e[0] == 'var' and _is_draw(R, F, e[1]):
                devs.append(e[1])
                return Poly.sym('r')
            if e == ('draw',):
                return Poly.sym('r')
            raise AnalysisBroken('unexpected term %s' % ir.fmt(e))
        ok, why = False, None
        try:
            p = symflow.poly(v, sym)
            f_, b_, r_ = Poly.sym('f'), Poly.sym('b'), Poly.sym('r')
            ok = p == f_ + r_ * (b_ - f_) and len(set(fr + bk)) == 1 and _is(fr[0], 'op', '[]') and fr[0][3] == ir.num(k, 'i') and \
                _is(fr[0][2], 'fld') and fr[0][2][2] == 'e_samples'
            why = None if ok else '%s = %r over %s' % (l[1], p, sorted(set(map(ir.fmt, fr + bk))))
        except AnalysisBroken as ex:
            why = str(ex)
        rep.add('REJECTION', 'convex:' + outs[k], where(fn, acc.line), '%s = first + r (last - first) of e_samples[%d] with r a deviate (reflected as 1 - r '
                'when r1 + r2 > 1): inside the sampled range' % (outs[k], k), ok, why)


def _is_draw(R, F, var):
    ds = R.defs.get(var, ())
    return sum(1 for d in ds if F.g.nodes[d].stmt[2] == ('draw',)) == 1


def _conj(c):
    if _is(c, 'op', 'and'):
        out = []
        for x in c[2:]:
            out += _conj(x)
        return out
    return [c]


# ----------------------------------------------------------------------------------------------- EVENT
def _event(rep, prog):
    fn = prog.fn(GA + '::export_to_event')
    F = cppflow.Flow(fn)
    g = F.g
    adds = [n for n in F.nodes(kind='call') if n.stmt[1] == 'event::add_particle']
    codes = [c for c in astu.calls(fn['body'], 'bxdecay0::particle::set_code')]
    coden = [n for n in F.nodes(kind='call') if n.stmt[1] == 'particle::set_code']
    timen = [n for n in F.nodes(kind='call') if n.stmt[1] == 'particle::set_time']
    moms = [n for n in F.nodes(kind='call') if n.stmt[1] == 'particle::set_momentum']
    loops = any(n.id in F.reach(s) for n in adds for s in n.succ)
    ok2 = len(adds) == 2 and not loops and len({ir.fmt(n.stmt[2][0]) for n in adds}) == 1
    if loops and len(adds) == 1:
        # the two electrons are appended by a loop (e.g. a range-for over the two rotated momenta): the polynomial identities below
        # are written for the two straight-line blocks; nothing is concluded
        rep.cannot_decide('EVENT', where(fn, adds[0].line), 'add_particle is called in a loop: the two-electron kinematics are not '
                          'followed through the iteration')
        return
    rep.add('EVENT', 'two-particles', where(fn, adds[0].line if adds else None), 'add_particle is called exactly twice on the event, outside any loop', ok2)
    # the event holds exactly those two particles: it is emptied before the first append
    clearing = set()
    for (qn, _), f in prog.functions.items():
        if f.get('cls') == 'bxdecay0::event' and f.get('body'):
            FE = cppflow.Flow(f)
            cl = [n for n in FE.nodes(kind='call') if n.stmt[1] == 'std::vector::clear' and
                  '_particles_' in ir.fmt(n.stmt[2][0])]
            rets = [n for n in FE.g.nodes if n.kind == 'return']
            if cl and all(any(FE.dominates(c, r) for c in cl) for r in rets):
                clearing.add('event::' + f['name'])
    if not clearing:
        raise AnalysisBroken('EVENT: no method of bxdecay0::event empties the particle list on every path')
    if adds:
        evobj = ir.fmt(adds[0].stmt[2][0])
        emptied = [n for n in F.nodes(kind='call') if n.stmt[1] in clearing and n.stmt[2] and ir.fmt(n.stmt[2][0]) == evobj
                   and F.dominates(n, adds[0])]
        # other ways of emptying: assignment of a default-constructed event, clear() on the particle list
        emptied += [n for n in F.nodes(kind='assign') if ir.fmt(n.stmt[1]) == evobj and n.stmt[2][0] == 'call' and
                    n.stmt[2][1] == 'ctor:bxdecay0::event' and len(n.stmt[2]) == 2 and F.dominates(n, adds[0])]
        emptied += [n for n in F.nodes(kind='call') if n.stmt[1] == 'std::vector::clear' and n.stmt[2] and
                    n.stmt[2][0][0] == 'call' and n.stmt[2][0][1].endswith('grab_particles') and evobj in ir.fmt(n.stmt[2][0])
                    and F.dominates(n, adds[0])]
        rep.add('EVENT', 'starts-empty', where(fn, emptied[0].line if emptied else adds[0].line),
                'the event is emptied (%s) before the first add_particle, so it holds exactly the two electrons' %
                ', '.join(sorted(clearing)), bool(emptied),
                None if emptied else ['no call of %s on `%s` dominates the first add_particle: an event object that is reused '
                                      'keeps its earlier particles (2k particles after the k-th shot)'
                                      % (' / '.join(sorted(clearing)), evobj)])
    okc = len(codes) == 1 and astu.src(astu.strip_casts(codes[0]['args'][0])) == 'ELECTRON' and len(coden) == 1 and \
        all(F.dominates(coden[0], a) for a in adds)
    okt = len(timen) == 1 and timen[0].stmt[2][1][0] == 'num' and timen[0].stmt[2][1][1] == 0 and all(F.dominates(timen[0], a) for a in adds)
    rep.add('EVENT', 'both-electrons', where(fn, coden[0].line if coden else None), 'the particle code is set once, to ELECTRON, and the particle time once, '
            'to 0, before both add_particle calls', okc and okt)
    if not ok2 or len(moms) != 2:
        rep.add('EVENT', 'momenta', where(fn), 'one set_momentum before each add_particle', False, '%d set_momentum calls' % len(moms))
        return
    okord = F.dominates(moms[0], adds[0]) and F.dominates(adds[0], moms[1]) and F.dominates(moms[1], adds[1])
    R = symflow.Resolve(F)
    vecs = []
    okargs = True
    for m in moms:
        a = m.stmt[2][1:]
        okargs = okargs and len(a) == 3 and all(_is(x, 'fld') and x[1][0] == 'var' for x in a) and [x[2] for x in a] == ['x', 'y', 'z'] and \
            len({x[1] for x in a}) == 1
        if okargs:
            vecs.append(a[0][1][1])
    rep.add('EVENT', 'momenta', where(fn, moms[0].line), 'set_momentum(V.x, V.y, V.z) then add_particle, twice, with two different vectors',
            okord and okargs and len(set(vecs)) == 2)
    if not (okargs and len(set(vecs)) == 2):
        return
    rot = []
    for v in vecs:
        e = R.value(v, moms[0] if v == vecs[0] else moms[1])
        rot.append(e)
    okrot = all(_is(e, 'call', 'rotate_zyz') and len(e) == 6 for e in rot) and rot[0][3:] == rot[1][3:]
    rep.add('EVENT', 'common-rotation', where(fn, moms[0].line), 'both momenta are rotate_zyz(v, phi, theta, psi) with the same three angle values '
            '(rotate_zyz is a proper rotation: C10 ROTATION)', okrot)
    if not okrot:
        return

    def sym(e):
        if _is(e, 'call', 'sqrt') or _is(e, 'call', 'std::sqrt') or _is(e, 'op', 'sqrt'):
            inner = symflow.poly(e[2], sym)
            c2 = Poly.sym('c:12') * Poly.sym('c:12')
            if inner == Poly.const(1) - c2:
                return Poly.sym('s:12')
            for i, en in enumerate(ens):
                E, m = Poly.sym('e%d' % (i + 1)), Poly.sym('m')
                if inner == E * E + Poly.const(2) * m * E:
                    return Poly.sym('p%d' % (i + 1))
            raise AnalysisBroken('sqrt(%r) is neither sqrt(1 - cos^2) nor sqrt(e (e + 2 m))' % inner)
        if e[0] == 'var':
            if e[1] in ens:
                return Poly.sym('e%d' % (ens.index(e[1]) + 1))
            if e[1] == cosn:
                return Poly.sym('c:12')
        if _is(e, 'call', 'decay0_emass'):
            return Poly.sym('m')
        raise AnalysisBroken('unexpected term %s' % ir.fmt(e))
    pn = [p['name'] for p in fn['params']]
    ens, cosn = pn[1:3], pn[3]
    ok, why = False, None
    try:
        vs = []
        for e in rot:
            v = e[2]
            if not _is(v, 'call', 'make_vector3') or len(v) != 5:
                raise AnalysisBroken('rotated vector is %s' % ir.fmt(v))
            vs.append([symflow.poly(c, sym) for c in v[2:]])
        p1, p2, c12 = Poly.sym('p1'), Poly.sym('p2'), Poly.sym('c:12')
        n1 = sum((c * c for c in vs[0]), Poly())
        n2 = sum((c * c for c in vs[1]), Poly())
        dot = sum((a * b for a, b in zip(vs[0], vs[1])), Poly())
        ok = n1 == p1 * p1 and n2 == p2 * p2 and dot == p1 * p2 * c12
        why = None if ok else '|v1|^2 = %r, |v2|^2 = %r, v1.v2 = %r' % (n1, n2, dot)
    except AnalysisBroken as ex:
        why = str(ex)
    rep.add('EVENT', 'kinematics', where(fn, moms[0].line), '|v1| = p1, |v2| = p2, v1.v2 = p1 p2 cos12 with pk = sqrt(ek (ek + 2 m)), m = decay0_emass(): the two '
            'electrons carry kinetic energies e1, e2 and open at cos12', ok, why)
    # the electron mass is the one the particle class uses for ELECTRON? (same constant function)
    sh = prog.fn(GA + '::shoot')
    FS = cppflow.Flow(sh)
    seq = [n for n in FS.nodes(kind='call') if n.stmt[1] in ('dbd_gA::shoot_e1_e2', 'dbd_gA::shoot_cos_theta', 'dbd_gA::export_to_event')]
    names = [n.stmt[1].split('::')[-1] for n in seq]
    okseq = names == ['shoot_e1_e2', 'shoot_cos_theta', 'export_to_event'] and all(FS.dominates(a, b) for a, b in zip(seq, seq[1:]))
    roles = {}
    bad = []
    for n in seq:
        callee = prog.fn('bxdecay0::' + n.stmt[1])
        args = list(n.stmt[2])
        if len(args) == len(callee['params']) + 1:
            args = args[1:]
        for p, a in zip(callee['params'], args):
            r = p['name']
            if r in ('e1_', 'e2_', 'cos12_'):
                if a[0] != 'var':
                    bad.append('%s receives %s for %s' % (callee['name'], ir.fmt(a), r))
                elif roles.setdefault(r, a[1]) != a[1]:
                    bad.append('%s receives %s for %s (elsewhere %s)' % (callee['name'], a[1], r, roles[r]))
    okroles = not bad and len(set(roles.values())) == 3 and len(roles) == 3
    rep.add('EVENT', 'shoot-order', where(sh), 'shoot = shoot_e1_e2 -> shoot_cos_theta -> export_to_event; the same local is passed for e1_, for e2_ and for '
            'cos12_ in every call', okseq and okroles, '; '.join(bad) or None)
    d = prog.fn(GA + '::shoot_e1_e2')
    FD = cppflow.Flow(d)
    calls_ = [n for n in FD.nodes(kind='call') if n.stmt[1].startswith('dbd_gA::_shoot_e1_e2_')]
    pn = [p['name'] for p in d['params']]
    okd = len(calls_) == 2 and len({n.stmt[1] for n in calls_}) == 2 and \
        all([a[1] for a in n.stmt[2][-3:]] == pn for n in calls_)
    conds = []
    for n in calls_:
        bs = [b for b in FD.nodes(kind='branch') if FD.dominates(b, n) and n.id in FD.reach(b.succ[0]) and n.id not in FD.reach(b.succ[1])]
        conds.append(ir.fmt(bs[-1].stmt[1]) if bs else None)
    okd = okd and None not in conds and len(set(conds)) == 2 and all('_shooting_ ==' in c for c in conds)
    rep.add('EVENT', 'method-dispatch', where(d), 'shoot_e1_e2 forwards (prng_, e1_, e2_) to one of the two samplers according to _shooting_ (%s)' % conds, okd)


# ----------------------------------------------------------------------------------------------- GRID
def _grid(rep, prog):
    """the sampling grid the inverse-transform sampler interpolates on is built from the recomputed step"""
    from ..rules import taint
    rep.rule('GRID.step', 'the energy grid `energies[i] = E_min + i * step` is built with the step recomputed as (E_max - E_min) / (n - 1), '
             'not with the step field read from the table header (a hand-rounded header step puts the cell edges off the tabulated '
             'cumulative values: sampled energies leave their cell and e1 + e2 can exceed the end point)')
    n = 0
    fns = [f for f in prog.functions.values() if f.get('file', '').endswith('dbd_gA.cc') and f.get('body')]

    def recompute(e):
        t = ir.fmt(e)
        return e[0] == 'op' and e[1] == '/' and 'max' in t and 'min' in t and '-' in t

    def last_def(F, sname, at, ex):
        """the definition of `sname` nearest to node `at` among those that dominate it: ('assign', node) | ('extract', node) | None"""
        cands = [('assign', x) for x in F.nodes(kind='assign') if ir.fmt(x.stmt[1]) == sname and F.dominates(x, at)]
        cands += [('extract', x) for x, st_, vs in ex if any(ir.fmt(v) == sname for v in vs) and F.dominates(x, at)]
        best = None
        for c in cands:
            if best is None or F.dominates(best[1], c[1]):
                best = c
        return best
    for f in sorted(fns, key=lambda x: x['qn']):
        F = cppflow.Flow(f, keep_io=True)
        pushes = [x for x, name, a in F.call_nodes(lambda s_: s_.endswith('push_back')) if 'energies' in ir.fmt(x.stmt[2][0])
                  and 'e1_' not in ir.fmt(x.stmt[2][0])]
        if not pushes:
            continue
        ex = taint.extraction_nodes(F)
        for p_ in pushes[:1]:
            arg = p_.stmt[2][1]
            if arg[0] == 'var':
                ds = [x for x in F.nodes(kind='assign') if x.stmt[1] == arg and F.dominates(x, p_)]
                if len(ds) >= 1:
                    arg = ds[-1].stmt[2]
            muls = [x for x in ir.subexprs(arg) if x[0] == 'op' and x[1] == '*']
            steps = [y for m in muls for y in m[2:] if y[0] in ('var', 'fld') and 'min' not in ir.fmt(y)]
            counters = {x.stmt[1] for x in F.nodes(kind='assign') if x.stmt[2][0] == 'op' and x.stmt[2][1] == '+' and x.stmt[1] in x.stmt[2][2:]}
            steps = [y for y in steps if y not in counters]
            if len(steps) != 1:
                # e.g. `E_min + i * (E_max - E_min) / (n - 1)` written in place: recomputed by construction
                if any(recompute(x) for x in ir.subexprs(arg)):
                    n += 1
                    rep.add('GRID.step', f['name'], where(f, p_.line), '%s: the grid step is computed in place from E_max - E_min' % f['name'], True)
                else:
                    rep.cannot_decide('GRID.step', where(f, p_.line), '%s: the grid expression `%s` has no single step factor' % (f['name'], ir.fmt(arg)[:60]))
                continue
            sname = ir.fmt(steps[0])
            d = last_def(F, sname, p_, ex)
            n += 1
            if d is not None and d[0] == 'assign':
                ok = recompute(d[1].stmt[2])
                rep.add('GRID.step', f['name'], where(f, p_.line), '%s: the step `%s` of the grid is the one recomputed at line %d' %
                        (f['name'], sname, d[1].line), ok, None if ok else ['`%s` is assigned `%s`' % (sname, ir.fmt(d[1].stmt[2])[:60])])
            elif d is not None and d[0] == 'extract':
                rep.add('GRID.step', f['name'], where(f, p_.line), '%s: the step `%s` of the grid is recomputed' % (f['name'], sname), False,
                        ['the nearest definition of `%s` before the grid loop is its extraction from the header line (line %d)' % (sname, d[1].line)])
            elif steps[0][0] == 'var' and any(q['name'] == steps[0][1] for q in f['params']):
                # the step is a parameter: what do the callers hand over?
                pos = [i for i, q in enumerate(f['params']) if q['name'] == steps[0][1]][0]
                verdicts = []
                for g in fns:
                    for c in astu.calls(g['body']):
                        if c['callee']['qn'].split('::')[-1] != f['name'] or pos >= len(c.get('args', [])):
                            continue
                        FG = cppflow.Flow(g, keep_io=True)
                        exg = taint.extraction_nodes(FG)
                        a = astu.src(astu.strip_casts(c['args'][pos]))
                        site = [x for x in FG.g.nodes if x.line == c.get('l') and x.kind in ('call', 'assign', 'eval')]
                        dd = last_def(FG, a, site[0], exg) if site else None
                        if dd is None:
                            verdicts.append(None)
                        elif dd[0] == 'extract':
                            verdicts.append((False, g, c.get('l'), a))
                        else:
                            verdicts.append((recompute(dd[1].stmt[2]), g, c.get('l'), a))
                bad = [v for v in verdicts if v is not None and v[0] is False]
                if bad:
                    rep.add('GRID.step', f['name'], where(f, p_.line), '%s: the step parameter `%s` of the grid receives a recomputed step' %
                            (f['name'], sname), False,
                            ['%s (line %s) passes `%s`, whose nearest definition is its extraction from the header line' % (v[1]['name'], v[2], v[3])
                             for v in bad])
                elif verdicts and all(v is not None and v[0] for v in verdicts):
                    rep.add('GRID.step', f['name'], where(f, p_.line), '%s: every caller passes a recomputed step' % f['name'], True)
                else:
                    rep.cannot_decide('GRID.step', where(f, p_.line), '%s: the step parameter `%s` is not followed to a definition in the callers' % (f['name'], sname))
            else:
                rep.cannot_decide('GRID.step', where(f, p_.line), '%s: no definition of the step `%s` dominates the grid loop' % (f['name'], sname))
    rep.floor('GRID.step', n, 1)


# ----------------------------------------------------------------------------------------------- TABLES
def _fresh_tables(rep, prog):
    """the loaders append (push_back) to the tables of the private object: every load must start from empty tables, whatever an
    earlier - possibly failed, half-parsed - initialisation left behind"""
    from ..rules import cppflow
    rep.rule('TABLES.fresh', 'in dbd_gA::initialize every table loader call is dominated by `_pimpl_.reset(new pimpl_type)` (a freshly '
             'constructed, empty private object) or by a call that clears the private object: the loaders append, so tables kept from '
             'an earlier load - e.g. one that threw half-way through a malformed file - would be inverted together with the new ones')
    ini = prog.fn('bxdecay0::dbd_gA::initialize')
    F = cppflow.Flow(ini)
    calls = list(F.nodes(kind='call'))
    loaders = [c for c in calls if c.stmt[1].split('::')[-1].startswith('_load_')]
    if not loaders:
        raise AnalysisBroken('dbd_gA::initialize: no `_load_*` call found')
    def _is_pimpl(a):
        return '_pimpl_' in ir.fmt(a)
    fresh = [c for c in calls if c.stmt[1].endswith('unique_ptr::reset') and len(c.stmt[2]) >= 2 and _is_pimpl(c.stmt[2][0])
             and ir.fmt(c.stmt[2][1]).startswith('new(')]
    fresh += [a for a in F.nodes(kind='assign') if _is_pimpl(a.stmt[1]) and ('make_unique' in ir.fmt(a.stmt[2]) or ir.fmt(a.stmt[2]).startswith('new('))]
    clears = [c for c in calls if c.stmt[1].split('::')[-1] in ('clear', 'reset', 'clean') and c not in fresh and c.stmt[2]
              and _is_pimpl(c.stmt[2][0]) and not c.stmt[1].endswith('unique_ptr::reset')]
    for ld in loaders:
        nm = ld.stmt[1].split('::')[-1]
        if any(F.dominates(x, ld) for x in fresh):
            rep.add('TABLES.fresh', nm, where(ini, ld.line), '%s() fills a private object constructed on this very call of initialize()' % nm, True)
        elif any(F.dominates(x, ld) for x in clears):
            rep.cannot_decide('TABLES.fresh', where(ini, ld.line), '%s() is preceded by a clearing call on the private object, not by a fresh '
                              'construction: whether that call empties every table is not decided here' % nm)
        elif fresh and not clears:
            cond = [x for x in fresh if not F.dominates(x, ld)]
            rep.add('TABLES.fresh', nm, where(ini, ld.line), '%s() fills a private object constructed on this very call of initialize()' % nm, False,
                    ['the construction of the private object at line %s is conditional and nothing clears the object on the other path: '
                     'tables appended by an earlier initialize() that threw inside a loader are still there, and the loaders append'
                     % (cond[0].line if cond else '?')])
        else:
            rep.cannot_decide('TABLES.fresh', where(ini, ld.line), '%s(): no construction or clearing of the private object recognised before it' % nm)
    rep.floor('TABLES.fresh', len(loaders), 2)
