"""Instances, known-findings matching, evidence writing, exit codes.

Exit codes of ./check:  0 = all obligations discharged (KNOWN-FINDING lines for
listed findings), 1 = violation not listed, 2 = analysis broken.
"""
import json
import os
import sys
import time

from .project import VERIF, AnalysisBroken, relpath

KNOWN = os.path.join(VERIF, 'known_findings.json')
EVID = os.environ.get('VERIF_EVIDENCE_DIR') or os.path.join(VERIF, 'evidence')


class Instance:
    """One obligation of a rule at one site."""
    __slots__ = ('rule', 'key', 'where', 'desc', 'ok', 'detail', 'nontrivial')

    def __init__(self, rule, key, where, desc, ok, detail=None, nontrivial=True):
        self.rule = rule          # rule id, e.g. 'DISPATCH.exclusive'
        self.key = key            # stable site key (no line numbers)
        self.where = where        # file:line for humans
        self.desc = desc          # what was checked
        self.ok = ok
        self.detail = detail      # for violations: the construct / path
        self.nontrivial = nontrivial

    def as_dict(self):
        d = {'rule': self.rule, 'key': self.key, 'where': self.where, 'desc': self.desc,
             'status': 'discharged' if self.ok else 'violated'}
        if self.detail is not None:
            d['detail'] = self.detail
        return d


class Report:
    def __init__(self, pid, level='other'):
        self.pid = pid
        self.level = level
        self.instances = []
        self.floors = []          # (rule, measured, floor)
        self.notes = []
        self.analysed = {}        # free-form counts: units, functions...
        self.rules = {}           # rule id -> one-line statement of the rule
        self.assumptions = []
        self.extra = {}
        self.undecided = []       # (rule, where, why): sites whose shape the rule cannot judge; exit 2 unless a violation is reported

    def cannot_decide(self, rule, where, why):
        self.undecided.append((rule, where, why))

    def rule(self, rid, text):
        self.rules[rid] = text

    def add(self, rule, key, where, desc, ok, detail=None, nontrivial=True):
        self.instances.append(Instance(rule, key, where, desc, ok, detail, nontrivial))

    def floor(self, rule, measured, floor):
        """a rule matching fewer instances than confirmed by hand is an analysis error"""
        self.floors.append((rule, measured, floor))

    def note(self, s):
        self.notes.append(s)


def load_known():
    if not os.path.exists(KNOWN):
        return []
    return json.load(open(KNOWN)).get('findings', [])


def is_known(pid, inst):
    return any(k.get('property') == pid and k.get('status') == 'known' and k.get('rule') == inst.rule and k.get('key') == inst.key
               for k in load_known())


def finish(rep, tier, seed, t0):
    """print, write evidence, return exit code"""
    pid = rep.pid
    for rule, measured, floor in rep.floors:
        if measured < floor:
            raise AnalysisBroken('rule %s matched %d instances, floor is %d (rule would pass vacuously)'
                                 % (rule, measured, floor))
    known = [k for k in load_known() if k.get('property') == pid and k.get('status') == 'known']
    viol = [i for i in rep.instances if not i.ok]
    new, listed = [], []
    for v in viol:
        m = [k for k in known if k.get('rule') == v.rule and k.get('key') == v.key]
        (listed if m else new).append((v, m[0] if m else None))
    print('== %s: %d obligations over %d rules; %d discharged, %d violated (%d listed as known findings)'
          % (pid, len(rep.instances), len(rep.rules), len(rep.instances) - len(viol), len(viol), len(listed)))
    for k, v in sorted(rep.analysed.items()):
        print('   analysed %s: %s' % (k, v))
    byrule = {}
    for i in rep.instances:
        a = byrule.setdefault(i.rule, [0, 0])
        a[0] += 1
        a[1] += 0 if i.ok else 1
    for r in sorted(byrule):
        print('   rule %-34s instances=%-5d violated=%d' % (r, byrule[r][0], byrule[r][1]))
    for n in rep.notes:
        print('   note: ' + n)
    for v, k in listed:
        print('KNOWN-FINDING: property=%s %s [%s] %s: %s' % (pid, v.where, v.rule, v.key, k.get('what', v.desc)))
    rdir = os.path.join(EVID, 'replay')
    os.makedirs(rdir, exist_ok=True)
    for f in os.listdir(rdir):
        if f.startswith(pid + '-'):
            os.remove(os.path.join(rdir, f))
    n = 0
    for v, _ in new:
        n += 1
        path = os.path.join(rdir, '%s-%d.json' % (pid, n))
        json.dump({'property': pid, **v.as_dict()}, open(path, 'w'), indent=1)
        print('%s: [%s] %s' % (v.where, v.rule, v.desc))
        if v.detail:
            for line in (v.detail if isinstance(v.detail, list) else [v.detail]):
                print('      ' + str(line))
        print('VIOLATION property=%s replay=%s' % (pid, path))
    # evidence
    nontriv = len({(i.rule, i.key) for i in rep.instances if i.nontrivial})
    samples = [i.as_dict() for i in rep.instances[:3]]
    seen = set(i.rule for i in rep.instances[:3])
    for i in rep.instances:
        if i.rule not in seen and len(samples) < 12:
            samples.append(i.as_dict())
            seen.add(i.rule)
    cov = {
        'explanation': 'Static analysis of /repo source (clang-14 AST export d0ast + Python rules). Rules: '
                       + ' | '.join('%s: %s' % kv for kv in sorted(rep.rules.items())),
        'obligations': len(rep.instances),
        'discharged': len(rep.instances) - len(viol),
        'evaluations': len(rep.instances),
        'distinct_nontrivial': nontriv,
        'rule': 'one obligation per (rule, site); non-trivial = the site actually exercises the rule '
                '(see per-rule descriptions); distinct by (rule, site key)',
        'samples': samples,
        'analysed': rep.analysed,
        'per_rule': {r: {'instances': a[0], 'violated': a[1]} for r, a in byrule.items()},
        'floors': [{'rule': r, 'measured': m, 'floor': f} for r, m, f in rep.floors],
        'known_findings_matched': [{'rule': v.rule, 'key': v.key, 'where': v.where} for v, _ in listed],
        'violations_new': [v.as_dict() for v, _ in new],
        'notes': rep.notes,
    }
    cov.update(rep.extra)
    ev = {'property_id': pid, 'tier': tier, 'seed': seed, 'level': rep.level, 'coverage': cov,
          'assumptions': rep.assumptions, 'wall_s': round(time.time() - t0, 2), 'violations': len(new)}
    os.makedirs(EVID, exist_ok=True)
    ev['undecided'] = [{'rule': r, 'where': w, 'why': y} for r, w, y in rep.undecided]
    json.dump(ev, open(os.path.join(EVID, pid + '.json'), 'w'), indent=1, default=str)
    if new:
        return 1
    if rep.undecided:
        for r, w, y in rep.undecided:
            print('ANALYSIS-BROKEN property=%s: %s: [%s] cannot decide: %s' % (pid, w, r, y))
        return 2
    return 0


def where(fn_or_file, line=None):
    if isinstance(fn_or_file, dict):
        f = fn_or_file.get('file', '?')
        line = line if line is not None else fn_or_file.get('l')
    else:
        f = fn_or_file
    return '%s:%s' % (relpath(f), line)
