import re,sys,os
src=open('spike7.py').read().split("bad=0;n=0;lev=0")[0]
exec(src)
MIN={'nucltransk':1,'nucltranskl':1,'nucltransklm':1,'nucltransklm_pb':1,'gamma':1,'electron':1,'positron':1,'pair':2,'alpha':1,'beta':1,'beta1':1,'beta2':1,'beta_1fu':1,'pbatshell':0}
MAX={'nucltransk':2,'nucltranskl':2,'nucltransklm':2,'nucltransklm_pb':5,'gamma':1,'electron':1,'positron':1,'pair':2,'alpha':1,'beta':1,'beta1':1,'beta2':1,'beta_1fu':1,'pbatshell':6}
sys.setrecursionlimit(100000)
def minmax(u,seq):
    prog=parse_blocks(seq)
    labels={p[1]:i for i,p in enumerate(prog) if p[0]=='label'}
    memo={}
    def go(pc,visited):
        key=pc
        if key in memo: return memo[key]
        lo=hi=0; start=pc
        res=None
        while True:
            if pc>=len(prog): res=(lo,hi); break
            p=prog[pc]
            if p[0]=='label':
                if p[1] in visited: res=None; break
                visited=visited|{p[1]}
            elif p[0]=='ret': res=(lo,hi); break
            elif p[0]=='goto':
                if p[1] not in labels: res=(lo,hi); break
                r=go(labels[p[1]],visited); res=None if r is None else (lo+r[0],hi+r[1]); break
            elif p[0] in('if','ifnot'):
                r1=go(labels[p[2]],visited) if p[2] in labels else (0,0)
                r2=go(pc+1,visited)
                rs=[r for r in (r1,r2) if r is not None]
                res=None if not rs else (lo+min(r[0] for r in rs), hi+max(r[1] for r in rs)); break
            elif p[0]=='call':
                m=re.match(r'(\w+)\(',p[1])
                if m and m.group(1) in MIN: lo+=MIN[m.group(1)]; hi+=MAX[m.group(1)]
                elif m: unk.add(m.group(1))
            pc+=1
        return res
    return go(0,frozenset())
unk=set()
for u in sorted(units):
    if u.endswith('low') or u in('genbbsub','bb','pbatshell'): continue
    cands=[p for p in os.listdir('/repo/bxdecay0') if p.lower()==u+'.cc']
    if not cands: continue
    c=cseq('/repo/bxdecay0/'+cands[0],u)
    if c is None: continue
    r=minmax(u,c)
    if r is None or r[0]==0 or r[1]>30: print(u,r)
print('unknown callees',unk)
