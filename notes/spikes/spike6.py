import re,sys,os,difflib
exec(open('spike1.py').read().split("def fcalls")[0])
def nn(a):  # normalise numbers
    def f(m):
        t=m.group(0)
        try: return repr(float(t.replace('d','e')))
        except: return t
    return re.sub(r'(?<![\w.])(\d+\.?\d*(?:[ed][+-]?\d+)?|\.\d+(?:[ed][+-]?\d+)?)(?![\w.])',f,a)
def fexpr(e):
    e=e.lower()
    e=e.replace('rnd1(d)','draw()').replace('alog(','log(').replace('.le.','<=').replace('.lt.','<').replace('.ge.','>=').replace('.gt.','>').replace('.eq.','==').replace('.ne.','!=').replace('.and.','&&').replace('.or.','||')
    e=re.sub(r'(\w+|\([^()]*\))\*\*2',r'pow2(\1)',e)
    e=re.sub(r'(\w+|\([^()]*\))\*\*4',r'pow4(\1)',e)
    return nn(e)
def fseq(u):
    sts=units[u]
    targets=set()
    for lab,s in sts:
        s2=re.sub(r'\s+','',s.lower())
        for m in re.finditer(r'goto(\d+)',s2): targets.add(m.group(1))
    out=[]
    for lab,s in sts:
        s2=re.sub(r'\s+','',s.lower())
        if lab and lab in targets: out.append('L'+lab)
        if re.match(r'(common|dimension|data|real|integer|character|external|save|double|complex|logical|parameter|print|write|format|\d*format|end$)',s2): continue
        if s2=='continue': continue
        m=re.match(r'if\((.*)\)goto(\d+)$',s2)
        if m: out.append('IF '+fexpr(m.group(1))+' GOTO L'+m.group(2)); continue
        m=re.match(r'goto(\d+)$',s2)
        if m: out.append('GOTO L'+m.group(1)); continue
        m=re.match(r'if\((.*)\)then$',s2)
        if m: out.append('IF '+fexpr(m.group(1))+' {'); continue
        m=re.match(r'elseif\((.*)\)then$',s2)
        if m: out.append('} ELIF '+fexpr(m.group(1))+' {'); continue
        if s2=='else': out.append('} ELSE {'); continue
        if s2=='endif': out.append('}'); continue
        if s2=='return': out.append('RETURN'); continue
        m=re.match(r'call(\w+)\((.*)\)$',s2)
        if m: out.append('CALL '+m.group(1)+'('+fexpr(m.group(2))+')'); continue
        m=re.match(r'if\((.*?)\)call(\w+)\((.*)\)$',s2)
        if m: out.append('IF '+fexpr(m.group(1))+' {'); out.append('CALL '+m.group(2)+'('+fexpr(m.group(3))+')'); out.append('}'); continue
        m=re.match(r'(\w+(?:\([^=]*\))?)=(.*)$',s2)
        if m: out.append('SET '+m.group(1)+' = '+fexpr(m.group(2))); continue
        m=re.match(r'if\((.*?)\)(\w+(?:\([^=]*\))?)=(.*)$',s2)
        if m: out.append('IF '+fexpr(m.group(1))+' {'); out.append('SET '+m.group(2)+' = '+fexpr(m.group(3))); out.append('}'); continue
        out.append('?? '+s2)
    return out
def cexpr(e):
    e=e.replace('std::','').replace('prng_()','draw()').replace('gsl_pow_2(','pow2(').replace('gsl_pow_4(','pow4(').replace('m_pi','pi')
    e=re.sub(r'\b(\w+)_\b',r'\1',e)
    return nn(e)
def cseq(path,fn):
    src=open(path,errors='replace').read()
    src=re.sub(r'//.*','',src); src=re.sub(r'/\*.*?\*/','',src,flags=re.S)
    m=re.search(r'\bvoid\s+'+fn+r'\s*\(',src,re.I)
    if not m: return None
    body=src[src.index('{',m.end()):]
    # statements: split by ; { } and labels
    t=re.sub(r'\s+',' ',body)
    out=[]
    toks=re.findall(r'label_\d+\s*:|else if \(|if \(|else|\{|\}|[^;{}]+;',t)
    # simpler: handle with a tiny scanner
    i=0; s=t; n=len(s); depth=0
    def skipws(i):
        while i<n and s[i]==' ': i+=1
        return i
    def paren(i):
        d=0;j=i
        while True:
            if s[j]=='(':d+=1
            elif s[j]==')':
                d-=1
                if d==0: return j
            j+=1
    i=s.index('{')+1; depth=1
    used=set(re.findall(r'goto label_(\d+)',s))
    while i<n and depth>0:
        i=skipws(i)
        if i>=n: break
        if s.startswith('}',i):
            depth-=1; i+=1
            j=skipws(i)
            if s.startswith('else if (',j):
                k=paren(j+8); out.append('} ELIF '+cexpr(s[j+9:k].replace(' ','').lower())+' {'); i=s.index('{',k)+1; depth+=1
            elif s.startswith('else',j):
                out.append('} ELSE {'); i=s.index('{',j)+1; depth+=1
            else:
                if depth>0: out.append('}')
            continue
        if s.startswith('{',i): depth+=1; i+=1; out.append('{'); continue
        m=re.match(r'label_(\d+) ?:',s[i:])
        if m:
            if m.group(1) in used: out.append('L'+m.group(1))
            i+=m.end(); continue
        if s.startswith('if (',i):
            k=paren(i+3); cond=cexpr(s[i+4:k].replace(' ','').lower()); j=skipws(k+1)
            m=re.match(r'\{ goto label_(\d+); \}',s[j:])
            if m: out.append('IF '+cond+' GOTO L'+m.group(1)); i=j+m.end(); continue
            out.append('IF '+cond+' {'); i=s.index('{',k)+1; depth+=1; continue
        j=s.index(';',i); st=s[i:j].strip(); i=j+1
        st2=st.replace(' ','').lower()
        if not st2: continue
        m=re.match(r'gotolabel_(\d+)$',st2)
        if m: out.append('GOTO L'+m.group(1)); continue
        if st2=='return': out.append('RETURN'); continue
        if re.match(r'(double|int|bool|particle\*|constdouble|staticconstdouble|staticdouble)\w+(,\w+)*$',st2): continue
        st2=re.sub(r'^(static)?(const)?(double|int|bool)(?=\w+=)','',st2)
        m=re.match(r'(?:decay0_)?(\w+)\(prng_,event_,?(.*)\)$',st2)
        if m: out.append('CALL '+m.group(1)+'('+cexpr(m.group(2))+')'); continue
        m=re.match(r'([\w\[\]\-]+)=(.*)$',st2)
        if m: out.append('SET '+re.sub(r'_$','',m.group(1))+' = '+cexpr(m.group(2))); continue
        out.append('?? '+st2)
    return out
tot=same=0; res={}
for u in sorted(units):
    cands=[p for p in os.listdir('/repo/bxdecay0') if p.lower()==u+'.cc']
    if not cands: continue
    if u in ('genbbsub','bb') : continue
    f=fseq(u); c=cseq('/repo/bxdecay0/'+cands[0],u)
    if c is None: print('no fn',u); continue
    # drop trailing RETURN and braces noise
    def clean(x):
        x=[l for l in x if l not in('{',)]
        while x and x[-1] in('RETURN','}'): x.pop()
        return x
    f=clean(f); c=clean(c)
    tot+=1
    if f==c: same+=1
    else:
        d=[l for l in difflib.unified_diff(f,c,lineterm='',n=0)][2:]
        res[u]=d
print(tot,same)
for u,d in res.items():
    print('=====',u,len(d))
    for l in d[:int(sys.argv[1]) if len(sys.argv)>1 else 8]: print('   ',l[:150])
