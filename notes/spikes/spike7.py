import re,sys,os,functools
src6=open('spike6.py').read()
exec(src6.split("tot=0;same=0")[0] if "tot=0;same=0" in src6 else src6.split("tot=same=0")[0])
def parse_blocks(seq):
    # convert structured IF{ } ELIF ELSE into flat gotos with synthetic labels
    out=[]; stack=[]; cnt=[0]
    def new(): cnt[0]+=1; return 'S%d'%cnt[0]
    for st in seq:
        if st.startswith('IF ') and st.endswith(' {'):
            nxt=new(); end=new(); stack.append([nxt,end])
            out.append(('ifnot',st[3:-2],nxt))
        elif st.startswith('} ELIF '):
            nxt,end=stack[-1]; out.append(('goto',end)); out.append(('label',nxt)); n2=new(); stack[-1][0]=n2
            out.append(('ifnot',st[7:-2],n2))
        elif st=='} ELSE {':
            nxt,end=stack[-1]; out.append(('goto',end)); out.append(('label',nxt)); stack[-1][0]=None
        elif st=='}':
            if not stack: continue
            nxt,end=stack.pop()
            if nxt: out.append(('label',nxt))
            out.append(('label',end))
        elif st.startswith('L'): out.append(('label',st))
        elif st.startswith('GOTO '): out.append(('goto',st[5:]))
        elif st=='RETURN': out.append(('ret',))
        elif st.startswith('IF ') and ' GOTO ' in st:
            c,l=st[3:].rsplit(' GOTO ',1); out.append(('if',c,l))
        elif st.startswith('CALL '): out.append(('call',st[5:]))
        elif st.startswith('SET '):
            l,r=st[4:].split(' = ',1); out.append(('set',l,r))
        else: out.append(('other',st))
    return out
EM={'nucltransk':0,'nucltranskl':0,'nucltransklm':0,'nucltransklm_pb':0,'gamma':0,'electron':0,'positron':0,'pair':0,'alpha':0}
def ev(e,env):
    e=e.strip()
    try:
        for k,v in env.items(): e=re.sub(r'\b'+re.escape(k)+r'\b',repr(v),e)
        if re.fullmatch(r'[\d\.\-+*/() e]+',e): return eval(e)
    except Exception: pass
    return None
def analyse(u,seq):
    prog=parse_blocks(seq)
    labels={p[1]:i for i,p in enumerate(prog) if p[0]=='label'}
    results={}
    sys.setrecursionlimit(100000)
    def run(pc,env,acc,visited,depth):
        # returns list of totals
        outs=[]
        while True:
            if pc>=len(prog): outs.append(acc); return outs
            p=prog[pc]
            if p[0]=='label':
                key=(p[1])
                if key in visited: return outs  # loop: cut
                visited=visited|{key}
            elif p[0]=='ret': outs.append(acc); return outs
            elif p[0]=='goto':
                if p[1] not in labels: outs.append(acc); return outs
                pc=labels[p[1]]; continue
            elif p[0] in('if','ifnot'):
                tgt=labels.get(p[2])
                if tgt is None: outs.append(acc); return outs
                outs+=run(tgt,dict(env),acc,visited,depth+1)
            elif p[0]=='set':
                v=ev(p[2],env)
                if v is not None: env[p[1]]=v
                else: env.pop(p[1],None)
            elif p[0]=='call':
                m=re.match(r'(\w+)\((.*)\)$',p[1])
                if m and m.group(1) in EM:
                    a=m.group(2).split(',')[0]
                    v=ev(a,env)
                    if v is None: acc=None if acc is None else acc; acc=('?',)
                    elif acc!=('?',):
                        acc=acc+v+(1.022 if m.group(1)=='pair' else 0)
                elif m and m.group(1)=='pbatshell': pass
            pc+=1
    # entries: IF levelkev==N GOTO L
    res=[]
    for i,p in enumerate(prog):
        if p[0]=='if':
            m=re.match(r'levelkev==([\d.]+)$',p[1])
            if m and p[2] in labels:
                tot=run(labels[p[2]],{},0.0,frozenset(),0)
                res.append((float(m.group(1)),tot))
    return res
bad=0;n=0;lev=0
for u in sorted(units):
    if not u.endswith('low'): continue
    cands=[p for p in os.listdir('/repo/bxdecay0') if p.lower()==u+'.cc']
    if not cands: print('NO C++',u); continue
    c=cseq('/repo/bxdecay0/'+cands[0],u)
    r=analyse(u,c); n+=1
    for L,tots in r:
        lev+=1
        vals=sorted(set(round(t*1000,1) if not isinstance(t,tuple) else -1 for t in tots))
        dev=max(abs(v-L) for v in vals) if vals else 0
        if dev>1.5: bad+=1; print(u,'level',L,'paths',len(tots),'sums',vals[:8],'maxdev',round(dev,1))
print(n,'units',lev,'levels',bad,'deviating >1.5 keV')
