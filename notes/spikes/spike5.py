import re
exec(open('spike3.py').read().split("print(len(F)")[0])
rd=open('/repo/README.rst').read()
sec=rd[rd.index('List of daughter nucleus excited states'):rd.index('List of supported double beta decay modes')]
R={}
cur=None
for line in sec.splitlines():
    m=re.match(r'\* ``(\w+)`` ->',line)
    if m: cur=m.group(1); R[cur]={}; continue
    m=re.match(r'\s+(\d+)\.\s+(\S+)\s*(\(\w+\))?\s*[{(]\s*([\d.]+) MeV',line)
    if m and cur: R[cur][int(m.group(1))]=(m.group(2),round(float(m.group(4))*1000))
print(len(R), set(R)^set(C))
for k in sorted(C):
    cl=C[k]['lev'] or {0:0}
    rl={i:v[1] for i,v in R.get(k,{}).items()}
    if cl!=rl: print(k,'C++',cl,'README',rl)
    # spin
    for i,(sp,e) in R.get(k,{}).items():
        tr=C[k]['tr'].get(i,0)
        exp={'0+':0,'2+':2}.get(sp.rstrip('?'),None)
        if exp is not None and exp!=tr: print('  spin',k,i,sp,tr)
        if exp is None: print('  spin?',k,i,sp,tr)
# name lists
lis=[l.split()[0] for l in open('/repo/resources/description/dbd_isotopes.lis') if l.strip() and not l.startswith('#')]
print('lis dbd',len(lis), set(lis)^set(C))
