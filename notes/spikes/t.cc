#include "clang/AST/ASTConsumer.h"
#include "clang/AST/RecursiveASTVisitor.h"
#include "clang/Frontend/CompilerInstance.h"
#include "clang/Frontend/FrontendAction.h"
#include "clang/Tooling/CommonOptionsParser.h"
#include "clang/Tooling/Tooling.h"
#include "llvm/Support/CommandLine.h"
using namespace clang; using namespace clang::tooling;
static llvm::cl::OptionCategory Cat("spike");
struct V : RecursiveASTVisitor<V> {
  ASTContext &C; V(ASTContext&c):C(c){}
  bool VisitFunctionDecl(FunctionDecl *F){
    if(!F->hasBody()||!F->isThisDeclarationADefinition()) return true;
    auto &SM=C.getSourceManager();
    if(!SM.isInMainFile(F->getLocation())) return true;
    unsigned n=0; struct S:RecursiveASTVisitor<S>{unsigned &n;S(unsigned&n):n(n){} bool VisitStmt(Stmt*){n++;return true;}} s(n); s.TraverseStmt(F->getBody());
    llvm::outs()<<F->getQualifiedNameAsString()<<" stmts="<<n<<"\n"; return true;}
};
struct Cons: ASTConsumer{ void HandleTranslationUnit(ASTContext &C) override { V v(C); v.TraverseDecl(C.getTranslationUnitDecl()); } };
struct Act: ASTFrontendAction{ std::unique_ptr<ASTConsumer> CreateASTConsumer(CompilerInstance&,StringRef) override {return std::make_unique<Cons>();} };
int main(int argc,const char**argv){ auto P=CommonOptionsParser::create(argc,argv,Cat); if(!P){llvm::errs()<<P.takeError();return 1;} ClangTool T(P->getCompilations(),P->getSourcePathList()); return T.run(newFrontendActionFactory<Act>().get()); }
