import re
exec(open('spike1.py').read().split("def fcalls")[0])
# Fortran GENBBsub arms
arms={}
cur=None
for lab,s in units['genbbsub']:
    s2=re.sub(r'\s+','',s)
    m=re.match(r"chnuclide='(\w+)'",s2)
    if m and cur is None or (m and m.group(1) not in arms):
        if m: cur=m.group(1); arms[cur]=[]; continue
    if cur: 
        if re.match(r'(?i)(else|endif)',s2) and False: pass
        arms[cur].append(s2.lower())
def ftab(lines):
    t={'lev':{}, 'tr':{}}
    for l in lines:
        m=re.match(r'(qbb|zdbb|adbb|ek)=([-\d.e]+)$',l)
        if m: t.setdefault(m.group(1),float(m.group(2)))
        m=re.match(r'if\(ilevel\.lt\.0\.or\.ilevel\.gt\.(\d+)\)',l)
        if m: t.setdefault('max',int(m.group(1)))
        if l.startswith('if(ilevel.ne.0)then'): t.setdefault('max',0)
        m=re.match(r'if\(ilevel\.eq\.(\d+)\)levele=(\d+)',l)
        if m: t['lev'].setdefault(int(m.group(1)),int(m.group(2)))
        m=re.match(r'if\(((?:ilevel\.eq\.\d+(?:\.or\.)?)+)\)itrans02=(\d)',l)
        if m:
            for k in re.findall(r'eq\.(\d+)',m.group(1)): t['tr'].setdefault(int(k),int(m.group(2)))
        if l.startswith('elseif(') or l.startswith('else'): break
    return t
F={k:ftab(v) for k,v in arms.items()}
# C++
src=open('/repo/bxdecay0/genbbsub.cc').read()
src=re.sub(r'//.*','',src)
init=src[src.index('if (i2bbs_ == GENBBSUB_I2BBS_DBD) {'):src.index('Unknown double beta nuclide')]
parts=re.split(r'name_starts_with\(chnuclide_, "(\w+)"\)\) \{',init)
C={}
for i in range(1,len(parts),2):
    name=parts[i]; body=re.sub(r'\s+','',parts[i+1]).lower()
    t={'lev':{},'tr':{}}
    for k in ('qbb','zdbb','adbb','ek'):
        m=re.search(r'bb_params_\.'+k+r'=([-\d.e]+);',body)
        if m: t[k]=float(m.group(1))
    m=re.search(r'if\(ilevel_<0\|\|ilevel_>(\d+)\)',body)
    if m: t['max']=int(m.group(1))
    elif 'if(ilevel_!=0)' in body: t['max']=0
    for m in re.finditer(r'if\(ilevel_==(\d+)\)\{bb_params_\.levele=(\d+);',body): t['lev'].setdefault(int(m.group(1)),int(m.group(2)))
    for m in re.finditer(r'if\(((?:ilevel_==\d+(?:\|\|)?)+)\)\{bb_params_\.itrans02=(\d);',body):
        for k in re.findall(r'==(\d+)',m.group(1)): t['tr'].setdefault(int(k),int(m.group(2)))
    C[name]=t
print(len(F),len(C), set(F)^set(C))
for k in sorted(C):
    if k in F and F[k]!=C[k]:
        print(k); print('  F',F[k]); print('  C',C[k])
