import re,sys,os,collections
F='/repo/resources/code/decay0/decay0_2020-04-20.for'
# --- fortran: split units, join continuations, strip comments
units={}
cur=None
stmts=[]
for raw in open(F,errors='replace'):
    line=raw.rstrip('\n')
    if not line.strip(): continue
    if line[0] in 'cC*!': continue
    # expand tab: tab-format: leading tab -> col 7 ; digit after tab = continuation
    if '\t' in line[:6]:
        i=line.index('\t')
        lab=line[:i]; rest=line[i+1:]
        if rest[:1].isdigit() and rest[:1]!='0' and not lab.strip():
            cont=True; body=rest[1:]
        else:
            cont=False; body=rest
    else:
        lab=line[:5]; cont = len(line)>5 and line[5] not in ' 0'; body=line[6:]
    # strip inline ! comments (not in strings)
    out='';q=False
    for ch in body:
        if ch=="'": q=not q
        if ch=='!' and not q: break
        out+=ch
    body=out.rstrip()
    if cont:
        stmts[-1][1]+=body.strip()
    else:
        stmts.append([lab.strip(),body.strip()])
# group
cur=None
for lab,s in stmts:
    m=re.match(r'(?i)(subroutine|function|real function|program|block data)\s*(\w*)',s)
    if m and not s.lower().startswith('function=') :
        cur=m.group(2).lower() or 'blockdata'; units[cur]=[]; continue
    if cur: units[cur].append((lab,s))
print(len(units),'fortran units')
def fcalls(u):
    res=[]
    for lab,s in units[u]:
        for m in re.finditer(r'(?i)\bcall\s+(\w+)\s*\(([^()]*(?:\([^()]*\)[^()]*)*)\)',s):
            res.append((m.group(1).lower(), re.sub(r'\s+','',m.group(2)).lower()))
    return res
def norm_num(a):
    # normalise numeric tokens
    def f(m):
        t=m.group(0)
        try:
            v=float(t.replace('d','e'))
            return repr(v)
        except: return t
    return re.sub(r'(?<![\w.])(\d+\.?\d*(?:[ed][+-]?\d+)?|\.\d+(?:[ed][+-]?\d+)?)(?![\w.])',f,a)
def ccalls(path):
    src=open(path,errors='replace').read()
    src=re.sub(r'//.*','',src); src=re.sub(r'/\*.*?\*/','',src,flags=re.S)
    res=[]
    for m in re.finditer(r'\b(decay0_\w+|PbAtShell|\w+low|[A-Z][a-z]?\d+m?\w*)\s*\(\s*prng_\s*,\s*event_\s*,?([^;]*?)\)\s*;',src):
        name=m.group(1).lower().replace('decay0_','')
        args=re.sub(r'\s+','',m.group(2)).lower()
        res.append((name,args))
    return res
tot=0;bad=0
for u in sorted(units):
    cands=[p for p in os.listdir('/repo/bxdecay0') if p.lower()==u+'.cc']
    if not cands: continue
    fc=[(n,norm_num(a)) for n,a in fcalls(u)]
    cc=[(n,norm_num(a.replace('std::',''))) for n,a in ccalls('/repo/bxdecay0/'+cands[0])]
    fc=[x for x in fc if x[0] not in ('particle',)]
    tot+=1
    if fc!=cc:
        bad+=1
        import difflib
        d=list(difflib.unified_diff([f"{n}({a})" for n,a in fc],[f"{n}({a})" for n,a in cc],lineterm='',n=0))
        print('=====',u,len(fc),len(cc))
        for l in d[2:40]: print('   ',l)
print(tot,'compared',bad,'differ')
