#!/bin/sh
# Build the framework from files on disk only (offline).
set -e
cd "$(dirname "$0")"
mkdir -p build evidence
if [ ! -x build/d0ast ] || [ tools/d0ast/d0ast.cc -nt build/d0ast ]; then
  clang++ $(llvm-config-14 --cxxflags) -fno-rtti -O1 tools/d0ast/d0ast.cc -o build/d0ast \
    /usr/lib/llvm-14/lib/libclang-cpp.so.14 /usr/lib/llvm-14/lib/libLLVM-14.so
fi
echo "setup ok"
