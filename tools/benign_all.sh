#!/bin/bash
# run every available benign patch through all checks; results in /tmp/benign_results/
mkdir -p /tmp/benign_results
for p in /tmp/seeded_out/b*/benign*.diff; do
  tag=$(basename $(dirname $p))_$(basename $p .diff)
  [ -f /tmp/benign_results/$tag.txt ] && continue
  /verif/tools/try_benign.sh $p > /tmp/benign_results/$tag.txt 2>&1
done
echo DONE > /tmp/benign_results/DONE
