#!/bin/bash
# usage: tools/benign_all.sh <worktree> <tag> <outdir> <patch>...   -- run benign patches through all checks
WT="$1"; TAG="$2"; OUT="$3"; shift 3
mkdir -p "$OUT"
for p in "$@"; do
  tag=$(basename $(dirname $p))_$(basename $p .diff)
  [ -f "$OUT/$tag.txt" ] && continue
  BENIGN_WT=$WT BENIGN_TAG=$TAG /verif/tools/try_benign.sh $p > "$OUT/$tag.txt" 2>&1
done
echo DONE > "$OUT/DONE_$TAG"
