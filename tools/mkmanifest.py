#!/usr/bin/env python3
"""Regenerate /verif/MANIFEST.json from the table below (kept valid at all times)."""
import json, os, sys
HERE = os.path.dirname(os.path.dirname(os.path.abspath(__file__)))
props = [json.loads(l) for l in open(os.path.join(HERE, 'properties.jsonl'))]

CHECKS = {
 'C16': dict(cat='other', technique='exact rational moment identities over table literals read from the clang AST (custom checker)',
   text='Decides two clauses statically: the 6- and 8-point Gauss-Legendre tables of dgmlt1/dgmlt2 satisfy the 2n moment identities exactly (decimal rationals from the AST literal spellings, tolerance 1e-13 as in the property), are (anti)symmetric and identical in both files. That is equivalent to exactness on all polynomials of degree <= 2n-1 on [-1,1]. The other kernels (adaptive quadrature, Simpson, golden section, divided differences, Fermi) are numerical statements and are not decided.',
   note='Trusted: clang-14 parser, d0ast exporter, Python Fraction arithmetic. Not decided: every kernel other than the GL tables / rotation shape.', ref='3/C16'),
}
NA = {}

def main():
    checks = []
    for p in props:
        c = CHECKS.get(p['id'])
        if not c:
            continue
        checks.append({
            'property_id': p['id'],
            'quick_cmd': './check %s --tier quick' % p['id'],
            'thorough_cmd': './check %s --tier thorough' % p['id'],
            'evidence_file': 'evidence/%s.json' % p['id'],
            'replay_cmd_template': './check %s --replay {path}' % p['id'],
            'engine': 'sa',
            'level_claimed': {'category': c['cat'], 'text': c['text'], 'design_ref': 'DESIGN.md ' + c['ref']},
            'level_note': c['note'],
            'technique': c['technique'],
        })
    na = [{'property_id': p['id'], 'reason': NA.get(p['id'], 'check not yet implemented in this commit (DESIGN.md section 3 describes the planned static rule)')}
          for p in props if p['id'] not in CHECKS]
    m = {'version': 1, 'setup_cmd': './setup.sh',
         'hooks': {'guard': 'BXDECAY0_VERIF', 'enable': 'none needed: no hook is compiled into /repo; the checks analyse the source as it is',
                   'baseline_off_cmd': 'cmake -S /repo -B /repo/_build -G Ninja >/dev/null && cmake --build /repo/_build -j16 >/dev/null && ctest --test-dir /repo/_build -j8 --timeout 900',
                   'source_commits': [], 'add_only': True},
         'engines': [{'name': 'sa', 'path': 'sa/', 'serves_properties': sorted(CHECKS), 'kind_free_text': 'custom static analysis: clang-14 libTooling AST exporter (tools/d0ast) + Python rule library over the resolved AST, a Fortran-77 front end for the shipped Decay0 reference, CFG/dominators, constant propagation'}],
         'checks': checks,
         'notes': 'Static analysis only (DESIGN.md). ./check exits 0 pass / 1 violation / 2 analysis broken. known_findings.json lists recorded genuine defects and fix: commits.',
         'not_applicable': na}
    json.dump(m, open(os.path.join(HERE, 'MANIFEST.json'), 'w'), indent=1)
main()
