#!/usr/bin/env python3
"""Regenerate /verif/MANIFEST.json from the table below (kept valid at all times)."""
import json, os, sys
HERE = os.path.dirname(os.path.dirname(os.path.abspath(__file__)))
props = [json.loads(l) for l in open(os.path.join(HERE, 'properties.jsonl'))]

CHECKS = {
 'C16': dict(cat='other', technique='exact rational moment identities over table literals read from the clang AST (custom checker)',
   text='Decides two clauses statically: the 6- and 8-point Gauss-Legendre tables of dgmlt1/dgmlt2 satisfy the 2n moment identities exactly (decimal rationals from the AST literal spellings, tolerance 1e-13 as in the property), are (anti)symmetric and identical in both files. That is equivalent to exactness on all polynomials of degree <= 2n-1 on [-1,1]. The other kernels (adaptive quadrature, Simpson, golden section, divided differences, Fermi) are numerical statements and are not decided.',
   note='Trusted: clang-14 parser, d0ast exporter, Python Fraction arithmetic. Not decided: every kernel other than the GL tables / rotation shape.', ref='3/C16'),
}
CHECKS['C01'] = dict(cat='translation_validation', technique='structural translation validation: Fortran-77 reference vs C++ port (CFG bisimulation / symbolic path summaries over a common IR; constant propagation of the dispatch routine per published name)',
   text='For every reference unit reachable from the background dispatch (85 units: 61 nuclide schemes, daughters, PbAtShell, beta/nucltransK*/pair/particle/fermi/tgold helpers) the normalised CFG of the shipped Decay0 2020-04-20 Fortran source and of its C++ counterpart are proved bisimilar (same branch thresholds, literals, call order, deviate order); the dispatch routine GENBBsub/genbbsub is specialised on each of the 69 published names by constant propagation on both sides and the residual programs compared. This decides the clause the property itself names (a wrong branching ratio, level energy, conversion coefficient, loop bound or call order), for all deviate sequences at once. It does not decide bit-level agreement or the numerics of replaced third-party routines.',
   note='Trusted: clang-14 parser, d0ast exporter, the f77 front end and normal form of /verif (DESIGN.md 2.4, each rule applied to both sides), the explicit admissible-difference table (every use listed in evidence). Not decided: REAL*4 vs double rounding, GSL vs CERNLIB numerics.', ref='3/C01')
CHECKS['C02'] = dict(cat='translation_validation', technique='structural translation validation (as C01) plus exhaustive constant-propagation grid of GENBBsub vs genbbsub over isotope x level x mode',
   text='bb, the 26 spectrum functions, dshelp1/2, the 45 *low cascades, the alpha-chain units and shared helpers are compared with the reference as in C01; the double-beta half of GENBBsub/genbbsub is specialised by constant propagation on every (isotope, level -1..17, mode 0..25) point and the residual straight-line programs compared: accept/reject, Q, Z, A, EK, level energy, spin flag, de-excitation routine and follow-up chain. Values of pre-computed spectra and rejection trajectories are not decided.',
   note='Same trusted base as C01. Known findings: three reference cascades never ported (Ti46low, W184low, Pt192low), mode-20 level coercion, fermi literal 0.511.', ref='3/C02')
CHECKS['C05'] = dict(cat='other', technique='constant propagation of the dispatch routine on every published name (prefix helper folded from its own AST) + catalogue/README/enumerator set equality',
   text='Exhaustive over the finite name sets: genbbsub is specialised on each of the 69+51 published names; the generate stage must call exactly the scheme of that nuclide first and only its documented daughters after it (a double-beta name at most one de-excitation routine plus the documented alpha chain), consume no deviate outside the scheme calls, and be accepted at initialisation; every prefix pair of published names must reach different schemes; unpublished probes are rejected. README appendix lists, the .lis files, the mode table and the dbd_mode_type enumerators are compared as sets.',
   note='The helper name_starts_with is not assumed to be a prefix test: its current body is folded on the literal arguments (sa/minieval.py; unsupported constructs stop the analysis with exit 2). Scheme bodies are covered by C01/C02.', ref='3/C05')
CHECKS['C06'] = dict(cat='other', technique='exhaustive constant-propagation grid (51 isotopes x levels -1..17 x modes) of port vs reference accept/reject tables + dominance rules on decay0_generator (throw guards, call-site error discipline)',
   text='The accept/reject frontier is a finite table written twice as source text (reference GENBBsub, port genbbsub): both are folded by constant propagation on every grid point and the tables compared; tabulated levels and energies are compared with the README table; rejected points must reach no call. gA routing, the level-0 requirement, the supported-nuclide set, inverted-window refusal, the window-capable mode list (= modes for which decay0_bb computes the ratio) and the error test after each genbbsub call are dominance / set-equality rules on the AST.',
   note='Known findings: mode 20 with level != 0 (reference coerces, port refuses); a window on a non-capable mode is silently ignored by the library. Not decided: that accepted requests always yield events satisfying C03/C04.', ref='3/C06')
CHECKS['C03'] = dict(cat='other', technique='all-paths energy summation over the CFG of each de-excitation unit after constant propagation of the entry level; sibling-agreement and dominance rules on decay0_bb / genbbsub',
   text='Decides the clauses whose truth is in the shape of the code: (1) in each of the 45 *low units, for each of the 173 levels it dispatches on, every CFG path to return emits transitions summing to the level energy within 3 keV (set-valued fixpoint over the residual CFG; rejection loops must emit nothing); (2) every level energy genbbsub tabulates is dispatched by the routine it calls; (3) every isotope with an excited level has a de-excitation arm; (4) the e0 formulas of decay0_bb and of the genbbsub energy check agree case by case; (5) e2 = e0 - e1 exactly for the 0nubb_* modes; (6) the window clamps dominate the spectrum computation. Together with C02 these are the structural reason the 0nu sum equals Q.',
   note='Not decided: that sampled lepton energies fall inside the window, ratio >= 1 / monotone (numerical integration), alpha-chain energy closure. Known findings: Dy162low 626 keV transition (inherited from the reference), three missing cascades.', ref='3/C03')
CHECKS['C04'] = dict(cat='other', technique='per-call-site sign/species classification, all-paths particle-count summaries composed through the dispatch, loop-progress and dominance rules over 241 functions on generation paths',
   text='Decides: species (every particle-code argument is one of the four supported codes), sign class of every creation-time argument at all ~3000 emission call sites and of every decay-time formula, the daughter-chain shape (called at time 0, block shifted from the index captured just before), non-negative constant emission energies (2500 sites), 1..100 particles per published name over all CFG paths (unit summaries composed through the specialised dispatch; infeasible threshold paths pruned), label/time-0 on every generate path including the gA branch, and for each of the 20 rejection loops that a fresh deviate is drawn on every iteration and the exit depends on it (necessary for termination).',
   note='Not decided: an actual bound on the number of deviates, finiteness of sampled (non-constant) energies, termination of deterministic loops. Observation recorded: Te124low thlev=0.55-12 (negative half-life, inherited from the reference; harmless because of the thlev>0 guard).', ref='3/C04')
CHECKS['C07'] = dict(cat='other', technique='whole-program write-set analysis of static-storage variables with single-guard confinement, who-may-call for entropy sources, forward dataflow for invalidated element bindings, must-definition analysis of the private working state, reset write-set inclusion',
   text='Decides four necessary structural conditions, each of which, when broken, makes two histories differ: (1) no variable with static storage is written after its initialisation on any path reachable from the API (48 statics, call-graph confinement to one guarded initialiser); (2) no time/entropy source is called anywhere in the library; (3) shoot() resets the event before any generator or operation runs, event/particle/bbpars reset() assign every data member, and no pointer/reference into the particle vector survives a call that may grow it; (4) _init_ assigns the working state it reads (bb_params, use_dbd_ga) on every path before reading it. Equality of two concrete event streams is not decided.',
   note='Trusted: d0ast resolved references, the may_add call-graph summary (over-approximation). Scratch tables re-filled per shot (spthe2) are covered by C02, not here.', ref='3/C07')
CHECKS['C09'] = dict(cat='other', technique='typestate rules on decay0_generator (throw-guard dominance over member writes, single-site ordering, reset write-set inclusion) over the lowered CFG of each method',
   text='Decides: every setter and add_operation writes members only behind `if (is_initialized()) throw`; shoot()/initialize() begin with the (not-)initialised guard; `_initialized_ = true` has one site, after _init_ returned; initialize() refuses undefined category, empty isotope, unknown mode, invalid level and inverted window before _init_; reset() reaches _reset_() on every path; _reset_/_set_defaults_ assign every data member of the generator, of its private implementation, of bbpars and its four bases, of dbd_gA and of the MDL operation; no raw new is stored in a member.',
   note='Not decided: that re-configuring after reset yields the same events as a fresh instance (follows from reset completeness + C07 structurally). Known finding: reset() keeps the debug flag.', ref='3/C09')
CHECKS['C12'] = dict(cat='other', technique='enumeration of all shared mutable state: static-storage write sets with single-guard confinement over the call graph, lock-scope rule for process-wide mutators, pointer/reference member table',
   text='A data race needs shared mutable state; the check enumerates all of it: every non-const static-storage variable of the library must be never written after its initialiser or written only by internal code reachable solely from the initialiser of one function-local static; every call that mutates process-wide state (GSL error handler, environment, locale, signals, C random seed) must lie in the scope of a lock on a static mutex; every pointer/reference data member is in a reviewed per-instance table. Schedules themselves are not explored (the yield-point hook the property suggests is a dynamic device and is not used).',
   note='Trusted: C++11 thread-safe initialisation of function-local statics; GSL/libstdc++ documented thread safety.', ref='3/C12')
NA = {}

def main():
    checks = []
    for p in props:
        c = CHECKS.get(p['id'])
        if not c:
            continue
        checks.append({
            'property_id': p['id'],
            'quick_cmd': './check %s --tier quick' % p['id'],
            'thorough_cmd': './check %s --tier thorough' % p['id'],
            'evidence_file': 'evidence/%s.json' % p['id'],
            'replay_cmd_template': './check %s --replay {path}' % p['id'],
            'engine': 'sa',
            'level_claimed': {'category': c['cat'], 'text': c['text'], 'design_ref': 'DESIGN.md ' + c['ref']},
            'level_note': c['note'],
            'technique': c['technique'],
        })
    na = [{'property_id': p['id'], 'reason': NA.get(p['id'], 'check not yet implemented in this commit (DESIGN.md section 3 describes the planned static rule)')}
          for p in props if p['id'] not in CHECKS]
    m = {'version': 1, 'setup_cmd': './setup.sh',
         'hooks': {'guard': 'BXDECAY0_VERIF', 'enable': 'none needed: no hook is compiled into /repo; the checks analyse the source as it is',
                   'baseline_off_cmd': 'cmake -S /repo -B /repo/_build -G Ninja >/dev/null && cmake --build /repo/_build -j16 >/dev/null && ctest --test-dir /repo/_build -j8 --timeout 900',
                   'source_commits': [], 'add_only': True},
         'engines': [{'name': 'sa', 'path': 'sa/', 'serves_properties': sorted(CHECKS), 'kind_free_text': 'custom static analysis: clang-14 libTooling AST exporter (tools/d0ast) + Python rule library over the resolved AST, a Fortran-77 front end for the shipped Decay0 reference, CFG/dominators, constant propagation'}],
         'checks': checks,
         'notes': 'Static analysis only (DESIGN.md). ./check exits 0 pass / 1 violation / 2 analysis broken. known_findings.json lists recorded genuine defects and fix: commits.',
         'not_applicable': na}
    json.dump(m, open(os.path.join(HERE, 'MANIFEST.json'), 'w'), indent=1)
main()
